#!/bin/bash
# usage: tools/eval_mech.sh <transformation> [checks...]  -- all (or the named) quick checks on a scratch copy of /repo HEAD rewritten by a
# mechanical transformation (sa/selftest_transforms.py); prints every finding. Every check has to stay at exit 0.
set -u
T=$1; shift
CHECKS=${@:-C01 C02 C03 C04 C05 C06 C07 C08 C09 C10 C11 C12 C13 C14 C15 C16 C17 C18 C19}
WT=/tmp/ev/mech_$T
rm -rf $WT; mkdir -p /tmp/ev
git -C /repo worktree add -q --detach $WT HEAD || exit 9
(cd /verif && python3 -c "
from sa.selftest_transforms import apply_transform
apply_transform('$WT', '$T')")
EV=$(mktemp -d)
for p in $CHECKS; do
  ( (cd /verif && VERIF_REPO=$WT VERIF_EVIDENCE_DIR=$EV python3 -m sa.check $p --tier quick > /tmp/ev/mech_$T.$p.out 2>&1); echo "$p exit=$?" > /tmp/ev/mech_$T.$p.code ) &
done
wait
for p in $CHECKS; do
  c=$(cat /tmp/ev/mech_$T.$p.code)
  case "$c" in *exit=0) ;; *) echo "--- $c"; grep "^  rule=\|ANALYSIS-ERROR\|Traceback\|Error" /tmp/ev/mech_$T.$p.out | cut -c1-${WIDTH:-420} | head -${LINES_MAX:-12};; esac
done
rm -rf $EV
cd /; git -C /repo worktree remove --force $WT
