#!/bin/bash
# run all 19 checks in parallel (tier $1, default quick) and print one line per property
T=${1:-quick}
cd /verif
for i in 01 02 03 04 05 06 07 08 09 10 11 12 13 14 15 16 17 18 19; do
  ( python3 -m sa.check C$i --tier $T > /tmp/allchk_C$i.out 2>&1; echo "C$i exit=$? $(grep -c '^VIOLATION' /tmp/allchk_C$i.out) viol $(grep -c '^KNOWN-FINDING' /tmp/allchk_C$i.out) known" ) &
done
wait
