#!/bin/bash
# usage: tools/try_seed.sh <dir with patch.diff> <check ids...>  -- apply a seeded change in a scratch worktree, run the named checks, show their verdict lines
SRC="$1"; shift
WT=/tmp/ev/try_$$
mkdir -p /tmp/ev
git -C /repo worktree add -q --detach "$WT" HEAD || exit 9
(cd "$WT" && git apply "$SRC/patch.diff") || { git -C /repo worktree remove --force "$WT"; exit 3; }
EV=$(mktemp -d)
for p in "$@"; do
  (cd /verif && VERIF_REPO="$WT" VERIF_EVIDENCE_DIR="$EV" python3 -m sa.check $p --tier quick 2>&1 | grep -v '^KNOWN-FINDING' | sed "s#$WT#WT#g" | cut -c1-400 | tail -${LINES_SHOWN:-8}; echo "exit=${PIPESTATUS[0]}")
done
rm -rf "$EV"
git -C /repo worktree remove --force "$WT"
