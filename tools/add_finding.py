#!/usr/bin/env python3
"""usage: tools/add_finding.py <property> <rule> <status> <construct> <what> [commit | why_not_fixed]  -- appends one entry to known_findings.json (by hand, never at check time)"""
import json, sys
p = '/verif/known_findings.json'
d = json.load(open(p))
prop, rule, status, construct, what = sys.argv[1:6]
e = {'property': prop, 'rule': rule, 'status': status, 'construct': construct, 'what': what}
if status == 'fixed':
    e['commit'] = sys.argv[6]
elif len(sys.argv) > 6:
    e['why_not_fixed'] = sys.argv[6]
assert not any(x['property'] == prop and x['rule'] == rule and x['construct'] == construct for x in d['findings']), 'entry exists'
d['findings'].append(e)
json.dump(d, open(p, 'w'), indent=1)
print('added', prop, rule, status, construct)
