#!/bin/bash
# usage: tools/mech_suite.sh <transformation>  -- applies a mechanical transformation (sa/selftest_transforms.py) to a scratch worktree
# of /repo HEAD and runs the pinned test suite on it (the transformation has to be behaviour preserving: 637 passed, 7 baseline failures)
set -u
T=$1
WT=/tmp/ev/mech_$T
rm -rf $WT; mkdir -p /tmp/ev
git -C /repo worktree add -q --detach $WT HEAD || exit 9
(cd /verif && python3 -c "
import sys
from sa.selftest_transforms import apply_transform
print('modules changed:', apply_transform('$WT', '$T'))")
(cd $WT && /venv/bin/python -m pytest -q -p no:cacheprovider --timeout=900 2>&1 | tail -1)
(cd $WT && git diff --stat | tail -1)
cd /; git -C /repo worktree remove --force $WT
