#!/bin/bash
# usage: tools/eval_benign.sh <dir with patch.diff [demo.py]>  -- behaviour-preserving change: every check has to stay at exit 0
set -u
SRC="$1"
NAME=$(echo "$SRC" | tr '/' '_')
WT=/tmp/ev/$NAME
rm -rf "$WT"; mkdir -p /tmp/ev
git -C /repo worktree add -q --detach "$WT" HEAD || exit 9
cd "$WT"
if ! git apply "$SRC/patch.diff" 2>/tmp/ev/$NAME.apply; then echo "RESULT $SRC patch-does-not-apply"; cd /; git -C /repo worktree remove --force "$WT"; exit 3; fi
T=$(/venv/bin/python -m pytest -q -p no:cacheprovider --timeout=900 2>&1 | tail -1)
FIRED=""
EV=$(mktemp -d)
for p in C01 C02 C03 C04 C05 C06 C07 C08 C09 C10 C11 C12 C13 C14 C15 C16 C17 C18 C19; do
  (cd /verif && VERIF_REPO="$WT" VERIF_EVIDENCE_DIR="$EV" python3 -m sa.check $p --tier quick > /tmp/ev/$NAME.$p.out 2>&1); c=$?
  if [ $c -eq 1 ]; then FIRED="$FIRED $p"; fi
  if [ $c -eq 2 ]; then FIRED="$FIRED $p(err)"; fi
done
rm -rf "$EV"
cd /; git -C /repo worktree remove --force "$WT"
echo "RESULT $SRC tests='$T' fired=[$FIRED ]"
