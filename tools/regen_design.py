#!/usr/bin/env python3
"""Regenerates the two mechanical lists of DESIGN.md (fix: commits of /repo, table of stored seeds) in place."""
import json, os, subprocess, re
D = '/verif/DESIGN.md'
s = open(D).read()
log = subprocess.check_output(['git', '-C', '/repo', 'log', '--format=%h %s', '--grep', '^fix:']).decode().strip().splitlines()
fixes = '\n'.join('* `%s` — %s' % (l.split(' ', 1)[0], l.split(' ', 1)[1][len('fix: '):] if l.split(' ', 1)[1].startswith('fix: ') else l.split(' ', 1)[1]) for l in log)
a = s.index('was re-run unedited after each:\n\n') + len('was re-run unedited after each:\n\n')
b = s.index('\nFound by the tabulation')
s = s[:a] + fixes + '\n' + s[b:]
rows = []
for name in sorted(os.listdir('/verif/seeded')):
    m = os.path.join('/verif/seeded', name, 'meta.json')
    if os.path.isfile(m):
        d = json.load(open(m))
        rows.append('| %s | %s | %s |' % (name, d['breaks'][:150].replace('|', '/'), ', '.join(d['detected_by'])))
a = s.index('| id | change | reported by |')
b = s.index('`seeded/_superseded/` keeps')
s = s[:a] + '| id | change | reported by |\n|---|---|---|\n' + '\n'.join(rows) + '\n\n' + s[b:]
open(D, 'w').write(s)
print(len(log), 'fix commits,', len(rows), 'seeds')
