#!/bin/bash
# usage: tools/confirm_benign.sh <dir with patch.diff demo.py>  -- demo.py transcript on a clean worktree of /repo HEAD vs with the patch applied (must be identical)
SRC=$1
NAME=$(echo "$SRC" | tr '/' '_')
WT=/tmp/ev/cb_$NAME
rm -rf $WT
git -C /repo worktree add -q --detach $WT HEAD || exit 9
cd $WT
timeout 600 /venv/bin/python $SRC/demo.py > /tmp/ev/$NAME.clean.txt 2>&1; c1=$?
git apply $SRC/patch.diff || { echo "CONFIRM $SRC patch-fails"; cd /; git -C /repo worktree remove --force $WT; exit 3; }
timeout 600 /venv/bin/python $SRC/demo.py > /tmp/ev/$NAME.patched.txt 2>&1; c2=$?
cd /; git -C /repo worktree remove --force $WT
if cmp -s /tmp/ev/$NAME.clean.txt /tmp/ev/$NAME.patched.txt; then same=identical; else same=DIFFERENT; fi
echo "CONFIRM $SRC exit_clean=$c1 exit_patched=$c2 output=$same lines=$(wc -l < /tmp/ev/$NAME.clean.txt)"
