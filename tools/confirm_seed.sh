#!/bin/bash
# usage: tools/confirm_seed.sh <dir with patch.diff demo.py>  -- demonstration 0 -> 1 and the pinned suite on a scratch worktree of /repo HEAD
# (the checks themselves are run on every stored change by `python3 -m sa.selftest --seeded`)
set -u
SRC="$1"
NAME=cs_$(echo "$SRC" | tr '/' '_')
WT=/tmp/ev/$NAME
rm -rf "$WT"; mkdir -p /tmp/ev
git -C /repo worktree add -q --detach "$WT" HEAD || exit 9
cd "$WT"
timeout 900 /venv/bin/python "$SRC/demo.py" >/tmp/ev/$NAME.demo0 2>&1; D0=$?
if ! git apply "$SRC/patch.diff" 2>/tmp/ev/$NAME.apply; then echo "CONFIRM-SEED $SRC patch-does-not-apply"; cd /; git -C /repo worktree remove --force "$WT"; exit 3; fi
timeout 900 /venv/bin/python "$SRC/demo.py" >/tmp/ev/$NAME.demo1 2>&1; D1=$?
T=$(/venv/bin/python -m pytest -q -p no:cacheprovider --timeout=900 2>&1 | tail -1)
cd /; git -C /repo worktree remove --force "$WT"
echo "CONFIRM-SEED $SRC demo_clean=$D0 demo_mutated=$D1 tests='$T'"
