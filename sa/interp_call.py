"""Call handling half of the DSL abstract interpreter (see interp.py)."""
from __future__ import annotations

import ast
import math

from .model import ClassInfo, EnumMember, ExtRef, FuncInfo, ParamsValue
from .interp_expr import SuperV, truth, as_bytes_parts
from .trace import Effect, Inline, New, Op, Opaque, Raise, Risk
from .values import (AttrFieldV, BytesV, ClassV, ComposerV, DictV, FieldV, FuncV, InputV, LambdaV, ListV, ModuleV,
                     ObjV, ParserV, SelfV, Sym, Unknown, ValidatorV, is_const, show)

MUTATORS = {'append', 'insert', 'extend', 'pop', 'remove', 'clear', 'update', 'sort', 'reverse', 'add', 'discard',
            'setdefault', 'popitem', '__setitem__', '__delitem__', '__iadd__'}

PURE_BUILTINS = {'divmod': divmod, 'abs': abs, 'min': min, 'max': max, 'pow': pow, 'round': round}
PARSER_CLASSES = {'ParserBinary': 'binary', 'ParserText': 'text', 'ParserBase': 'binary'}
COMPOSER_CLASSES = {'ComposerBinary': 'binary', 'ComposerText': 'text', 'ComposerBase': 'binary'}


class Raised(Exception):
    """Control signal: the evaluated call never returns (six.raise_from)."""


_EXTERNAL = None


MAX_EPOCH = 253402300799        # 9999-12-31T23:59:59Z


def epoch_bounded(v):
    """is the seconds value handed to datetime.fromtimestamp visibly inside datetime's range: masked with a constant not
    above MAX_EPOCH, the value of a numeric field of at most 4 bytes, or a quotient / remainder of such a value"""
    if isinstance(v, bool):
        return True
    if isinstance(v, int):
        return 0 <= v <= MAX_EPOCH
    if isinstance(v, Sym):
        if v.op == 'and':
            return any(isinstance(a, int) and not isinstance(a, bool) and 0 <= a <= MAX_EPOCH for a in v.args)
        if v.op in ('floordiv', 'mod', 'rshift') and len(v.args) == 2 and isinstance(v.args[1], int) and v.args[1] > 0:
            return epoch_bounded(v.args[0]) or (v.op == 'mod' and v.args[1] <= MAX_EPOCH)
        if v.op == 'phi':
            return all(epoch_bounded(a) for a in v.args)
        if v.op in ('index', 'elem') and v.args:
            return epoch_bounded(v.args[0])
        if v.op == 'call' and len(v.args) >= 2 and v.args[0] == 'struct.unpack' and isinstance(v.args[1], str):
            import struct
            try:
                return struct.calcsize(v.args[1]) <= 4
            except struct.error:
                return False
        if v.op in ('call', 'int') and v.args and v.op == 'int':
            return epoch_bounded(v.args[0])
    if isinstance(v, FieldV) and v.op is not None:
        size = v.op.args.get('size', v.op.args.get('item_size'))
        return isinstance(size, int) and size <= 4
    return False


def external_table():
    global _EXTERNAL
    if _EXTERNAL is None:
        import json
        import os
        with open(os.path.join(os.path.dirname(os.path.abspath(__file__)), 'external.json')) as f:
            _EXTERNAL = json.load(f)
    return _EXTERNAL


_ASCII_CLASS = {}


def text_class_is_ascii(model, k, depth=0):
    """does every piece of text an object parsed by text class ``k`` can hold come out of a ParserText that decodes ASCII?
    all parsers its _parse creates are text parsers with the ascii encoding, and the same holds for the classes it parses
    its items with.  (A str decoded as ASCII can be encoded as ASCII again.)"""
    key = getattr(k, 'qualname', None) or getattr(k, 'name', None)
    if key in _ASCII_CLASS:
        return _ASCII_CLASS[key]
    _ASCII_CLASS[key] = False           # cycles: not decided
    if depth > 4 or not hasattr(k, 'resolve') or k.resolve('_parse') is None or k.resolve('_parse').abstract:
        return False
    from .interp import Interp
    from .trace import Op, walk
    try:
        res = Interp(model).run(k, '_parse')
    except Exception:      # pylint: disable=broad-except
        return False
    ok = bool(res.parsers) and all(p.kind == 'text' and p.encoding == 'ascii' for p in res.parsers)
    if ok:
        for n in walk(res.block):
            if isinstance(n, Op) and n.side == 'parse':
                for name in ('item_class', 'fallback_class', 'parsable_class'):
                    v = n.args.get(name)
                    if isinstance(v, ClassV) and isinstance(v.cls, ClassInfo) and model.is_parsable(v.cls) and v.cls is not k:
                        if not text_class_is_ascii(model, v.cls, depth + 1):
                            ok = False
    _ASCII_CLASS[key] = ok
    return ok


_ASCII_METHOD = {}


def method_returns_ascii_literals(model, name):
    """does every concrete repository method called ``name`` return ASCII string literals (or the code of an enum member) only
    (``get_canonical_name``)?"""
    if name in _ASCII_METHOD:
        return _ASCII_METHOD[name]
    from .astutil import returned
    import ast as _ast
    fs = [f for f in model.functions() if f.name == name and not f.module.external and not f.abstract]
    ok = bool(fs)
    for f in fs:
        rets = returned(f.node)
        def literal(r):
            if isinstance(r, _ast.Constant) and isinstance(r.value, str) and all(ord(ch) < 128 for ch in r.value):
                return True
            # the code of an enum member of the data tables (header field names, registry names: ASCII by their grammar)
            return isinstance(r, _ast.Attribute) and r.attr == 'code' and isinstance(r.value, _ast.Attribute) and r.value.attr == 'value'
        if not rets or not all(literal(r) for r in rets):
            ok = False
    _ASCII_METHOD[name] = ok
    return ok


def ascii_text(v, depth=0, model=None):
    """a str obtained by decoding input bytes as ASCII (or pieces of one): encoding it back cannot fail"""
    if depth > 8:
        return False
    if model is not None and isinstance(v, Sym):
        if v.op == 'parsed' and v.args and isinstance(v.args[0], ClassV) and isinstance(v.args[0].cls, ClassInfo):
            return text_class_is_ascii(model, v.args[0].cls)
        if v.op == 'attr' and v.args:
            return ascii_text(v.args[0], depth + 1, model)        # a field of an object all of whose text is ASCII
        if v.op == 'call' and v.args and isinstance(v.args[0], Sym) and v.args[0].op == 'attr':
            recv, name = v.args[0].args[0], v.args[0].args[1]
            if name in ('pop', 'get', 'keys', 'values', 'items', 'popitem', 'copy') and ascii_text(recv, depth + 1, model):
                return True             # an entry of a mapping held by such an object
            if len(v.args) == 1 and method_returns_ascii_literals(model, name):
                return True
        if v.op in ('index', 'slice', 'elem', 'phi', 'loopacc', 'repeat', 'loopvar') and v.args:
            # alternatives that are certainly not text (None, numbers, enum members, classes, bytes) cannot make an *encoding* fail
            return all(ascii_text(a, depth + 1, model) for a in v.args
                       if not isinstance(a, (int, float, bytes, type(None), EnumMember, ClassV, FuncV, ObjV, tuple, DictV)))
        if v.op == 'join':
            return is_const(v.args[0]) and ascii_text(v.args[1], depth + 1, model)
        if v.op == 'add':
            return all(is_const(a) or ascii_text(a, depth + 1, model) for a in v.args)
    if model is not None and isinstance(v, ListV):
        return all(ascii_text(a, depth + 1, model) for a in v.items)
    if isinstance(v, FieldV):
        p = v.parser
        return p.kind == 'text' and p.encoding == 'ascii' and v.op is not None and \
            v.op.args.get('item_class', None) in (None,) + (ClassV(ExtRef('builtins.str')),) or \
            (p.kind == 'text' and p.encoding == 'ascii' and v.op is not None and 'item_class' not in v.op.args and 'converter' not in v.op.args)
    if isinstance(v, Sym):
        if v.op in ('index', 'slice', 'elem', 'phi', 'loopacc', 'repeat', 'loopvar') and v.args:
            return all(ascii_text(a, depth + 1) for a in v.args if not isinstance(a, (int, type(None))))
        if v.op == 'call' and v.args and isinstance(v.args[0], Sym) and v.args[0].op == 'attr' and \
                v.args[0].args[1] in ('split', 'rsplit', 'partition', 'rpartition', 'splitlines', 'strip', 'lower', 'upper', 'join', 'lstrip', 'rstrip',
                                      'replace', 'title', 'capitalize', 'casefold', 'swapcase', 'zfill', 'removeprefix', 'removesuffix'):
            return ascii_text(v.args[0].args[0], depth + 1) and all(is_const(a) or ascii_text(a, depth + 1) for a in v.args[1:])
        if v.op == 'join':
            return is_const(v.args[0]) and ascii_text(v.args[1], depth + 1)
        if v.op in ('six.ensure_text', 'six.ensure_str') and len(v.args) > 1 and v.args[1] == 'ascii':
            return True
        if v.op == 'add':
            return all(is_const(a) or ascii_text(a, depth + 1) for a in v.args)
    if isinstance(v, ListV):
        return all(ascii_text(a, depth + 1) for a in v.items)
    if isinstance(v, str):
        return all(ord(c) < 128 for c in v)
    return False


def is_numeric_expr(v):
    """certainly a number (so int()/float() cannot raise ValueError)"""
    if isinstance(v, (int, float)) and not isinstance(v, bool):
        return True
    if isinstance(v, FieldV):
        return v.op is not None and v.op.prim in ('parse_numeric', 'parse_mpint', 'parse_ssh_mpint')
    if isinstance(v, Sym):
        if v.op in ('add', 'sub', 'mul', 'div', 'floordiv', 'mod', 'pow', 'and', 'or', 'lshift', 'rshift', 'len', 'plen', 'ulen', 'neg'):
            return True
        if v.op == 'call' and v.args and (v.args[0] in ('math.log', 'time.mktime', 'calendar.timegm') or
                                          isinstance(v.args[0], Sym) and v.args[0].op == 'attr' and
                                          v.args[0].args[1] in ('total_seconds', 'bit_length')):
            return True
        if v.op in ('int', 'float', 'math.log'):
            return True
        if v.op == 'index' and isinstance(v.args[0], Sym) and v.args[0].op == 'call' and v.args[0].args and \
                v.args[0].args[0] == 'struct.unpack':
            return True
        if v.op == 'elem' and isinstance(v.args[0], Sym) and v.args[0].op == 'range':
            return True
    return False


class CallMixin:
    def risk(self, fr, what, excs, operand=None, node=None):
        if not fr.quiet:
            fr.emit(Risk(what, excs, operand, node, fr.func))

    # -- helpers -------------------------------------------------------------------
    def parser_class(self, p):
        return self.model.cls('ParserBinary' if p.kind == 'binary' else 'ParserText')

    def composer_class(self, c):
        return self.model.cls('ComposerBinary' if c.kind == 'binary' else 'ComposerText')

    def recv_class(self, recv):
        if isinstance(recv, ClassV) and isinstance(recv.cls, ClassInfo):
            return recv.cls
        if isinstance(recv, ObjV):
            return recv.cls
        if isinstance(recv, SelfV):
            t = (recv.typ if recv.path else recv.root_cls)
            return t if isinstance(t, ClassInfo) else None
        if isinstance(recv, EnumMember):
            return recv.cls
        return None

    def is_rooted_at_self(self, v):
        if isinstance(v, SelfV):
            return True
        if isinstance(v, Sym) and v.op in ('attr', 'index', 'slice', 'call') and v.args:
            return self.is_rooted_at_self(v.args[0])
        return False

    # -- ast.Call ---------------------------------------------------------------------
    def e_Call(self, node, fr):
        # super(...) needs the syntactic form
        if isinstance(node.func, ast.Name) and node.func.id == 'super':
            recv = fr.recv
            if node.args:
                a0 = self.eval(node.args[0], fr)
                after = a0.cls if isinstance(a0, ClassV) and isinstance(a0.cls, ClassInfo) else fr.defcls
                if len(node.args) > 1:
                    recv = self.eval(node.args[1], fr)
            else:
                after = fr.defcls
            if after is None or recv is None:
                return Unknown('super outside class')
            return SuperV(after, recv)
        fv = self.eval(node.func, fr)
        args = []
        for a in node.args:
            if isinstance(a, ast.Starred):
                v = self.eval(a.value, fr)
                items = self.iter_items(v)
                if items is None:
                    args.append(Sym('star', v))
                else:
                    args.extend(items)
            else:
                args.append(self.eval(a, fr))
        kwargs = {}
        star = []
        for k in node.keywords:
            if k.arg is None:
                star.append(self.eval(k.value, fr))
            else:
                kwargs[k.arg] = self.eval(k.value, fr)
        # f(**{complete mapping with text keys}) is f(key=value, ...)
        rest = []
        for m in star:
            if isinstance(m, DictV) and m.complete and not m.star and m.pairs and all(isinstance(k, str) for k, _ in m.pairs):
                for k, v in m.pairs:
                    kwargs.setdefault(k, v)
            else:
                rest.append(m)
        star = rest
        return self.call_v(fv, args, kwargs, fr, node, star)

    def call_v(self, fv, args, kwargs, fr, node=None, star=()):
        if isinstance(fv, FuncV):
            if isinstance(fv.func, FuncInfo):
                recv = fv.recv
                if isinstance(recv, ClassV) and args and isinstance(args[0], (ParserV, ComposerV)) and getattr(fv.func, 'kind', None) not in ('staticmethod', 'classmethod'):
                    # ``ComposerBinary.compose_numeric(composer, value, size)``: the method taken from the class (a row of a field
                    # table) and called with the instance as first argument is the bound call
                    fv = FuncV(fv.func, recv=args[0], defcls=fv.defcls)
                    args = list(args[1:])
                    recv = fv.recv
                if isinstance(recv, Sym) and recv.op == 'phi' and len(recv.args) > 1 and all(isinstance(a, ParserV) for a in recv.args):
                    # the same primitive on whichever parser the earlier branch left behind
                    res = [self.call_v(FuncV(fv.func, recv=a, defcls=fv.defcls), args, kwargs, fr, node, star) for a in recv.args]
                    return None if all(r is None for r in res) else Sym('phi', *res)
                if isinstance(recv, (ParserV, ComposerV)) and not fv.func.name.startswith('_') \
                        and (fv.func.name.startswith('parse_') or fv.func.name.startswith('compose_')):
                    if self.deep and fr.depth < self.max_depth + 4:
                        # record the primitive (keys, layout) and also interpret its body for escape analysis
                        self.primitive(recv, fv.func, args, kwargs, fr, node)
                        sub = fr.child_env()
                        sub.env = dict(fr.env)
                        sub.depth = min(fr.depth, self.max_depth - 6)
                        sub.block = fr.block
                        sub.returns = []
                        sub.in_primitive = True
                        self.call_function(fv.func, recv, args, kwargs, sub, node, star)
                        return None
                    return self.primitive(recv, fv.func, args, kwargs, fr, node)
                return self.call_function(fv.func, recv, args, kwargs, fr, node, star)
            if isinstance(fv.func, ExtRef) and fv.func.dotted == 'attrs.__init__':
                # super().__init__(...) reaching the attrs synthesised initialiser
                self.attrs_init(fv.recv, fv.defcls, args, kwargs, fr, node)
                return None
            return None
        if isinstance(fv, ClassV):
            if isinstance(fv.cls, ClassInfo):
                return self.construct(fv.cls, args, kwargs, fr, node, star)
            return self.call_ext(fv.cls.dotted, args, kwargs, fr, node)
        if isinstance(fv, LambdaV):
            sub = self.new_frame(None, fv.module, recv=fr.recv, defcls=fr.defcls, parent=fr)
            sub.env = dict(fv.env)
            for p, a in zip([x.arg for x in fv.node.args.args], args):
                sub.env[p] = a
            return self.eval(fv.node.body, sub)
        if isinstance(fv, Sym) and fv.op == 'attr':
            base, name = fv.args
            return self.method_on_value(base, name, args, kwargs, fr, node)
        if isinstance(fv, SelfV) and fv.path:
            # a method of an attribute whose class is not statically known
            base = SelfV(fv.path[:-1], None, fv.root_cls)
            return self.method_on_value(base, fv.path[-1], args, kwargs, fr, node)
        if isinstance(fv, Sym) and fv.op == 'dispatch':
            return self.call_dispatch(fv.args[0], fv.args[1], args, kwargs, fr, node, star)
        if isinstance(fv, Sym) and fv.op == 'param':
            self.risk(fr, 'callparam', (), fv.args[0], node)
        if isinstance(fv, (FieldV,)) or (isinstance(fv, Sym) and fv.op in ('phi',)):
            self.risk(fr, 'callunknown', (), fv, node)
        return Sym('call', fv, *args)

    def call_dispatch(self, table, key, args, kwargs, fr, node, star):
        """``table.get(key)(...)`` over a complete table of functions: one alternative per distinct function, in table order,
        selected by ``key in (<its keys>)`` - the trace an if / elif chain over the same keys produces"""
        from .trace import Alt
        groups = []
        for k, f in table.pairs:
            for g in groups:
                if g[0].func is f.func:
                    g[1].append(k)
                    break
            else:
                groups.append((f, [k]))

        def chain(i, frame):
            f, keys = groups[i]
            if i == len(groups) - 1:
                return self.call_v(f, args, kwargs, frame, node, star)
            cond = Sym('cmp', 'in', key, tuple(keys)) if len(keys) > 1 else Sym('cmp', '==', key, keys[0])
            alt = Alt(cond, [], [], node)
            frame.emit(alt)
            a, b = self.fork(frame, alt.then), self.fork(frame, alt.orelse)
            a.cond_depth += 1
            b.cond_depth += 1
            ra = self.call_v(f, args, kwargs, a, node, star)
            rb = chain(i + 1, b)
            alt.then_status = alt.else_status = 'next'
            from .interp import merge_values
            return merge_values([ra, rb])
        return chain(0, fr)

    def method_on_value(self, base, name, args, kwargs, fr, node):
        # local containers
        if isinstance(base, ListV):
            if name == 'append' and len(args) == 1:
                base.items.append(args[0])
                if fr.in_loop > getattr(fr, 'unrolled', 0):
                    base.complete = False
                return None
            if name == 'insert' and len(args) == 2 and isinstance(args[0], int) and not isinstance(args[0], bool) and base.complete and \
                    -len(base.items) <= args[0] <= len(base.items) and not (fr.in_loop > getattr(fr, 'unrolled', 0)):
                base.items.insert(args[0], args[1])         # a constant position in a list spelled out so far: the list it gives
                return None
            if name == 'insert' and len(args) == 2:
                if args[0] == 0:
                    base.items.insert(0, args[1])
                else:
                    base.items.append(args[1])
                base.complete = False if fr.in_loop or args[0] != 0 else base.complete
                return None
            if name == 'extend' and len(args) == 1:
                items = self.iter_items(args[0])
                if items is None:
                    base.items.append(Sym('splat', args[0]))
                    base.complete = False
                else:
                    base.items.extend(items)
                return None
            if name in ('sort', 'reverse'):
                return None
            return Sym('call', Sym('attr', base, name), *args)
        if isinstance(base, DictV):
            if name == 'items':
                if base.complete and not base.star:
                    return ListV([(k, v) for k, v in base.pairs])
                return Sym('call', Sym('attr', base, name))
            if name == 'keys' and base.complete and not base.star:
                return ListV([k for k, _ in base.pairs])
            if name == 'values' and base.complete and not base.star:
                return ListV([v for _, v in base.pairs])
            if name == 'get' and args:
                v = base.get(args[0])
                if v is not None:
                    return v
                if base.complete and not base.star and is_const(args[0]):
                    return args[1] if len(args) > 1 else None
                if base.complete and not base.star and base.pairs and all(isinstance(x, FuncV) for _, x in base.pairs):
                    # a dispatch table of functions looked up with a run-time key: called below like the if / elif chain it replaces
                    return Sym('dispatch', base, args[0])
                return Sym('call', Sym('attr', base, name), *args)
            if name == 'update' and len(args) == 1:
                src = args[0]
                pairs = None
                if isinstance(src, DictV) and src.complete and not src.star:
                    pairs = src.pairs
                elif isinstance(src, ListV) and src.complete and all(isinstance(x, tuple) and len(x) == 2 for x in src.items):
                    pairs = src.items
                if pairs is None:
                    base.complete = False
                    base.star.append(src)
                else:
                    for k, v in pairs:
                        base.set(k, v)
                return None
            if name == 'pop' and args:
                v = base.get(args[0])
                base.pairs = [(k, x) for k, x in base.pairs if k != args[0]]
                return v if v is not None else Sym('call', Sym('attr', base, name), *args)
            return Sym('call', Sym('attr', base, name), *args)
        if is_const(base) and isinstance(base, (str, bytes)) and all(is_const(a) for a in args) and not kwargs:
            if name in ('lower', 'upper', 'encode', 'decode', 'strip', 'lstrip', 'rstrip', 'startswith', 'endswith',
                        'join', 'zfill', 'title', 'replace', 'split', 'format'):
                try:
                    r = getattr(base, name)(*args)
                    return ListV(r) if isinstance(r, list) else r
                except Exception:      # pylint: disable=broad-except
                    pass
        if name == 'join' and len(args) == 1 and isinstance(args[0], ListV) and len(args[0].items) == 1 and \
                isinstance(args[0].items[0], Sym) and args[0].items[0].op == 'comp' and not args[0].items[0].args[2] and \
                ((is_const(base) and isinstance(base, (bytes, bytearray)) and len(base) == 0) or (isinstance(base, BytesV) and not base.parts)):
            # b''.join(f(x) for x in xs): the same bytes as the loop ``out += f(x)`` builds - one repetition of the element's parts
            comp = args[0].items[0]
            from .trace import Loop
            return BytesV([('repeat', Loop('for', comp.args[1], None, [], node), as_bytes_parts(comp.args[0]))])
        if is_const(base) and isinstance(base, (str, bytes)) and name == 'join' and len(args) == 1 \
                and isinstance(args[0], ListV):
            return Sym('join', base, args[0])
        if isinstance(base, ParamsValue) and isinstance(base.params_class, ClassInfo):
            f = base.params_class.resolve(name)
            if f is not None:
                return self.call_function(f, ClassV(base.params_class), args, kwargs, fr, node)
        if not is_const(base):
            lenient = (len(args) > 1 and args[1] in ('replace', 'ignore')) or kwargs.get('errors') in ('replace', 'ignore')
            if name == 'decode' and lenient:
                pass
            elif name == 'decode':
                self.risk(fr, 'decode', ('builtins.UnicodeDecodeError',), base, node)
            elif name == 'encode':
                if not ascii_text(base, 0, self.model):
                    self.risk(fr, 'encode', ('builtins.UnicodeEncodeError',), base, node)
            else:
                ex = external_table()['methods'].get(name)
                if ex and not isinstance(base, (ListV, DictV)):
                    self.risk(fr, 'ext:.%s' % name, tuple(ex), base, node)
        # mutation of something reachable from self
        if name in MUTATORS and self.is_rooted_at_self(base):
            fr.emit(Effect('mutcall', base, (name,) + tuple(args), node, fr.func))
        return Sym('call', Sym('attr', base, name), *args, *[('kw', k, v) for k, v in kwargs.items()])

    # -- calling repository functions ------------------------------------------------------
    def bind_params(self, func, recv, args, kwargs, fr, star=()):
        a = func.node.args
        names = [x.arg for x in a.posonlyargs + a.args]
        env = {}
        if func.kind in ('method', 'classmethod') and func.cls is not None and names:
            first = names[0]
            names = names[1:]
            if func.kind == 'classmethod':
                rc = self.recv_class(recv)
                env[first] = ClassV(rc) if rc is not None else (recv if recv is not None else Unknown('cls'))
            else:
                env[first] = recv if recv is not None else Unknown('self')
        defaults = a.defaults
        dmap = {}
        all_names = [x.arg for x in a.posonlyargs + a.args]
        for n, d in zip(all_names[len(all_names) - len(defaults):], defaults):
            dmap[n] = d
        for n, d in zip([x.arg for x in a.kwonlyargs], a.kw_defaults):
            if d is not None:
                dmap[n] = d
        names = names + [x.arg for x in a.kwonlyargs]
        args = list(args)
        for n in names:
            if args and n not in [x.arg for x in a.kwonlyargs]:
                env[n] = args.pop(0)
            elif n in kwargs:
                env[n] = kwargs[n]
            elif n in dmap:
                dfr = self.new_frame(None, func.module, recv=ClassV(func.cls) if func.cls else None, defcls=func.cls)
                dfr.quiet = True
                env[n] = self.eval(dmap[n], dfr)
            else:
                got = None
                for s in star:
                    if isinstance(s, DictV) and s.get(n) is not None:
                        got = s.get(n)
                env[n] = got if got is not None else Unknown('missing arg %s' % n)
        if a.vararg:
            env[a.vararg.arg] = tuple(args)
        if a.kwarg:
            env[a.kwarg.arg] = DictV([(k, v) for k, v in kwargs.items() if k not in names])
        return env

    def call_function(self, func, recv, args, kwargs, fr, node=None, star=()):
        if func.cls is not None and func.cls.name == 'ParsableBaseNoABC' and \
                func.name in ('parse_immutable', 'parse_exact_size', 'parse_mutable'):
            rc = self.recv_class(recv)
            op = Op(None, 'parse', func.name, {'cls': ClassV(rc) if rc is not None else recv,
                                               'parsable': args[0] if args else kwargs.get('parsable')},
                    None, node, fr.func)
            fr.emit(op)
            obj = Sym('parsed', ClassV(rc) if rc is not None else recv, op.args['parsable'])
            if func.name == 'parse_immutable':
                return (obj, Sym('parsedlen', ClassV(rc) if rc is not None else recv, op.args['parsable']))
            return obj
        if func.name == 'compose' and not args and self.foreign_receiver(recv, fr):
            return BytesV([('nested', recv)])
        if func.module.external and not (func.kind == 'classmethod' and not args and not kwargs):
            # the dependency is consulted for constants only, never interpreted as DSL code
            mex = external_table()['methods'].get(func.name)
            only = external_table().get('when_first_argument_is', {}).get(func.name)
            if mex and only and not (args and (show(args[0]).startswith(only + '(') or (only + '.') in show(args[0])[:80])):
                mex = None      # the documented error belongs to one kind of argument (see external.json notes)
            if mex:
                self.risk(fr, 'ext:' + func.qualname, tuple(mex), args[0] if args else recv, node)
            return Sym('extcall', func.qualname, recv if recv is not None else None, *args)
        if fr.depth >= self.max_depth:
            return Unknown('inline depth')
        key = (func.construct, getattr(self.recv_class(recv), 'qualname', None))
        if key in fr.stack:
            return Unknown('recursion %s' % func.qualname)
        if func.abstract and self.body_only_raises(func):
            fr.emit(Opaque('call of abstract %s' % func.qualname, node, fr.func))
            return Unknown('abstract %s' % func.qualname)
        sub = self.new_frame(func, func.module, recv=recv if func.kind != 'staticmethod' else None,
                             defcls=func.cls, parent=fr)
        sub.env = self.bind_params(func, recv, args, kwargs, fr, star)
        sub.stack = fr.stack | {key}
        inl = Inline(func, self.recv_class(recv), node)
        sub.block = inl.body
        sub.cond_depth = fr.cond_depth
        fr.emit(inl)
        if func.kind == 'classmethod':
            rc = self.recv_class(recv)
            sub.recv = ClassV(rc) if rc is not None else recv
        if self.is_generator(func):
            sub.yields = []
        status = self.exec_body(func.node.body, sub)
        if sub.yields is not None:
            return ListV(sub.yields, sub.yields_complete)
        if status == 'raise' and not sub.returns and not func.abstract:
            # a helper that raises on every path (``cls._raise_decoder_error(parsable, e)``): the call does not return, the statement
            # that holds it ends the path like the ``raise`` it stands for
            raise Raised()
        if getattr(sub, 'returned_nonempty', None) and len(sub.returns) == 1:
            # a list the callee knows to hold an element at its only return is known to hold one in the caller
            fr.nonempty |= sub.returned_nonempty
        return sub.result()

    @staticmethod
    def foreign_receiver(recv, fr):
        """``x.compose()`` on an object other than the one being interpreted."""
        if isinstance(recv, SelfV):
            return bool(recv.path)
        if isinstance(recv, (ObjV, EnumMember)):
            return True
        return False

    @staticmethod
    def is_generator(func):
        for n in ast.walk(func.node):
            if isinstance(n, (ast.Yield, ast.YieldFrom)):
                return True
        return False

    @staticmethod
    def body_only_raises(func):
        body = [s for s in func.node.body if not (isinstance(s, ast.Expr) and isinstance(s.value, ast.Constant))]
        return len(body) == 1 and isinstance(body[0], ast.Raise)

    # -- object construction ----------------------------------------------------------------
    def construct(self, cinfo, args, kwargs, fr, node, star=()):
        name = cinfo.name
        if name in PARSER_CLASSES and not cinfo.external:
            over = args[0] if args else kwargs.get('parsable', Unknown('parser input'))
            kind = PARSER_CLASSES[name]
            if kind == 'binary':
                order = args[1] if len(args) > 1 else kwargs.get('byte_order')
                if order is None:
                    order = self.default_byte_order()
            else:
                order = None
            self._pid += 1
            p = ParserV(self._pid, kind, over, order, node)
            if kind == 'text':
                enc = args[1] if len(args) > 1 else kwargs.get('encoding', 'ascii')
                p.encoding = enc
            fr.emit(New(p, node))
            self.parsers.append(p)
            return p
        if name in COMPOSER_CLASSES and not cinfo.external:
            kind = COMPOSER_CLASSES[name]
            if kind == 'binary':
                order = args[0] if args else kwargs.get('byte_order')
                if order is None:
                    order = self.default_byte_order()
            else:
                order = None
            self._pid += 1
            c = ComposerV(self._pid, kind, order, node)
            if kind == 'text':
                c.encoding = args[0] if args else kwargs.get('encoding', 'ascii')
            fr.emit(New(c, node))
            self.composers.append(c)
            return c
        if cinfo.enum_members is not None and len(args) == 1 and not kwargs:
            v = args[0]
            if isinstance(v, EnumMember) and v.cls is cinfo:
                return v
            if is_const(v):
                for m in self.enum_iter(cinfo):
                    if self.enum_value(m) == v:
                        return m
            self.risk(fr, 'enumconv', ('builtins.ValueError',), v, node)
            return Sym('enumconv', ClassV(cinfo), v)
        obj = ObjV(cinfo, {}, None, node)
        obj.star = list(star)
        init = cinfo.resolve('__init__')
        if init is not None and not cinfo.external and self.run_inits(cinfo):
            sub_recv = obj
            obj.ctor_args = self.bind_params(init, obj, args, kwargs, fr, star)
            obj.ctor_args.pop(init.params[0], None)
            self.call_function(init, sub_recv, args, kwargs, fr, node, star)
            return obj
        if init is not None:
            env = self.bind_params(init, obj, args, kwargs, fr, star)
            env.pop(init.params[0], None)
            obj.ctor_args = env
            obj.explicit_init = init
            return obj
        if cinfo.has_attrs():
            self.attrs_init(obj, cinfo, args, kwargs, fr, node, star)
            return obj
        obj.ctor_args = {'args': tuple(args), **kwargs}
        return obj

    def run_inits(self, cinfo):
        """Run __init__/__attrs_post_init__ bodies only for helper objects (params, converters),
        not for parsable message classes (their constructors are validated, not interpreted)."""
        return not self.model.is_parsable(cinfo) and not cinfo.is_subclass_of('builtins.Exception') \
            and not cinfo.is_subclass_of('Exception')

    def attrs_init(self, obj, cinfo, args, kwargs, fr, node, star=()):
        fields = [f for f in cinfo.attrs_fields() if f.init]
        bound = {}
        args = list(args)
        for f in fields:
            pname = f.ctor_name
            if args:
                bound[f.name] = args.pop(0)
            elif pname in kwargs:
                bound[f.name] = kwargs[pname]
        if isinstance(obj, ObjV):
            if obj.ctor_args is None:
                obj.ctor_args = {}
            obj.ctor_args.update(bound)
            obj.extra_args = args
            if not self.run_inits(obj.cls):
                obj.attrs.update(bound)
                return
            for f in cinfo.attrs_fields():
                if f.name in bound:
                    obj.attrs[f.name] = bound[f.name]
                elif f.default_node is not None:
                    sub = self.new_frame(None, f.owner.module, recv=ClassV(f.owner), defcls=f.owner)
                    sub.quiet = True
                    obj.attrs[f.name] = self.eval(f.default_node, sub)
                elif not f.init:
                    obj.attrs[f.name] = Unknown('init=False field')
            post = obj.cls.resolve('__attrs_post_init__')
            if post is not None:
                self.call_function(post, obj, [], {}, fr, node)

    def default_byte_order(self):
        bo = self.model.cls('ByteOrder')
        return EnumMember(bo, 'NETWORK') if bo.enum_members and 'NETWORK' in bo.enum_members else Unknown('byte order')

    # -- DSL primitives -------------------------------------------------------------------
    def primitive(self, target, func, args, kwargs, fr, node):
        env = self.bind_params(func, target, args, kwargs, fr)
        env.pop(func.params[0], None)
        side = 'parse' if isinstance(target, ParserV) else 'compose'
        key = None
        if side == 'parse' and len(func.params) > 1 and func.params[1] == 'name':
            key = env.get('name')
        if side == 'parse' and func.name == 'parse_numeric_array' and getattr(target, 'kind', None) == 'binary' and isinstance(key, str) and \
                isinstance(env.get('item_num'), int) and not isinstance(env.get('item_num'), bool) and 2 <= env['item_num'] <= 8 and \
                isinstance(env.get('item_size'), int) and not fr.in_loop:
            # ``parse_numeric_array('a_and_b', 2, 1)`` with the count spelled out is ``parse_numeric('a_and_b[0]', 1); parse_numeric('a_and_b[1]', 1)``:
            # the value under the name is the list of the two fields, so that ``a, b = parser['a_and_b']`` binds each to its own field
            fields = []
            for i in range(env['item_num']):
                k_i = '%s[%d]' % (key, i)
                env_i = {'name': k_i, 'size': env['item_size'], 'converter': env.get('converter')}
                op_i = Op(target, side, 'parse_numeric', env_i, k_i, node, fr.func)
                op_i.in_block = fr.block
                op_i.index = len(target.ops)
                target.ops.append(op_i)
                fr.emit(op_i)
                fields.append(FieldV(target, k_i, op_i))
            target.keys[key] = ListV(fields, True)
            target.deleted.discard(key)
            if fr.cond_depth:
                target.maybe.add(key)
            else:
                target.maybe.discard(key)
            return None
        op = Op(target, side, func.name, env, key if isinstance(key, str) else None, node, fr.func)
        op.in_block = fr.block
        op.index = len(target.ops)
        target.ops.append(op)
        fr.emit(op)
        if side == 'parse' and key is not None:
            if isinstance(key, str):
                target.keys[key] = FieldV(target, key, op)
                target.deleted.discard(key)
                if fr.cond_depth:
                    target.maybe.add(key)
                else:
                    target.maybe.discard(key)
            else:
                op.dynamic_key = key
        return None

    # -- external callables ---------------------------------------------------------------
    def call_ext(self, d, args, kwargs, fr, node):
        d = d.replace('builtins.', '')
        a0 = args[0] if args else None
        if d in PURE_BUILTINS and args and not kwargs and all(isinstance(a, (int, float)) and not isinstance(a, bool) for a in args):
            try:
                return PURE_BUILTINS[d](*args)      # arithmetic builtins on constants fold like the operators do
            except Exception:      # pylint: disable=broad-except
                pass
        if d == 'len' and len(args) == 1:
            if is_const(a0) and a0 is not None:
                try:
                    return len(a0)
                except TypeError:
                    pass
            if isinstance(a0, ListV) and a0.complete:
                return len(a0.items)
            if isinstance(a0, DictV) and a0.complete and not a0.star:
                return len(a0.pairs)
            return Sym('len', a0)
        if d in ('int', 'float') and args and not is_const(a0) and not is_numeric_expr(a0):
            self.risk(fr, 'int', ('builtins.ValueError',), a0, node)
        if d == 'next' and len(args) == 1:      # next(it, default) returns the default instead of raising
            self.risk(fr, 'next', ('builtins.StopIteration',), a0, node)
        if d in ('int', 'float', 'str', 'bool', 'bytes', 'ord', 'chr', 'abs') and len(args) <= 2:
            if args and all(is_const(a) for a in args) and not kwargs:
                try:
                    return {'int': int, 'float': float, 'str': str, 'bool': bool, 'bytes': bytes, 'ord': ord,
                            'chr': chr, 'abs': abs}[d](*args)
                except Exception:      # pylint: disable=broad-except
                    pass
            if not args:
                return {'int': 0, 'float': 0.0, 'str': '', 'bool': False, 'bytes': b''}.get(d, Sym('call', d))
            if d == 'bool':
                t = truth(a0)
                if t is not None:
                    return t
            if d in ('bytes',) and isinstance(a0, BytesV):
                return a0
            return Sym(d, *args)
        if d == 'bytearray':
            if not args:
                return BytesV([])
            if isinstance(a0, BytesV):
                return a0
            if is_const(a0) and isinstance(a0, bytes):
                return a0
            if isinstance(a0, ListV) and a0.complete and not a0.items:
                return BytesV([])
            return Sym('bytearray', *args)
        if d == 'isinstance' and len(args) == 2:
            return self.isinstance_v(args[0], args[1])
        if d == 'issubclass' and len(args) == 2:
            return self.issubclass_v(args[0], args[1])
        if d in ('list', 'tuple') and len(args) <= 1:
            if not args:
                return ListV([]) if d == 'list' else ()
            items = self.iter_items(a0)
            if items is not None:
                return ListV(items) if d == 'list' else tuple(items)
            if isinstance(a0, ListV):
                return ListV(a0.items, False)
            return Sym(d, a0)
        if d in ('dict', 'collections.OrderedDict', 'OrderedDict'):
            out = DictV()
            if args:
                if isinstance(a0, ParserV):
                    out.star.append(a0)
                    out.complete = False
                elif isinstance(a0, DictV):
                    out.pairs = list(a0.pairs)
                    out.star = list(a0.star)
                    out.complete = a0.complete
                elif isinstance(a0, ListV) and a0.complete and all(isinstance(x, tuple) and len(x) == 2 for x in a0.items):
                    out.pairs = list(a0.items)
                else:
                    out.star.append(a0)
                    out.complete = False
            for k, v in kwargs.items():
                out.set(k, v)
            return out
        if d == 'set':
            return Sym('set', *args)
        if d == 'range':
            if args and all(isinstance(a, int) for a in args) and len(range(*args)) <= 64:
                return ListV(list(range(*args)))
            return Sym('range', *args)
        if d in ('min', 'max') and args and all(is_const(a) for a in args) and len(args) > 1:
            return (min if d == 'min' else max)(*args)
        if d == 'math.log' and args and all(isinstance(a, (int, float)) for a in args):
            try:
                return math.log(*args)
            except ValueError:
                return Sym('math.log', *args)
        if d == 'getattr' and len(args) >= 2 and isinstance(args[1], str):
            return self.getattr_v(args[0], args[1], fr, node)
        if d == 'getattr' and len(args) >= 2:
            return Sym('getattr', *args)
        if d == 'type' and len(args) == 1:
            rc = self.recv_class(a0)
            if isinstance(a0, (ObjV, SelfV)) and rc is not None:
                return ClassV(rc)
            return Sym('type', a0)
        if d in ('sorted', 'reversed', 'enumerate', 'zip', 'map', 'filter', 'iter', 'next', 'any', 'all', 'sum',
                 'hasattr', 'id', 'repr', 'hash', 'print', 'divmod', 'round'):
            if d == 'reversed' and isinstance(a0, ListV) and a0.complete:
                return ListV(list(reversed(a0.items)))
            if d == 'enumerate' and len(args) == 1:
                items = self.iter_items(a0)
                if items is not None:
                    return ListV([(i, x) for i, x in enumerate(items)])
            return Sym(d, *args)
        if d in ('attr.fields',) and isinstance(a0, ClassV) and isinstance(a0.cls, ClassInfo):
            return ListV([AttrFieldV(f, a0.cls) for f in a0.cls.attrs_fields()])
        if d in ('attr.fields_dict',) and isinstance(a0, ClassV) and isinstance(a0.cls, ClassInfo):
            return DictV([(f.name, AttrFieldV(f, a0.cls)) for f in a0.cls.attrs_fields()])
        if d == 'attr.has' and isinstance(a0, ClassV) and isinstance(a0.cls, ClassInfo):
            return a0.cls.has_attrs()
        if d == 'attr.validate':
            return None
        if d.startswith('attr.validators.'):
            kind = d.split('.')[-1]
            if kind == 'instance_of':
                return ValidatorV('instance_of', a0, None, node)
            if kind == 'optional':
                return ValidatorV('optional', None, a0, node)
            if kind == 'in_':
                return ValidatorV('in_', a0, None, node)
            if kind == 'deep_iterable':
                return ValidatorV('deep_iterable', None, kwargs.get('member_validator', a0), node)
            return ValidatorV(kind, a0, None, node)
        if d == 'attr.Factory':
            return Sym('attr.Factory', *args)
        if d == 'six.raise_from':
            exc = a0
            cause = args[1] if len(args) > 1 else None
            self.emit_raise(exc, fr, node, cause)
            raise Raised()
        lenient = (len(args) > 2 and args[2] in ('replace', 'ignore')) or kwargs.get('errors') in ('replace', 'ignore')
        if d in ('six.ensure_text', 'six.ensure_str') and args and not is_const(a0) and not lenient:
            enc = args[1] if len(args) > 1 else kwargs.get('encoding', 'utf-8')
            self.risk(fr, 'decode', ('builtins.UnicodeError',) if enc == 'idna' else ('builtins.UnicodeDecodeError',), a0, node)
        if d == 'six.ensure_binary' and args and not is_const(a0) and not ascii_text(a0, 0, self.model):
            enc = args[1] if len(args) > 1 else kwargs.get('encoding', 'utf-8')
            self.risk(fr, 'encode', ('builtins.UnicodeError',) if enc == 'idna' else ('builtins.UnicodeEncodeError',), a0, node)
        if d in ('six.ensure_text', 'six.ensure_binary', 'six.ensure_str', 'six.text_type', 'six.u', 'six.b'):
            if all(is_const(a) for a in args) and args:
                try:
                    if d == 'six.ensure_binary':
                        return a0 if isinstance(a0, bytes) else a0.encode(*(args[1:] or ['utf-8']))
                    if d in ('six.ensure_text', 'six.ensure_str'):
                        return a0 if isinstance(a0, str) else a0.decode(*(args[1:] or ['utf-8']))
                    if d in ('six.text_type', 'six.u'):
                        return str(a0)
                except Exception:      # pylint: disable=broad-except
                    pass
            return Sym(d, *args)
        if d == 'six.int2byte' and isinstance(a0, int) and 0 <= a0 < 256:
            return bytes([a0])
        if d == 'bytearray.fromhex' or d == 'bytes.fromhex':
            return Sym(d, *args)
        ex = external_table()['raises'].get(d)
        if d in ('datetime.datetime.fromtimestamp', 'datetime.datetime.utcfromtimestamp') and args and not is_const(a0):
            # datetime covers years 1..9999: a wire value is inside that range only when it is visibly bounded
            if not epoch_bounded(a0):
                ex = ['builtins.ValueError', 'builtins.OverflowError', 'builtins.OSError']
        if d == 'six.indexbytes' and len(args) == 2 and ('#index %s of %s' % (show(args[1]), show(a0))) in fr.nonempty:
            ex = None           # an enclosing ``offset < len(buffer)`` (if / and) established that the octet exists
        if d == 'six.indexbytes' and len(args) == 2 and ex and self.cursor_before_a_read(a0, args[1], fr):
            ex = None           # the cursor as it stood before a read of the same buffer that has succeeded since: that octet was read
        if ex and not all(is_const(a) for a in args):
            self.risk(fr, 'ext:' + d, tuple(ex), a0, node)
        if d.split('.')[-1] in external_table()['methods'] and '.' in d and ex is None:
            mex = external_table()['methods'][d.split('.')[-1]]
            only = external_table().get('when_first_argument_is', {}).get(d.split('.')[-1])
            if mex and only and not (args and show(a0).startswith(only + '(')):
                mex = None
            if mex and not all(is_const(a) for a in args):
                self.risk(fr, 'ext:' + d, tuple(mex), a0, node)
        return Sym('call', d, *args, *[('kw', k, v) for k, v in kwargs.items()])

    @staticmethod
    def cursor_before_a_read(buf, idx, fr):
        """``idx`` is ``parser.parsed_length`` taken when the parser (constructed over ``buf``) had performed n operations, and it
        has completed a further read primitive since: every primitive that returns has consumed what it read, and the reads of
        at least one octet (numeric, length prefixed string / bytes) start at that cursor"""
        if not (isinstance(idx, Sym) and idx.op == 'plen' and isinstance(idx.args[0], ParserV)):
            return False
        p, n = idx.args[0], idx.args[1]
        if p.over is not buf and show(p.over) != show(buf):
            return False
        later = p.ops[n:]
        if not later:
            return False
        first = later[0]
        sized = first.prim in ('parse_numeric', 'parse_string', 'parse_bytes', 'parse_numeric_array', 'parse_numeric_flags', 'parse_timestamp')
        # the read and this use are statements of the same block: the read has completed whenever the use is reached
        return sized and getattr(first, 'in_block', None) is fr.block

    def isinstance_v(self, v, t):
        types = t if isinstance(t, tuple) else (t,)
        flat = []
        for x in types:
            if isinstance(x, tuple):
                flat.extend(x)
            elif isinstance(x, ClassV) and isinstance(x.cls, ExtRef) and x.cls.dotted in ('six.string_types',):
                flat.append(ClassV(ExtRef('builtins.str')))
            elif isinstance(x, ClassV) and isinstance(x.cls, ExtRef) and x.cls.dotted in ('six.integer_types',):
                flat.append(ClassV(ExtRef('builtins.int')))
            elif isinstance(x, ClassV) and isinstance(x.cls, ExtRef) and x.cls.dotted in ('six.binary_type',):
                flat.append(ClassV(ExtRef('builtins.bytes')))
            else:
                flat.append(x)
        results = []
        for x in flat:
            results.append(self._isinstance1(v, x))
        if any(r is True for r in results):
            return True
        if all(r is False for r in results):
            return False
        return Sym('isinstance', v, t)

    def _isinstance1(self, v, t):
        if not isinstance(t, ClassV):
            return None
        tc = t.cls
        tname = tc.dotted.replace('builtins.', '') if isinstance(tc, ExtRef) else None
        if isinstance(v, ClassV):
            if tname == 'type':
                return True
            if isinstance(tc, ClassInfo) or tname in ('str', 'int', 'bytes', 'bytearray', 'list', 'dict', 'tuple'):
                return False
            return None
        if isinstance(v, tuple):
            return tname == 'tuple'
        if isinstance(v, (FuncV, LambdaV)):
            if tname in ('type', 'str', 'int', 'bytes', 'tuple', 'list', 'dict') or isinstance(tc, ClassInfo):
                return False
            if tname == 'types.FunctionType':
                return True
            return None
        if is_const(v):
            pytypes = {'str': str, 'int': int, 'bytes': bytes, 'bool': bool, 'float': float, 'tuple': tuple}
            if tname in pytypes:
                return isinstance(v, pytypes[tname])
            if isinstance(tc, ClassInfo) or tname in ('type', 'list', 'dict', 'bytearray'):
                return False
            return None
        vc = None
        if isinstance(v, ObjV):
            vc = v.cls
        elif isinstance(v, EnumMember):
            vc = v.cls
        elif isinstance(v, SelfV):
            vc = v.typ if v.path else v.root_cls
            if isinstance(vc, tuple) and vc and vc[0] == 'union' and isinstance(tc, ClassInfo):
                rs = [m.is_subclass_of(tc) for m in vc[1]]
                return True if all(rs) else None
            if not isinstance(vc, ClassInfo):
                return None
            if vc is not None and isinstance(tc, ClassInfo):
                # declared type is an upper bound only: a positive answer is certain, a negative one is not
                return True if vc.is_subclass_of(tc) else None
            return None
        if vc is not None:
            if isinstance(tc, ClassInfo):
                return vc.is_subclass_of(tc)
            if tname in ('enum.Enum', 'enum.IntEnum'):
                return vc.is_subclass_of(tc)
            if tname in ('str', 'bytes', 'type', 'list', 'dict', 'tuple', 'bytearray'):
                return False
            return None
        return None

    def issubclass_v(self, v, t):
        types = t if isinstance(t, tuple) else (t,)
        if not isinstance(v, ClassV):
            return Sym('issubclass', v, t)
        res = []
        for x in types:
            if not isinstance(x, ClassV):
                res.append(None)
                continue
            if isinstance(v.cls, ClassInfo):
                if isinstance(x.cls, ClassInfo):
                    res.append(v.cls.is_subclass_of(x.cls))
                else:
                    dn = x.cls.dotted
                    if dn in ('six.string_types', 'builtins.str', 'six.integer_types', 'builtins.int'):
                        res.append(False if not v.cls.is_subclass_of(ExtRef('builtins.int')) else None)
                    else:
                        res.append(v.cls.is_subclass_of(x.cls) or None)
            else:
                if isinstance(x.cls, ClassInfo):
                    res.append(False)
                elif x.cls == v.cls:
                    res.append(True)
                elif x.cls.dotted == 'six.string_types' and v.cls.dotted in ('builtins.str', 'six.text_type'):
                    res.append(True)
                else:
                    res.append(None)
        if any(r is True for r in res):
            return True
        if all(r is False for r in res):
            return False
        return Sym('issubclass', v, t)

    def emit_raise(self, exc, fr, node, cause=None):
        if isinstance(exc, ObjV):
            fr.emit(Raise(ClassV(exc.cls), tuple((exc.ctor_args or {}).values()), node, fr.func, cause))
        elif isinstance(exc, Sym) and exc.op == 'call' and exc.args:
            fr.emit(Raise(exc.args[0], tuple(exc.args[1:]), node, fr.func, cause))
        else:
            fr.emit(Raise(exc, (), node, fr.func, cause))
