"""Concrete evaluation of abstract values (Sym trees) under an assignment of their leaves.

The abstract interpreter leaves arithmetic on wire fields symbolic (``((P['b0'] & 127) * 256) + P['b1']``). Several
rules decide a property of such an expression by *tabulating* it over a finite, exhaustive domain of its leaves (every
value of a header byte, every residue of a length): that is partial evaluation of the program text, not execution of the
repository -- the only code that runs is this evaluator over the expression tree extracted from the AST.

Leaves are resolved through ``leaf(v)`` (a callable returning a concrete value or raising NotEvaluable).  A ``phi`` is
resolved through the branch condition recorded on it by Interp.merge_env (``Sym.cond``; first argument = then-branch).
"""
from __future__ import annotations

import operator

from .values import Sym, show


class NotEvaluable(Exception):
    pass


ARITH = {
    'add': operator.add, 'sub': operator.sub, 'mul': operator.mul, 'and': operator.and_, 'or': operator.or_,
    'xor': operator.xor, 'lshift': operator.lshift, 'rshift': operator.rshift, 'pow': operator.pow,
}
CMP = {'<': operator.lt, '<=': operator.le, '>': operator.gt, '>=': operator.ge, '==': operator.eq, '!=': operator.ne,
       'is': operator.eq, 'is not': operator.ne}


def evaluate(v, leaf):
    if v is None or isinstance(v, (bool, int, str, bytes)):
        return v
    if not isinstance(v, Sym):
        return leaf(v)
    a = v.args
    op = v.op
    if op in ARITH and len(a) == 2:
        x, y = evaluate(a[0], leaf), evaluate(a[1], leaf)
        try:
            return ARITH[op](x, y)
        except Exception as e:      # pylint: disable=broad-except
            raise NotEvaluable('%s: %s' % (show(v), e))
    if op in ('mod', 'floordiv') and len(a) == 2:
        x, y = evaluate(a[0], leaf), evaluate(a[1], leaf)
        if not y:
            raise NotEvaluable('division by zero in %s' % show(v))
        return x % y if op == 'mod' else x // y
    if op == 'neg':
        return -evaluate(a[0], leaf)
    if op == 'invert':
        return ~evaluate(a[0], leaf)
    if op == 'not':
        return not evaluate(a[0], leaf)
    if op == 'bool':
        return bool(evaluate(a[0], leaf))
    if op == 'int' and len(a) == 1:
        return int(evaluate(a[0], leaf))
    if op == 'cmp' and a[0] in CMP:
        return CMP[a[0]](evaluate(a[1], leaf), evaluate(a[2], leaf))
    if op == 'booland':
        r = True
        for x in a:
            r = evaluate(x, leaf)
            if not r:
                return r
        return r
    if op == 'boolor':
        r = False
        for x in a:
            r = evaluate(x, leaf)
            if r:
                return r
        return r
    if op == 'ifexp' and len(a) == 3:
        return evaluate(a[1], leaf) if evaluate(a[0], leaf) else evaluate(a[2], leaf)
    if op == 'phi' and len(a) == 2 and getattr(v, 'cond', None) is not None:
        return evaluate(a[0], leaf) if evaluate(v.cond, leaf) else evaluate(a[1], leaf)
    if op in ('min', 'max') and a:
        vals = [evaluate(x, leaf) for x in a]
        return min(vals) if op == 'min' else max(vals)
    if op in ('divmod', 'abs', 'pow', 'round') and a:
        vals = [evaluate(x, leaf) for x in a]
        try:
            return {'divmod': divmod, 'abs': abs, 'pow': pow, 'round': round}[op](*vals)
        except Exception as e:      # pylint: disable=broad-except
            raise NotEvaluable('%s: %s' % (show(v), e))
    if op == 'call' and a and a[0] in ('divmod', 'abs', 'min', 'max', 'pow', 'builtins.divmod') and len(a) > 1:
        vals = [evaluate(x, leaf) for x in a[1:]]
        try:
            return {'divmod': divmod, 'builtins.divmod': divmod, 'abs': abs, 'min': min, 'max': max, 'pow': pow}[a[0]](*vals)
        except Exception as e:      # pylint: disable=broad-except
            raise NotEvaluable('%s: %s' % (show(v), e))
    if op == 'index' and len(a) == 2 and isinstance(a[1], int):
        base = evaluate(a[0], leaf)
        if isinstance(base, (tuple, list)) and -len(base) <= a[1] < len(base):
            return base[a[1]]
        raise NotEvaluable(show(v))
    return leaf(v)


def leaves(v, acc=None):
    """the non-Sym, non-constant leaves of an expression (and Syms the evaluator has no rule for)"""
    acc = [] if acc is None else acc
    if v is None or isinstance(v, (bool, int, str, bytes)):
        return acc
    if isinstance(v, Sym):
        known = v.op in ARITH or v.op in ('mod', 'floordiv', 'neg', 'invert', 'not', 'bool', 'int', 'booland', 'boolor',
                                           'ifexp', 'min', 'max') or (v.op == 'cmp') or (v.op == 'phi' and getattr(v, 'cond', None) is not None) or \
            (v.op == 'call' and v.args and v.args[0] in ('divmod', 'abs', 'min', 'max', 'pow', 'builtins.divmod')) or \
            v.op in ('divmod', 'abs', 'pow', 'round') or \
            (v.op == 'index' and len(v.args) == 2 and isinstance(v.args[1], int) and isinstance(v.args[0], Sym) and v.args[0].op in ('call', 'divmod'))
        if known and v.op == 'call':
            for x in v.args[1:]:
                leaves(x, acc)
            return acc
        if known and v.op == 'index':
            leaves(v.args[0], acc)
            return acc
        if known:
            for x in v.args:
                leaves(x, acc)
            if v.op == 'phi':
                leaves(v.cond, acc)
            return acc
    if not any(x is v for x in acc):
        acc.append(v)
    return acc
