"""Small codecs whose parser and composer are loops over a data dependent number of elements, decided by evaluating both
functions from their own statements (sa.miniexec) against the wire format the specification gives, instead of comparing
two loop shapes with each other (the layout matcher needs a reviewed difference for them: the parser reads the terminator
inside its loop, the composer writes it after the loop - or the other way round)."""
from __future__ import annotations

import ast

_CACHE = {}


def dns_name(ctx):
    """DnsNameUncompressed (RFC 1035 3.1: a sequence of labels, each a length octet followed by that many octets, ended by
    the zero length root label).  compose(labels) must be exactly that for label lists of 0..3 labels of 1..63 octets;
    _parse of those bytes (alone, and followed by other bytes) must give the labels back and report the length up to and
    including the root label; every proper prefix must raise NotEnoughData.
    {'evaluated', 'why', 'runs', 'problems': {'parse': text, 'compose': text}}"""
    if 'dns' in _CACHE:
        return _CACHE['dns']
    from .miniexec import Evaluator, ExcVal, Native, NativeError, Raised, Unsupported, class_call_hook, exception_values
    out = {'evaluated': False, 'why': '', 'runs': 0, 'problems': {}}
    _CACHE['dns'] = out
    c = ctx.model.try_cls('DnsNameUncompressed')
    fp = c.methods.get('_parse') if c is not None else None
    fc = c.methods.get('compose') if c is not None else None
    if fp is None or fc is None:
        out['why'] = 'DnsNameUncompressed._parse / compose not found'
        return out

    class NotEnoughData(NativeError):
        pass

    class InvalidValueError(NativeError):
        pass
    InvalidValueError.__name__ = 'InvalidValue'

    class Parser(Native):
        def __init__(self, data):
            self.data, self.parsed_length, self.values = bytes(data), 0, {}

        @property
        def unparsed_length(self):
            return len(self.data) - self.parsed_length

        def parse_string(self, name, item_size, encoding='ascii', *a, **k):
            codecs_used['parse'].add(encoding)
            have = len(self.data) - self.parsed_length
            if have < item_size:
                raise NotEnoughData(item_size - have)
            n = int.from_bytes(self.data[self.parsed_length:self.parsed_length + item_size], 'big')
            if have < item_size + n:
                raise NotEnoughData(item_size + n - have)
            raw = self.data[self.parsed_length + item_size:self.parsed_length + item_size + n]
            try:
                # the real codec of the standard library: what it decodes and what it refuses to encode is the subject here
                self.values[name] = raw.decode(encoding if encoding == 'idna' else 'ascii')
            except UnicodeError:
                raise InvalidValueError(name)
            self.parsed_length += item_size + n

        def parse_numeric(self, name, size, *a, **k):
            have = len(self.data) - self.parsed_length
            if have < size:
                raise NotEnoughData(size - have)
            self.values[name] = int.from_bytes(self.data[self.parsed_length:self.parsed_length + size], 'big')
            self.parsed_length += size

        def __getitem__(self, name):
            return self.values[name]

    class Composer(Native):
        def __init__(self):
            self.out = bytearray()

        def compose_string(self, value, encoding='ascii', item_size=1, *a, **k):
            codecs_used['compose'].add(encoding)
            try:
                raw = value.encode(encoding if encoding == 'idna' else 'ascii')
            except UnicodeError:
                raise InvalidValueError(value)
            self.out += len(raw).to_bytes(item_size, 'big') + raw

        def compose_numeric(self, value, size):
            self.out += int(value).to_bytes(size, 'big')

        def compose_raw(self, value):
            self.out += bytes(value)

        @property
        def composed_bytes(self):
            return bytearray(self.out)

        composed = composed_bytes
    made = {}
    codecs_used = {'parse': set(), 'compose': set()}

    def extra(n, ev):
        d = ast.unparse(n.func)
        if d == 'ParserBinary':
            return Parser(ev.ev(n.args[0]))
        if d == 'ComposerBinary':
            return Composer()
        if d in ('cls', 'DnsNameUncompressed') and n.args:
            made['labels'] = list(ev.ev(n.args[0]))
            return ('name', tuple(made['labels']))
        return exc(n, ev)
    exc = exception_values('NotEnoughData', 'InvalidValue', 'TooMuchData')
    hook = class_call_hook(c, extra, ctx.model)

    class Name(Native):
        _repo_class = c

        def __init__(self, labels):
            self.labels = list(labels)
    samples = [[], ['a'], ['mail', 'example', 'com'], ['x' * 63, 'y'], ['a', 'b' * 10], ['xn--bcher-kva', 'example']]
    try:
        for labels in samples:
            wire = b''.join(bytes([len(l)]) + l.encode('ascii') for l in labels) + b'\x00'
            labels = [l.encode('ascii').decode('idna') for l in labels]         # the text form of an A-label is its U-label
            out['runs'] += 1
            try:
                got = Evaluator({'self': Name(labels)}, hook, None).function(fc.node)
                if bytes(got) != wire:
                    out['problems'].setdefault('compose', 'the name %r is composed as %s, RFC 1035 3.1 gives %s' % ('.'.join(labels), bytes(got).hex(), wire.hex()))
            except Raised as e:
                out['problems'].setdefault('compose', 'composing %r raises %s' % ('.'.join(labels), e.what[:60]))
            for tail in (b'', b'\x03abc'):
                out['runs'] += 1
                try:
                    got = Evaluator({'cls': 'cls', 'parsable': wire + tail}, hook, None).function(fp.node)
                    if not (isinstance(got, tuple) and len(got) == 2 and got[0] == ('name', tuple(labels)) and got[1] == len(wire)):
                        out['problems'].setdefault('parse', 'the encoding of %r%s parses to %r' % ('.'.join(labels), ' followed by other bytes' if tail else '', got))
                except Raised as e:
                    out['problems'].setdefault('parse', 'parsing the encoding of %r raises %s' % ('.'.join(labels), e.what[:60]))
            for cut in range(0, len(wire)):
                out['runs'] += 1
                try:
                    got = Evaluator({'cls': 'cls', 'parsable': wire[:cut]}, hook, None).function(fp.node)
                    out['problems'].setdefault('parse', 'the first %d of %d bytes of a name are accepted (%r)' % (cut, len(wire), got))
                except Raised as e:
                    if 'NotEnoughData' not in e.what:
                        out['problems'].setdefault('parse', 'a truncated name raises %s' % e.what[:60])
        # wire forms with no text form: whatever the parser lets through has to be composable, to the bytes it was read from
        out['acceptance'] = {}
        for wire, what, key in ((bytes([64]) + b'a' * 64 + b'\x00', 'a label of 64 octets', 'long-label'), (bytes([200]) + b'b' * 200 + b'\x00', 'a label of 200 octets', 'long-label'),
                                (b'\x01.\x00', 'a label that is a dot', 'dot-label'), (b'\x03a.b\x00', 'a label with a dot inside', 'dot-label'),
                                (b'\x02.a\x00', 'a label that starts with a dot', 'dot-label'), (bytes([63]) + b'c' * 63 + b'\x00', 'a label of 63 octets', 'label')):
            out['runs'] += 1
            try:
                made.clear()
                got = Evaluator({'cls': 'cls', 'parsable': wire}, hook, None).function(fp.node)
            except Raised:
                continue
            labels = made.get('labels', [])
            try:
                again = Evaluator({'self': Name(labels)}, hook, None).function(fc.node)
            except Raised as e:
                out['acceptance'].setdefault(key, '%s (%s...) is accepted as %r and cannot be composed: %s' % (what, wire[:6].hex(), [l if len(l) < 12 else l[:8] + '...' for l in labels], e.what[:60]))
                continue
            try:
                made.clear()
                Evaluator({'cls': 'cls', 'parsable': bytes(again)}, hook, None).function(fp.node)
                if made.get('labels') != labels:
                    out['acceptance'].setdefault(key, '%s is accepted as %r, composed as %s and read back as %r' % (what, labels, bytes(again)[:12].hex(), made.get('labels')))
            except Raised as e:
                out['acceptance'].setdefault(key, '%s is accepted, composed as %s and then refused (%s)' % (what, bytes(again)[:12].hex(), e.what[:60]))
    except Unsupported as e:
        out['why'] = str(e)
        return out
    for side in ('parse', 'compose'):
        # labels are host name labels: both sides convert between text and octets with the IDNA codec (A-labels on the wire)
        if codecs_used[side] != {'idna'}:
            out['problems'].setdefault(side, 'labels are converted with the codec %s, host name labels are IDNA encoded' % sorted(codecs_used[side]))
    out['evaluated'] = True
    return out


def sni_host_name(ctx):
    """TlsExtensionServerNameClient: the host name travels as an IDNA A-label string.  The codec of the standard library
    decodes names it refuses to encode again (an empty label, a label of more than 63 octets), so a parser that only decodes
    lets through objects its composer cannot write.  _parse (from the list length on) and compose are evaluated from their own
    statements with the real codec on a table of names: whatever is accepted must compose, to bytes that read as the same name."""
    if 'sni' in _CACHE:
        return _CACHE['sni']
    from .miniexec import Evaluator, Native, NativeError, Obj, Raised, Unsupported, class_call_hook, exception_values
    out = {'evaluated': False, 'why': '', 'runs': 0, 'problems': {}, 'acceptance': {}}
    _CACHE['sni'] = out
    c = ctx.model.try_cls('TlsExtensionServerNameClient')
    fp = c.methods.get('_parse') if c is not None else None
    fc = c.methods.get('compose') if c is not None else None
    if fp is None or fc is None:
        out['why'] = 'TlsExtensionServerNameClient._parse / compose not found'
        return out

    class NotEnoughData(NativeError):
        pass

    class Parser(Native):
        def __init__(self, data):
            self.data, self.parsed_length, self.values = bytes(data), 0, {}

        def take(self, n):
            have = len(self.data) - self.parsed_length
            if have < n:
                raise NotEnoughData(n - have)
            raw = self.data[self.parsed_length:self.parsed_length + n]
            self.parsed_length += n
            return raw

        def parse_numeric(self, name, size, converter=None):
            self.values[name] = int.from_bytes(self.take(size), 'big')

        def parse_parsable(self, name, cls_):
            n = int.from_bytes(self.take(2), 'big')
            self.values[name] = list(self.take(n))          # an opaque vector: a sequence of octets

        def parse_bytes(self, name, size):
            n = int.from_bytes(self.take(size), 'big')
            self.values[name] = bytearray(self.take(n))

        def __getitem__(self, name):
            return self.values[name]

    class Composer(Native):
        def __init__(self):
            self.out = bytearray()

        def compose_numeric(self, value, size):
            self.out += int(value).to_bytes(size, 'big')

        def compose_bytes(self, value, size):
            self.out += len(value).to_bytes(size, 'big') + bytes(value)

        def compose_raw(self, value):
            self.out += bytes(value)

        @property
        def composed_length(self):
            return len(self.out)

        @property
        def composed_bytes(self):
            return bytearray(self.out)

        composed = composed_bytes
    made = {}
    exc = exception_values('NotEnoughData', 'InvalidValue', 'TooMuchData', 'InvalidType')

    def extra(n, ev):
        d = ast.unparse(n.func)
        if d.endswith('._parse_header') or d.endswith('._check_header'):
            return Parser(ev.ev(n.args[0]))
        if d == 'ComposerBinary':
            return Composer()
        if d.endswith('._compose_header'):
            return bytearray(b'\x00\x00' + int(ev.ev(n.args[0])).to_bytes(2, 'big'))
        if d in ('cls', 'TlsExtensionServerNameClient') and n.args:
            made['host_name'] = ev.ev(n.args[0])
            return ('sni', made['host_name'])
        return exc(n, ev)

    def names(name):
        raise Unsupported('free name ' + name)
    hook = class_call_hook(c, extra, ctx.model)
    nh = hook.name_hook_for(c.module, names)

    def payload(name):
        entry = b'\x00' + len(name).to_bytes(2, 'big') + name
        return len(entry).to_bytes(2, 'big') + entry
    NAMES = [(b'example.com', 'plain'), (b'a' * 63 + b'.com', 'plain'), (b'xn--bcher-kva.example', 'plain'), (b'EXAMPLE.com', 'plain'), (b'com.', 'plain'),
             (b'a' * 64 + b'.com', 'long-label'), (b'a..com', 'empty-label'), (b'.com', 'empty-label'), (b'.', 'empty-label')]
    try:
        for name, key in NAMES:
            out['runs'] += 1
            made.clear()
            try:
                Evaluator({'cls': 'cls', 'parsable': payload(name)}, hook, nh).function(fp.node)
            except Raised as e:
                if key == 'plain':
                    out['acceptance'].setdefault(key, 'the host name %r is refused (%s)' % (name[:24], e.what[:60]))
                continue
            host = made.get('host_name')
            if not isinstance(host, str):
                raise Unsupported('host name is %r' % (host,))
            me = Obj(host_name=host, name_type=0)
            try:
                again = Evaluator({'self': me}, hook, nh).function(fc.node)
            except Raised as e:
                out['acceptance'].setdefault(key, 'the host name %r is accepted (as %r) and cannot be composed: %s' % (name[:24], host[:24], e.what[:70]))
                continue
            body = bytes(again)[4:]
            made.clear()
            try:
                Evaluator({'cls': 'cls', 'parsable': body}, hook, nh).function(fp.node)
            except Raised as e:
                out['acceptance'].setdefault(key, 'the host name %r is composed as %s..., which is refused (%s)' % (name[:24], body[:12].hex(), e.what[:60]))
                continue
            if made.get('host_name') != host:
                out['acceptance'].setdefault(key, 'the host name %r is read as %r, composed and read back as %r' % (name[:24], host[:24], made.get('host_name')))
    except Unsupported as e:
        out['why'] = str(e)
        return out
    out['evaluated'] = True
    return out


def dnskey_record(ctx):
    """DnsRecordDnskey: flags(2) protocol(1) algorithm(1) public key, the key in the format of its algorithm (RFC 3110 RSA,
    RFC 2536 DSA, RFC 6605 ECDSA, RFC 5933 GOST, RFC 8080 EdDSA).  Which key format is read and written is a dispatch on the
    algorithm - an if / elif chain today, a table of method names tomorrow - so instead of comparing two dispatch shapes,
    _parse and compose are evaluated from their own statements (sa.miniexec) on one record per algorithm of the registry:
    the record has to be read completely, the key object handed to the library has to carry the numbers of the wire, and
    compose has to give the record back.  The key object is modelled as the dependency builds it (key_size of an EC key is what
    asn1crypto derives from the point: eight times the octets of the longer coordinate).
    {'evaluated', 'why', 'runs', 'problems': {'parse': text, 'compose': text}, 'unhandled': {algorithm: text}}"""
    if 'dnskey' in _CACHE:
        return _CACHE['dnskey']
    import math
    from .miniexec import Evaluator, EnumVal, Native, NativeError, Obj, Raised, Unsupported, class_call_hook, exception_values
    out = {'evaluated': False, 'why': '', 'runs': 0, 'problems': {}, 'unhandled': {}}
    _CACHE['dnskey'] = out
    model = ctx.model
    c = model.try_cls('DnsRecordDnskey')
    alg_cls, sig_cls, auth_cls = model.try_cls('DnsSecAlgorithm'), model.try_cls('Signature'), model.try_cls('Authentication')
    fp = c.methods.get('_parse') if c is not None else None
    fc = c.methods.get('compose') if c is not None else None
    if fp is None or fc is None or alg_cls is None or sig_cls is None or auth_cls is None or not alg_cls.enum_members:
        out['why'] = 'DnsRecordDnskey._parse / compose or the algorithm registries not found'
        return out

    class NotEnoughData(NativeError):
        pass

    class Parser(Native):
        def __init__(self, data):
            self.data, self.parsed_length, self.values = bytes(data), 0, {}

        @property
        def unparsed_length(self):
            return len(self.data) - self.parsed_length

        def take(self, n):
            if not isinstance(n, int) or n < 0:
                raise Unsupported('read of %r octets' % (n,))
            if self.unparsed_length < n:
                raise NotEnoughData(n - self.unparsed_length)
            raw = self.data[self.parsed_length:self.parsed_length + n]
            self.parsed_length += n
            return raw

        def parse_numeric(self, name, size, converter=None):
            v = int.from_bytes(self.take(size), 'big')
            # a number read through an enum class stands for the member with that value
            self.values[name] = v if converter is None or converter is int else Obj(value=v, name='member %d' % v)

        def parse_numeric_flags(self, name, size, flags_class, shift_left=0):
            self.values[name] = ('flags', int.from_bytes(self.take(size), 'big'))

        def parse_parsable(self, name, factory, item_size=None):
            code = int.from_bytes(self.take(1), 'big')
            if code not in by_code:
                raise Unsupported('algorithm code %d' % code)
            self.values[name] = by_code[code]

        def parse_raw(self, name, size):
            self.values[name] = bytearray(self.take(size))

        def parse_mpint(self, name, length):
            self.values[name] = int.from_bytes(self.take(length), 'big')

        def __getitem__(self, name):
            return self.values[name]

        def __delitem__(self, name):
            del self.values[name]

    class InvalidValueError(NativeError):
        pass
    InvalidValueError.__name__ = 'InvalidValue'

    class Composer(Native):
        def __init__(self):
            self.out = bytearray()

        def compose_numeric(self, value, size):
            self.out += int(value).to_bytes(size, 'big')

        def compose_numeric_flags(self, value, size, shift_right=0):
            self.out += int(value[1] if isinstance(value, tuple) else 0).to_bytes(size, 'big')

        def compose_numeric_enum_coded(self, value):
            self.out += int(value.value.code).to_bytes(1, 'big')

        def compose_parsable(self, value):
            self.out += int(value.value.code).to_bytes(1, 'big')

        def compose_mpint(self, value, length):
            try:
                self.out += int(value).to_bytes(length, 'big')
            except (OverflowError, ValueError):
                raise InvalidValueError(value)

        def compose_raw(self, value):
            self.out += bytes(value)

        @property
        def composed_bytes(self):
            return bytearray(self.out)

        @property
        def composed_length(self):
            return len(self.out)

        composed = composed_bytes

    def octets(n):
        return (n.bit_length() + 7) // 8

    class Key(Native):
        """what PublicKey.from_params builds: the parameters, the key type of the parameter class, key_size as asn1crypto gives it"""

        def __init__(self, kind, params):
            self.params, self.kind = params, kind
            self.key_type = EnumVal.of(auth_cls, {'rsa': 'RSA', 'dsa': 'DSS', 'ecdsa': 'ECDSA', 'eddsa': 'EDDSA'}[kind])

        @property
        def key_size(self):
            p = self.params
            if self.kind == 'ecdsa':
                return 8 * max(octets(p.point_x), octets(p.point_y), 1)
            if self.kind == 'eddsa':
                return p.curve_type.value.size
            prime = p.modulus if self.kind == 'rsa' else p.prime
            bits = int(math.ceil(math.log(prime, 2)))
            return bits + (-bits % 8)
    KINDS = {'PublicKeyParamsRsa': 'rsa', 'PublicKeyParamsDsa': 'dsa', 'PublicKeyParamsEcdsa': 'ecdsa', 'PublicKeyParamsEddsa': 'eddsa'}
    made = {}
    exc = exception_values('InvalidValue', 'InvalidType', 'NotEnoughData', 'TooMuchData')

    def extra(n, ev):
        d = ast.unparse(n.func)
        if d == 'ParserBinary':
            return Parser(ev.ev(n.args[0]))
        if d == 'ComposerBinary':
            return Composer()
        if d in KINDS:
            kw = {k.arg: ev.ev(k.value) for k in n.keywords if k.arg}
            return Obj(_kind=KINDS[d], **kw)
        if d == 'PublicKey.from_params':
            prm = ev.ev(n.args[0])
            return Key(prm._kind, prm)
        if d in ('cls', 'DnsRecordDnskey') and (n.args or n.keywords):
            args = [ev.ev(a) for a in n.args]
            names = ['flags', 'algorithm', 'key', 'protocol']
            kw = dict(zip(names, args))
            kw.update({k.arg: ev.ev(k.value) for k in n.keywords if k.arg})
            made.update(kw)
            return ('record',)
        if d == 'len' and len(n.args) == 1:
            return NotImplemented
        return exc(n, ev)

    def names(name):
        raise Unsupported('free name ' + name)
    # the registry rows, with the signature algorithm a row names resolved to a model of the Signature member
    by_code, algs = {}, {}
    for name in alg_cls.enum_members:
        ev_ = EnumVal.of(alg_cls, name)
        ref = getattr(ev_.value, 'algorithm', None)
        if isinstance(ref, str):
            row = sig_cls.enum_members.get(ref)
            kt = getattr(row, 'fields', {}).get('key_type') if row is not None else None
            if row is not None and isinstance(kt, str) and kt in auth_cls.enum_members:
                ev_.value.algorithm = Obj(name=ref, value=Obj(key_type=EnumVal.of(auth_cls, kt)), _isa={'Signature', 'Enum'})
            else:
                ev_.value.algorithm = Obj(name=ref, value=Obj(name=ref + ' parameters', _strict=True), _isa={'KeyExchange', 'Enum'}, _strict=True)    # not a signature: no key type
        algs[name] = ev_
        if isinstance(getattr(ev_.value, 'code', None), int):
            by_code[ev_.value.code] = ev_

    def key_octets(kt, name):
        """a key in the format the RFC of the algorithm gives (None: no format known to the table below)"""
        if kt == 'RSA':
            return [b'\x03\x01\x00\x01' + b'\xc1' * 128, b'\x00\x01\x00' + b'\x81' + b'\x00' * 255 + b'\xc3' * 256]
        if kt == 'DSS':
            return [b'\x01' + b'\x91' * 20 + b'\xd5' * 72 + (b'\x22' * 71).rjust(72, b'\x00') + (b'\x33' * 70).rjust(72, b'\x00'),
                    # T = 1 with a prime just above a power of two (2 ** 512 + 1 in 72 octets): its size in octets has to come out as 65
                    b'\x01' + b'\x91' * 20 + (b'\x01' + b'\x00' * 63 + b'\x01').rjust(72, b'\x00') + (b'\x22' * 64).rjust(72, b'\x00') +
                    (b'\x33' * 64).rjust(72, b'\x00'),
                    # T = 1 with a small prime and a generator that fills the field (nothing in RFC 2536 lets the parser refuse it): what is
                    # accepted has to come back in fields of the same width
                    b'\x01' + b'\x91' * 20 + b'\x07'.rjust(72, b'\x00') + (b'\x04' + b'\x00' * 71) + b'\x03'.rjust(72, b'\x00')]
        if kt in ('ECDSA', 'GOST_R3410_01'):
            n = 48 if '384' in name else 32
            return [b'\xa1' * n + b'\xb2' * n, (b'\x5a' * (n - 1)).rjust(n, b'\x00') + (b'\x6b' * (n - 2)).rjust(n, b'\x00')]
        if kt == 'EDDSA':
            return [b'\xe4' * 32] if '25519' in name else None       # Ed448: the 56 / 57 octet question is C08.R4's
        return None
    hook = class_call_hook(c, extra, model)
    nh = hook.name_hook_for(c.module, names)
    DOCUMENTED = ('InvalidValue', 'InvalidType', 'NotEnoughData', 'TooMuchData')
    try:
        # every algorithm code of the registry, on keys of several sizes: only the documented parse errors may come out
        for name, alg in sorted(algs.items()):
            if not isinstance(getattr(alg.value, 'code', None), int):
                continue
            for key in (b'', b'\x01' * 32, b'\x01' * 57, b'\x01\x03' + b'\xc1' * 128, b'\x01' * 237):
                out['runs'] += 1
                try:
                    Evaluator({'cls': 'cls', 'parsable': b'\x01\x01\x03' + bytes([alg.value.code]) + key}, hook, nh).function(fp.node)
                except Raised as e:
                    kind = e.what.split('(')[0].split('.')[-1].strip()
                    if kind not in DOCUMENTED:
                        out['unhandled'].setdefault(name, 'a DNSKEY record with algorithm %s (code %d) and a key of %d octets ends in %s, not in one of the parse errors' % (
                            name, alg.value.code, len(key), e.what[:60]))
        for name, alg in sorted(algs.items()):
            sig = getattr(alg.value, 'algorithm', None)
            kt_val = getattr(getattr(sig, 'value', None), 'key_type', None)
            kt = getattr(kt_val, 'name', None)
            if kt is None:
                continue        # not a signature algorithm (DELETE, DH, INDIRECT, ...): it has no key format
            keys = key_octets(kt, name)
            if keys is None:
                continue
            for key in keys:
                wire = b'\x01\x01\x03' + bytes([alg.value.code]) + key
                out['runs'] += 1
                made.clear()
                try:
                    got = Evaluator({'cls': 'cls', 'parsable': wire}, hook, nh).function(fp.node)
                except Raised as e:
                    if 'NotImplementedError' in e.what:
                        out['unhandled'].setdefault(name, 'DNSSEC algorithm %s has key type %s, which parse_key does not handle: %s escapes' % (name, kt, e.what[:50]))
                    else:
                        out['problems'].setdefault('parse', 'a %s record with a %d octet key in the format of its RFC is refused (%s)' % (name, len(key), e.what[:60]))
                    continue
                if not (isinstance(got, tuple) and len(got) == 2 and got[1] == len(wire)) or not isinstance(made.get('key'), Key):
                    out['problems'].setdefault('parse', 'a %s record of %d octets parses to %r (consumed %r)' % (name, len(wire), got[0] if isinstance(got, tuple) else got, got[1] if isinstance(got, tuple) and len(got) == 2 else None))
                    continue
                if kt != 'RSA':
                    # a key format of fixed size followed by one more octet: the octet belongs to nothing and must not be dropped (the
                    # modulus of an RSA key takes whatever follows the exponent)
                    out['runs'] += 1
                    try:
                        extra = Evaluator({'cls': 'cls', 'parsable': wire + b'\x00'}, hook, nh).function(fp.node)
                        out['problems'].setdefault('parse', 'a %s record whose %d octet key is followed by one more octet is accepted (consumed %r of %d): '
                                                   'trailing key bytes are dropped' % (name, len(key), extra[1] if isinstance(extra, tuple) and len(extra) == 2 else extra,
                                                                                      len(wire) + 1))
                    except Raised as e:
                        if 'TooMuchData' not in e.what and 'InvalidValue' not in e.what:
                            out['problems'].setdefault('parse', 'a %s record whose key is followed by one more octet ends in %s' % (name, e.what[:60]))
                me = Obj(flags=made.get('flags'), algorithm=made.get('algorithm'), key=made.get('key'), protocol=made.get('protocol'), _repo_class=c)
                try:
                    again = Evaluator({'self': me}, hook, nh).function(fc.node)
                except Raised as e:
                    out['problems'].setdefault('compose', 'the %s record read from %d octets cannot be composed (%s)' % (name, len(wire), e.what[:60]))
                    continue
                if bytes(again) != wire:
                    lead = ' (coordinates with leading zero octets)' if key[:1] == b'\x00' else ''
                    out['problems'].setdefault('compose', 'a %s record%s of %d octets is composed back as %d octets: %s... instead of %s...' % (
                        name, lead, len(wire), len(bytes(again)), bytes(again)[:10].hex(), wire[:10].hex()))
    except Unsupported as e:
        out['why'] = str(e)
        return out
    out['evaluated'] = True
    return out


EVALUATED_CODECS = {'DnsNameUncompressed': dns_name, 'DnsRecordDnskey': dnskey_record}
# codecs whose decode side accepts more than the encode side writes: accepted input must be composable (C05.R1)
ACCEPTANCE_CODECS = {'DnsNameUncompressed': dns_name, 'TlsExtensionServerNameClient': sni_host_name}


def _binary_env(ctx, cls, made):
    """hook / names for evaluating a binary parser or composer method of ``cls``: ParserBinary / ComposerBinary objects are
    the models of sa.props.c11 (only the word level primitives are modelled, every other method is the repository's own,
    evaluated on the model), ``cls(...)`` / ``ClassName(...)`` record the constructed object in ``made``"""
    from .miniexec import Unsupported, class_call_hook, exception_values
    from .props import c11
    m = c11._binary_models()
    m['Composer']._repo_class = ctx.model.cls('ComposerBinary')
    m['Parser']._repo_class = ctx.model.cls('ParserBinary')
    exc = exception_values('NotEnoughData', 'InvalidValue', 'InvalidType', 'TooMuchData')

    def names(nm):
        if nm.startswith('ByteOrder.') and nm.split('.')[1] in m['orders']:
            return m['orders'][nm.split('.')[1]]
        if nm == 'int':
            return int
        if nm == 'cls':
            return 'cls'
        raise Unsupported('free name ' + nm)

    def extra(n, ev):
        d = ast.unparse(n.func)
        if d in ('ComposerBinary', 'ParserBinary'):
            args = [ev.ev(a) for a in n.args]
            kw = {k.arg: ev.ev(k.value) for k in n.keywords}
            if d == 'ComposerBinary':
                return m['Composer'](kw.get('byte_order', args[0] if args else None))
            return m['Parser'](args[0], kw.get('byte_order', args[1] if len(args) > 1 else None))
        if d in ('cls', cls.name):
            rec = {k.arg: ev.ev(k.value) for k in n.keywords if k.arg}
            for k in n.keywords:
                if k.arg is None:
                    rec.update(dict(ev.ev(k.value)))
            fields = [fl.name for fl in cls.attrs_fields()] if cls.has_attrs() else []
            for i, a in enumerate(n.args):
                rec[fields[i] if i < len(fields) else 'arg%d' % i] = ev.ev(a)
            made['object'] = rec
            return ('object', cls.name)
        return exc(n, ev)
    hook = class_call_hook(cls, extra, ctx.model)
    return hook, names, m


def mysql_record(ctx):
    """MySQLRecord (MySQL protocol basic packet: int<3> payload length little endian, int<1> sequence id, payload):
    compose(sequence id, payload) must be exactly that for payloads of 0, 1, 5, 255, 256 and 70000 bytes and sequence ids 0,
    1, 255; _parse of those bytes (alone and followed by the next packet) must give the fields back and report 4 + payload
    length; every proper prefix must raise NotEnoughData with the number of missing bytes"""
    if 'mysql' in _CACHE:
        return _CACHE['mysql']
    from .miniexec import Evaluator, ExcVal, Native, Obj, Raised, Unsupported
    out = {'evaluated': False, 'why': '', 'runs': 0, 'problems': {}}
    _CACHE['mysql'] = out
    c = ctx.model.try_cls('MySQLRecord')
    fp = c.methods.get('_parse') if c is not None else None
    fc = c.methods.get('compose') if c is not None else None
    if fp is None or fc is None:
        out['why'] = 'MySQLRecord._parse / compose not found'
        return out
    made = {}
    hook, names, m = _binary_env(ctx, c, made)

    class Record(Native):
        _repo_class = c

        def __init__(self, number, payload):
            self.packet_number, self.packet_bytes = number, payload
    try:
        for size in (0, 1, 5, 255, 256, 70000):
            for number in (0, 1, 255):
                payload = bytes((i * 7 + 3) & 0xff for i in range(min(size, 300))) + b'\x5a' * max(0, size - 300)
                wire = size.to_bytes(3, 'little') + bytes([number]) + payload
                out['runs'] += 1
                try:
                    got = Evaluator({'self': Record(number, bytearray(payload))}, hook, names).function(fc.node)
                    if bytes(got) != wire:
                        out['problems'].setdefault('compose', 'a packet with sequence id %d and %d payload bytes is composed with the header %s, the protocol gives %s' % (
                            number, size, bytes(got)[:4].hex(), wire[:4].hex()))
                except Raised as e:
                    out['problems'].setdefault('compose', 'composing a packet of %d payload bytes raises %s' % (size, e.what[:60]))
                for tail in (b'', b'\x01\x00\x00\x01\xff'):
                    out['runs'] += 1
                    made.clear()
                    try:
                        got = Evaluator({'cls': 'cls', 'parsable': bytearray(wire + tail)}, hook, names).function(fp.node)
                        rec = made.get('object', {})
                        if not (isinstance(got, tuple) and len(got) == 2 and got[1] == len(wire)):
                            out['problems'].setdefault('parse', 'a packet of %d bytes%s is reported as %r bytes long' % (
                                len(wire), ' followed by another packet' if tail else '', got[1] if isinstance(got, tuple) and len(got) == 2 else got))
                        elif rec.get('packet_number') != number or bytes(rec.get('packet_bytes', b'')) != payload:
                            out['problems'].setdefault('parse', 'sequence id %d / %d payload bytes parse to sequence id %r / %d payload bytes' % (
                                number, size, rec.get('packet_number'), len(rec.get('packet_bytes', b''))))
                    except Raised as e:
                        out['problems'].setdefault('parse', 'parsing a packet of %d payload bytes raises %s' % (size, e.what[:60]))
                cuts = range(0, len(wire)) if size <= 5 else sorted({0, 1, 3, 4, 5, len(wire) // 2, len(wire) - 1})
                for cut in cuts:
                    out['runs'] += 1
                    try:
                        got = Evaluator({'cls': 'cls', 'parsable': bytearray(wire[:cut])}, hook, names).function(fp.node)
                        out['problems'].setdefault('parse', 'the first %d of %d bytes of a packet are accepted' % (cut, len(wire)))
                    except Raised as e:
                        v = e.value
                        n = (v.args[0] if v.args else v.kwargs.get('bytes_needed')) if isinstance(v, ExcVal) else None
                        want = (4 - cut) if cut < 4 else (len(wire) - cut)
                        if 'NotEnoughData' not in e.what:
                            out['problems'].setdefault('parse', 'a truncated packet raises %s' % e.what[:60])
                        elif n != want:
                            out['problems'].setdefault('parse', '%d of %d bytes present: NotEnoughData carries %r, %d bytes are missing' % (cut, len(wire), n, want))
    except Unsupported as e:
        out['why'] = str(e)
        return out
    out['evaluated'] = True
    return out


EVALUATED_CODECS['MySQLRecord'] = mysql_record
