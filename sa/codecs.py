"""Small codecs whose parser and composer are loops over a data dependent number of elements, decided by evaluating both
functions from their own statements (sa.miniexec) against the wire format the specification gives, instead of comparing
two loop shapes with each other (the layout matcher needs a reviewed difference for them: the parser reads the terminator
inside its loop, the composer writes it after the loop - or the other way round)."""
from __future__ import annotations

import ast

_CACHE = {}


def dns_name(ctx):
    """DnsNameUncompressed (RFC 1035 3.1: a sequence of labels, each a length octet followed by that many octets, ended by
    the zero length root label).  compose(labels) must be exactly that for label lists of 0..3 labels of 1..63 octets;
    _parse of those bytes (alone, and followed by other bytes) must give the labels back and report the length up to and
    including the root label; every proper prefix must raise NotEnoughData.
    {'evaluated', 'why', 'runs', 'problems': {'parse': text, 'compose': text}}"""
    if 'dns' in _CACHE:
        return _CACHE['dns']
    from .miniexec import Evaluator, ExcVal, Native, NativeError, Raised, Unsupported, class_call_hook, exception_values
    out = {'evaluated': False, 'why': '', 'runs': 0, 'problems': {}}
    _CACHE['dns'] = out
    c = ctx.model.try_cls('DnsNameUncompressed')
    fp = c.methods.get('_parse') if c is not None else None
    fc = c.methods.get('compose') if c is not None else None
    if fp is None or fc is None:
        out['why'] = 'DnsNameUncompressed._parse / compose not found'
        return out

    class NotEnoughData(NativeError):
        pass

    class Parser(Native):
        def __init__(self, data):
            self.data, self.parsed_length, self.values = bytes(data), 0, {}

        @property
        def unparsed_length(self):
            return len(self.data) - self.parsed_length

        def parse_string(self, name, item_size, encoding='ascii', *a, **k):
            have = len(self.data) - self.parsed_length
            if have < item_size:
                raise NotEnoughData(item_size - have)
            n = int.from_bytes(self.data[self.parsed_length:self.parsed_length + item_size], 'big')
            if have < item_size + n:
                raise NotEnoughData(item_size + n - have)
            self.values[name] = self.data[self.parsed_length + item_size:self.parsed_length + item_size + n].decode('ascii')
            self.parsed_length += item_size + n

        def parse_numeric(self, name, size, *a, **k):
            have = len(self.data) - self.parsed_length
            if have < size:
                raise NotEnoughData(size - have)
            self.values[name] = int.from_bytes(self.data[self.parsed_length:self.parsed_length + size], 'big')
            self.parsed_length += size

        def __getitem__(self, name):
            return self.values[name]

    class Composer(Native):
        def __init__(self):
            self.out = bytearray()

        def compose_string(self, value, encoding='ascii', item_size=1, *a, **k):
            raw = value.encode('ascii')
            self.out += len(raw).to_bytes(item_size, 'big') + raw

        def compose_numeric(self, value, size):
            self.out += int(value).to_bytes(size, 'big')

        def compose_raw(self, value):
            self.out += bytes(value)

        @property
        def composed_bytes(self):
            return bytearray(self.out)

        composed = composed_bytes
    made = {}

    def extra(n, ev):
        d = ast.unparse(n.func)
        if d == 'ParserBinary':
            return Parser(ev.ev(n.args[0]))
        if d == 'ComposerBinary':
            return Composer()
        if d in ('cls', 'DnsNameUncompressed') and n.args:
            made['labels'] = list(ev.ev(n.args[0]))
            return ('name', tuple(made['labels']))
        return exc(n, ev)
    exc = exception_values('NotEnoughData', 'InvalidValue', 'TooMuchData')
    hook = class_call_hook(c, extra, ctx.model)

    class Name(Native):
        _repo_class = c

        def __init__(self, labels):
            self.labels = list(labels)
    samples = [[], ['a'], ['mail', 'example', 'com'], ['x' * 63, 'y'], ['a', 'b' * 10], ['xn--bcher-kva', 'example']]
    try:
        for labels in samples:
            wire = b''.join(bytes([len(l)]) + l.encode('ascii') for l in labels) + b'\x00'
            out['runs'] += 1
            try:
                got = Evaluator({'self': Name(labels)}, hook, None).function(fc.node)
                if bytes(got) != wire:
                    out['problems'].setdefault('compose', 'the name %r is composed as %s, RFC 1035 3.1 gives %s' % ('.'.join(labels), bytes(got).hex(), wire.hex()))
            except Raised as e:
                out['problems'].setdefault('compose', 'composing %r raises %s' % ('.'.join(labels), e.what[:60]))
            for tail in (b'', b'\x03abc'):
                out['runs'] += 1
                try:
                    got = Evaluator({'cls': 'cls', 'parsable': wire + tail}, hook, None).function(fp.node)
                    if not (isinstance(got, tuple) and len(got) == 2 and got[0] == ('name', tuple(labels)) and got[1] == len(wire)):
                        out['problems'].setdefault('parse', 'the encoding of %r%s parses to %r' % ('.'.join(labels), ' followed by other bytes' if tail else '', got))
                except Raised as e:
                    out['problems'].setdefault('parse', 'parsing the encoding of %r raises %s' % ('.'.join(labels), e.what[:60]))
            for cut in range(0, len(wire)):
                out['runs'] += 1
                try:
                    got = Evaluator({'cls': 'cls', 'parsable': wire[:cut]}, hook, None).function(fp.node)
                    out['problems'].setdefault('parse', 'the first %d of %d bytes of a name are accepted (%r)' % (cut, len(wire), got))
                except Raised as e:
                    if 'NotEnoughData' not in e.what:
                        out['problems'].setdefault('parse', 'a truncated name raises %s' % e.what[:60])
    except Unsupported as e:
        out['why'] = str(e)
        return out
    out['evaluated'] = True
    return out


EVALUATED_CODECS = {'DnsNameUncompressed': dns_name}
