"""Variants for sa.selftest: each breaking variant changes one instance (still valid Python, same public API) and names
the check(s) that must fire; benign variants must leave all 19 checks at exit 0."""

P = 'cryptoparser/'
VARIANTS = []


def B(name, expect, edits, mention=None, props=None):
    VARIANTS.append({'name': name, 'kind': 'breaking', 'expect': expect, 'edits': edits, 'mention': mention,
                     'props': props or expect})


def N(name, edits=None, reformat=False, transform=None):
    VARIANTS.append({'name': name, 'kind': 'benign', 'edits': edits or [], 'reformat': reformat, 'transform': transform})


# ---------------------------------------------------------------- C01 / C05 / spec: layout
B('C01.swap-gex-compose', ['C01', 'C07'], [(P + 'ssh/subprotocol.py',
  "        composer.compose_numeric(self.gex_min, 4)\n        composer.compose_numeric(self.gex_number, 4)\n        composer.compose_numeric(self.gex_max, 4)",
  "        composer.compose_numeric(self.gex_max, 4)\n        composer.compose_numeric(self.gex_number, 4)\n        composer.compose_numeric(self.gex_min, 4)")],
  mention=['gex_m'])
B('C01.width-one-side', ['C01', 'C06'], [(P + 'tls/extension.py', "payload_composer.compose_numeric(self.record_size_limit, 2)",
                                          "payload_composer.compose_numeric(self.record_size_limit, 4)")])
B('C01.drop-optional-branch-compose', ['C01', 'C06', 'C05'], [(P + 'tls/subprotocol.py',
  "        if self.supported_signature_algorithms is not None:\n            payload_composer.compose_parsable(self.supported_signature_algorithms)\n",
  "")])
B('C01.registry-wrong-class', ['C01'], [(P + 'tls/subprotocol.py', "(TlsHandshakeType.SERVER_HELLO, [TlsHandshakeServerHello, ]),",
                                         "(TlsHandshakeType.SERVER_HELLO, [TlsHandshakeCertificate, ]),")])
B('C06.symmetric-session-id-ceiling', ['C06'], [(P + 'tls/subprotocol.py', "return VectorParamNumeric(item_size=1, min_byte_num=0, max_byte_num=32)",
                                                 "return VectorParamNumeric(item_size=1, min_byte_num=0, max_byte_num=255)")], mention=['TlsSessionIdVector'])
B('C06.symmetric-width-both-sides', ['C06'], [
    (P + 'tls/subprotocol.py', "            parser.parse_bytes('payload', 3)", "            parser.parse_bytes('payload', 2)"),
    (P + 'tls/subprotocol.py', "        composer.compose_numeric(payload_length, 3)", "        composer.compose_numeric(payload_length, 2)")])
B('C06.symmetric-field-order', ['C06'], [
    (P + 'tls/subprotocol.py', "        parser.parse_parsable('cipher_suite', TlsCipherSuiteFactory)\n        parser.parse_parsable('compression_method', TlsCompressionMethodFactory)\n\n        extension_parser = cls._parse_extensions(handshake_header_parser, parser, TlsExtensionsServer)\n\n        return TlsHandshakeServerHello(",
     "        parser.parse_parsable('compression_method', TlsCompressionMethodFactory)\n        parser.parse_parsable('cipher_suite', TlsCipherSuiteFactory)\n\n        extension_parser = cls._parse_extensions(handshake_header_parser, parser, TlsExtensionsServer)\n\n        return TlsHandshakeServerHello("),
    (P + 'tls/subprotocol.py', "        payload_composer.compose_numeric_enum_coded(self.cipher_suite)\n        payload_composer.compose_numeric_enum_coded(self.compression_method)\n\n        extension_bytes = self._compose_extensions(self.extensions)\n\n        header_bytes = self._compose_header(payload_composer.composed_length + len(extension_bytes))\n\n        return header_bytes + payload_composer.composed_bytes + extension_bytes\n\n\n@attr.s\nclass TlsCertificate",
     "        payload_composer.compose_numeric_enum_coded(self.compression_method)\n        payload_composer.compose_numeric_enum_coded(self.cipher_suite)\n\n        extension_bytes = self._compose_extensions(self.extensions)\n\n        header_bytes = self._compose_header(payload_composer.composed_length + len(extension_bytes))\n\n        return header_bytes + payload_composer.composed_bytes + extension_bytes\n\n\n@attr.s\nclass TlsCertificate")])
B('C06.registry-number', ['C06', 'C10'], [(P + 'tls/subprotocol.py', "    HEARTBEAT = 0x18", "    HEARTBEAT = 0x17")])
B('C06.ssl2-header-flag', ['C06'], [(P + 'tls/record.py', "body_composer.composed_length | (2 ** 15)", "body_composer.composed_length | (2 ** 14)")])
B('C07.padding-minimum', ['C07'], [(P + 'ssh/record.py', "        if padding_length < 4:", "        if padding_length < 3:")], mention=['C07.R3'])
B('C07.padding-block', ['C07'], [(P + 'ssh/record.py', "padding_length = 8 - ((payload_length + 5) % 8)", "padding_length = 8 - ((payload_length + 4) % 8)")], mention=['C07.R3'])
B('C07.packet-length', ['C07'], [(P + 'ssh/record.py', "packet_length = payload_length + padding_length + 1", "packet_length = payload_length + padding_length")], mention=['C07.R3'])
# (the former variant made the pad of negative values 00: unreachable, _compose_mpint always yields a set top bit for them)
B('C07.mpint-sign', ['C07', 'C11'], [(P + 'common/parse.py', "pad_byte = b'\\xff' if negative else b'\\x00'\n        else:\n            pad_byte = b''",
                               "pad_byte = b'\\xff' if negative else b''\n        else:\n            pad_byte = b''")], mention=['C07.R5', 'C11.R6'])
N('benign.mpint-negative-pad-unreachable', [(P + 'common/parse.py', "pad_byte = b'\\xff' if negative else b'\\x00'\n        else:\n            pad_byte = b''",
                               "pad_byte = b'\\x00'\n        else:\n            pad_byte = b''")])
B('C07.kexinit-order', ['C07', 'C16'], [(P + 'ssh/subprotocol.py',
  "    mac_algorithms_client_to_server = attr.ib(\n        converter=SshMacAlgorithmVector,\n        validator=attr.validators.instance_of(SshMacAlgorithmVector)\n    )\n    mac_algorithms_server_to_client = attr.ib(",
  "    mac_algorithms_server_to_client = attr.ib(\n        converter=SshMacAlgorithmVector,\n        validator=attr.validators.instance_of(SshMacAlgorithmVector)\n    )\n    mac_algorithms_client_to_server = attr.ib(")],
  props=['C07', 'C16', 'C01'])
B('C07.message-number', ['C07'], [(P + 'ssh/subprotocol.py', "    NEWKEYS = 0x15", "    NEWKEYS = 0x16")])
B('C08.rrsig-ttl-width-both', ['C08'], [
    (P + 'dnsrec/record.py', "        parser.parse_numeric('original_ttl', 4)", "        parser.parse_numeric('original_ttl', 2)"),
    (P + 'dnsrec/record.py', "        composer.compose_numeric(self.original_ttl, 4)", "        composer.compose_numeric(self.original_ttl, 2)")])
B('C08.keytag-fold', ['C08'], [(P + 'dnsrec/record.py', "key_tag += (key_tag >> 16) & 0xffff", "key_tag += (key_tag >> 8) & 0xffff")], mention=['C08.R3'])
B('C08.p384-size', ['C08'], [(P + 'dnsrec/record.py', "named_group = NamedGroup.SECP384R1", "named_group = NamedGroup.PRIME256V1")], mention=['C08.R4'])
B('C09.mysql-byte-order', ['C09', 'C01'], [(P + 'tls/mysql.py',
  "        composer = ComposerBinary(byte_order=ByteOrder.LITTLE_ENDIAN)\n\n        composer.compose_numeric(len(self.packet_bytes), 3)",
  "        composer = ComposerBinary()\n\n        composer.compose_numeric(len(self.packet_bytes), 3)")])
B('C09.mysql-byte-order-both', ['C09'], [
    (P + 'tls/mysql.py', "        parser = ParserBinary(parsable, byte_order=ByteOrder.LITTLE_ENDIAN)\n\n        parser.parse_numeric('packet_length', 3)",
     "        parser = ParserBinary(parsable)\n\n        parser.parse_numeric('packet_length', 3)"),
    (P + 'tls/mysql.py', "        composer = ComposerBinary(byte_order=ByteOrder.LITTLE_ENDIAN)\n\n        composer.compose_numeric(len(self.packet_bytes), 3)",
     "        composer = ComposerBinary()\n\n        composer.compose_numeric(len(self.packet_bytes), 3)")])
B('C09.flag-shift-both', ['C09'], [
    (P + 'tls/mysql.py', "parser.parse_numeric_flags('capabilities_2', 2, MySQLCapability, shift_left=16)\n        capabilities = set(", "parser.parse_numeric_flags('capabilities_2', 2, MySQLCapability, shift_left=8)\n        capabilities = set("),
    (P + 'tls/mysql.py', "composer.compose_numeric_flags(capabilities_2, 2, shift_right=16)", "composer.compose_numeric_flags(capabilities_2, 2, shift_right=8)")])
B('C09.return-sibling', ['C09'], [(P + 'tls/rdp.py', "        return cls(\n            src_ref=parser['src_ref'],", "        return COTPConnectionRequest(\n            src_ref=parser['src_ref'],")], mention=['C09.R3'])
B('C09.drop-tag-check', ['C09'], [(P + 'tls/openvpn.py', "        if parser['packet_type'] >> 3 != cls.get_op_code():\n            raise InvalidType()\n", "")], mention=['C09.R4'])
B('C09.postgres-code', ['C09'], [(P + 'tls/postgresql.py', "    REQUEST_CODE = 80877103", "    REQUEST_CODE = 80877102")])
B('C09.ldap-tag', ['C09'], [(P + 'tls/ldap.py', "{'implicit': (LDAPClass.APPLICATION.value, 24)}", "{'implicit': (LDAPClass.APPLICATION.value, 25)}")], mention=['C09.R6'])
# ---------------------------------------------------------------- C02
B('C02.drop-unicode-handler', ['C02'], [(P + 'common/parse.py',
  "        except UnicodeError as e:\n            six.raise_from(InvalidValue(value, converter, name), e)\n        except ValueError as e:\n            six.raise_from(InvalidValue(value, converter, name), e)\n\n        return value, parsable_length",
  "        except KeyError as e:\n            six.raise_from(InvalidValue(value, converter, name), e)\n\n        return value, parsable_length")])
B('C02.date-decimal-error-unhandled', ['C02'], [(P + 'common/parse.py', "        except (ValueError, OverflowError, decimal.InvalidOperation) as e:", "        except (ValueError, OverflowError) as e:")], mention='InvalidOperation')
N('benign.date-arithmetic-error-handled', [(P + 'common/parse.py', "        except (ValueError, OverflowError, decimal.InvalidOperation) as e:", "        except (ValueError, ArithmeticError) as e:")])
B('C02.lazy-certificate-property-outside-handler', ['C02'], [(P + 'ssh/key.py', "            try:\n                key_type = public_key.key_type\n            except ValueError as e:\n                six.raise_from(InvalidValue(parsable, cls, 'public_key'), e)\n", "            key_type = public_key.key_type\n")], mention='lazy.key_type')
B('C05.zoneless-date-stays-naive', ['C05'], [(P + 'common/parse.py', "            if date_time.tzinfo is None:\n                date_time = date_time.replace(tzinfo=dateutil.tz.UTC)\n            else:\n                date_time = date_time.astimezone(dateutil.tz.UTC)\n", "            if date_time.tzinfo is not None:\n                date_time = date_time.astimezone(dateutil.tz.UTC)\n")], mention='zone-less')
B('C05.date-fraction-kept', ['C05'], [(P + 'common/parse.py', "            date_time = date_time.replace(microsecond=0)\n", "")], mention='fraction')
N('benign.date-normalised-in-two-steps', [(P + 'common/parse.py', "            if date_time.tzinfo is None:\n                date_time = date_time.replace(tzinfo=dateutil.tz.UTC)\n            else:\n                date_time = date_time.astimezone(dateutil.tz.UTC)\n            date_time = date_time.replace(microsecond=0)\n", "            if date_time.tzinfo is None:\n                date_time = date_time.replace(tzinfo=dateutil.tz.UTC)\n            date_time = date_time.astimezone(dateutil.tz.UTC).replace(microsecond=0)\n")])
B('C05.json-seconds-keep-their-fraction', ['C05'], [(P + 'common/field.py', "        return cls(datetime.timedelta(seconds=int(time_delta.total_seconds())))\n", "        return cls(time_delta)\n")], mention='C05.R12')
B('C05.dns-label-limit-off-by-one', ['C05'], [(P + 'dnsrec/record.py', "parser.parsed_length - label_offset - 1 > 63 or", "parser.parsed_length - label_offset - 1 > 64 or")], mention='long-label')
B('C08.dns-label-limit-too-strict', ['C01', 'C08'], [(P + 'dnsrec/record.py', "parser.parsed_length - label_offset - 1 > 63 or", "parser.parsed_length - label_offset - 1 >= 63 or")])
N('benign.dns-label-limit-by-length-octet', [(P + 'dnsrec/record.py', "            if parser.parsed_length - label_offset - 1 > 63 or '.' in label:", "            if six.indexbytes(parsable, label_offset) >= 64 or label.find('.') >= 0:")])
B('C02.dns-label-octet-read-before-it-is-known-to-exist', ['C02'], [(P + 'dnsrec/record.py', "            label_offset = parser.parsed_length\n            parser.parse_string('label', 1, encoding='idna')\n", "            label_offset = parser.parsed_length\n            if six.indexbytes(parsable, label_offset) >= 64:\n                raise InvalidValue(parsable, cls, 'labels')\n            parser.parse_string('label', 1, encoding='idna')\n")], mention='indexbytes')
B('C05.sni-name-decoded-only', ['C05'], [(P + 'tls/extension.py', "            six.ensure_binary(host_name, 'idna')\n", "")], mention='TlsExtensionServerNameClient@accepted')
B('C05.dnskey-zero-exponent-accepted', ['C05'], [(P + 'dnsrec/record.py', "        if not key_parser['public_exponent']:\n", "        if key_parser['public_exponent'] < 0:\n")], mention='zero-exponent')
B('C08.dsa-size-parameter-floored', ['C05', 'C08'], [(P + 'dnsrec/record.py', "        size_parameter = max(0, (key_size - 64 + 7) // 8)", "        size_parameter = max(0, (key_size - 64) // 8)")], mention='short-prime')
N('benign.dsa-size-parameter-by-negated-floor', [(P + 'dnsrec/record.py', "        size_parameter = max(0, (key_size - 64 + 7) // 8)", "        size_parameter = max(0, -((64 - key_size) // 8))")])
B('C01.default-time-with-microseconds', ['C01'], [(P + 'tls/subprotocol.py', "        return datetime.datetime.utcnow().replace(microsecond=0)", "        return datetime.datetime.utcnow()")], mention='C01.R11')
B('C07.certificate-validity-read-as-plain-number', ['C07'], [(P + 'ssh/key.py', "parser.parse_timestamp('valid_before')", "parser.parse_numeric('valid_before', 8)")], props=['C07'])
B('C01.plugin-name-written-when-present', ['C01'], [(P + 'tls/mysql.py', "        if MySQLCapability.CLIENT_PLUGIN_AUTH in self.capabilities:\n            composer.compose_string_null_terminated(self.auth_plugin_name, 'ascii')", "        if self.auth_plugin_name:\n            composer.compose_string_null_terminated(self.auth_plugin_name, 'ascii')")], mention='optional[auth_plugin_name]')
B('C07.ed448-key-labelled-ed25519', ['C07'], [(P + 'ssh/key.py', "            curve_type = NamedGroup.CURVE448\n", "            curve_type = NamedGroup.CURVE25519\n")], mention='C07.R11')
N('benign.eddsa-curve-by-key-length', [(P + 'ssh/key.py', "        if parser['host_key_algorithm'].value.signature == Signature.ED448:", "        if len(parser['key_data']) == 57:")])
B('C07.principals-ascii-only', ['C07'], [(P + 'ssh/key.py', "        parser.parse_string('value', 4, 'utf-8')", "        parser.parse_string('value', 4, 'ascii')")], mention='SshString')
B('C07.ecdsa-point-by-library-helper', ['C07'], [(P + 'ssh/key.py', "        composer.compose_bytes(point_composer.composed_bytes, 4)\n", "        composer.compose_bytes(self.public_key.params.octet_bit_string, 4)\n")], mention='C07.R12')
B('C07.ecdsa-coordinate-size-floored', ['C07'], [(P + 'ssh/key.py', "        coordinate_size = (named_group.value.size + 7) // 8", "        coordinate_size = named_group.value.size // 8")], mention='C07.R12')
B('C14.infinite-fraction-accepted', ['C14'], [(P + 'common/field.py', "        if math.isnan(self.value) or math.isinf(self.value):", "        if math.isnan(self.value):")], mention='C14.R10')
N('benign.finite-fraction-by-comparison', [(P + 'common/field.py', "        if math.isnan(self.value) or math.isinf(self.value):", "        if self.value != self.value or abs(self.value) == float('inf'):")])
B('C14.markdown-returns-raw-value', ['C14'], [(P + 'common/base.py', "            if not isinstance(dict_value, dict):\n                return cls._markdown_result(dict_value, level)", "            if not isinstance(dict_value, dict):\n                return False, dict_value")], mention='C14.R11')
N('benign.markdown-text-through-local', [(P + 'common/base.py', "            if not isinstance(dict_value, dict):\n                return cls._markdown_result(dict_value, level)", "            if not isinstance(dict_value, dict):\n                rendered = cls._markdown_result(dict_value, level)\n                return rendered")])
B('C14.list-plus-loosely-validated-field', ['C14'], [(P + 'ssh/key.py', "            ('certificate_chain', [self.public_key] + list(self.issuer_certificates)),", "            ('certificate_chain', [self.public_key] + self.issuer_certificates),")], mention='C14.R12')
B('C14.json-date-in-its-own-zone', ['C14'], [(P + 'common/base.py', "            result = str(Serializable._get_date_time_in_utc(obj))", "            result = str(obj)")], mention='C14.R13')
B('C01.truth-value-field-admits-integers', ['C01'], [(P + 'ssh/subprotocol.py', "    first_kex_packet_follows = attr.ib(converter=bool, validator=attr.validators.instance_of(bool), default=False)", "    first_kex_packet_follows = attr.ib(validator=attr.validators.instance_of(six.integer_types), default=0)")], mention='C01.R13')
B('C07.trailing-comma-in-name-list-accepted', ['C07', 'C16'], [(P + 'common/parse.py', "                if not skip_empty:\n                    # a separator at the very end is followed by an empty item\n                    raise InvalidValue(self._parsable[item_offset:], type(self), name)\n                break", "                break")], mention='empty-name')
B('C18.media-subtype-case-kept', ['C18'], [(P + 'common/field.py', "        return FieldValueMimeType(parser['type'].lower(), parser['registry']), parser.parsed_length", "        return FieldValueMimeType(parser['type'], parser['registry']), parser.parsed_length")], mention='C18.R10')
B('C18.media-type-registry-case-sensitive', ['C18'], [(P + 'common/field.py', "        return MimeTypeRegistry(value.lower())", "        return MimeTypeRegistry(value)")], mention='C18.R10')
B('C18.csp-keywords-case-sensitive', ['C18'], [(P + 'httpx/header.py', "class ContentSecurityPolicySourceKeyword(StringEnumCaseInsensitiveParsable, enum.Enum):", "class ContentSecurityPolicySourceKeyword(StringEnumParsable, enum.Enum):")], mention='C18.R11')
B('C08.dnskey-coordinate-width-from-key-size', ['C05', 'C08'], [(P + 'dnsrec/record.py', "        key_size = key_params.named_group.value.size // 8\n", "        key_size = key.key_size // 8\n")], mention='record[compose]')
B('C02.unsupported-width', ['C02'], [(P + 'tls/extension.py', "        parser.parse_numeric('record_size_limit', 2)", "        parser.parse_numeric('record_size_limit', 5)")], props=['C02'])
B('C02.raw-index', ['C02'], [(P + 'tls/extension.py', "        if parser['extension_data']:\n            raise InvalidValue(parser['extension_data'], cls)",
                             "        if parser['extension_data'][0]:\n            raise InvalidValue(parser['extension_data'], cls)")])
B('C02.wrong-exception-class', ['C02'], [(P + 'tls/rdp.py', "            raise InvalidValue(parser['version'], TPKT, 'version')", "            raise ValueError(parser['version'])")])
B('C02.undefined-key', ['C02'], [(P + 'tls/openvpn.py', "            remote_session_id = parser['remote_session_id']\n        else:\n            packet_id_array = []\n            remote_session_id = None",
                                 "            remote_session_id = parser['remote_session_id']\n        else:\n            packet_id_array = []\n            remote_session_id = parser['remote_session_id']")])
B('C02.nullable-timestamp', ['C02'], [(P + 'dnsrec/record.py', "signature_inception = attr.ib(validator=attr.validators.optional(attr.validators.instance_of(datetime.datetime)))",
                                       "signature_inception = attr.ib(validator=attr.validators.instance_of(datetime.datetime))")])
B('C02.int-of-text', ['C02'], [(P + 'ssh/subprotocol.py', "        if parser.parsed_length > 255:", "        if int(parser['software_version_and_comment']) > 255:")])
# ---------------------------------------------------------------- C03 / C04
B('C03.del-one-more', ['C03'], [(P + 'common/parse.py', "        del parsable[:parsed_length]", "        del parsable[:parsed_length + 1]")])
B('C03.exact-size-ge', ['C03'], [(P + 'common/parse.py', "        if len(parsable) > parsed_length:\n            raise TooMuchData(parsed_length)", "        if len(parsable) > parsed_length + 1:\n            raise TooMuchData(parsed_length)")])
B('C03.mutate-input', ['C03'], [(P + 'tls/rdp.py', "        parser = ParserBinary(parsable)\n\n        parser.parse_numeric('version', 1)", "        parser = ParserBinary(parsable)\n        del parsable[:1]\n\n        parser.parse_numeric('version', 1)")])
B('C03.negative-size', ['C03'], [(P + 'tls/rdp.py', "        if parser['packet_length'] < cls.HEADER_SIZE:\n            raise InvalidValue(parser['packet_length'], TPKT, 'packet_length')\n", "")], mention=['C03.R4'])
B('C03.return-length-arith', ['C03'], [(P + 'tls/mysql.py', "            packet_bytes=parser['packet_bytes'],\n        ), parser.parsed_length", "            packet_bytes=parser['packet_bytes'],\n        ), parser.parsed_length - 1")])
B('C03.unchecked-advance', ['C03'], [(P + 'common/parse.py', "            if parsable_length > self.unparsed_length - item_size:\n                raise NotEnoughData(item_size + parsable_length - self.unparsed_length)\n", "")], mention=['C03.R4'])
B('C03.body-outside-length', ['C03'], [(P + 'tls/mysql.py', "        parser.parse_raw('packet_bytes', parser['packet_length'])", "        parser.parse_raw('packet_bytes', parser.unparsed_length)")], props=['C03', 'C01', 'C09', 'C04'])
B('C04.count-is-header-size', ['C04'], [(P + 'tls/record.py', "            raise NotEnoughData(cls.HEADER_SIZE - len(parsable))\n\n        parser = ParserBinary(parsable)\n\n        try:",
                                         "            raise NotEnoughData(cls.HEADER_SIZE)\n\n        parser = ParserBinary(parsable)\n\n        try:")])
B('C04.non-strict-guard', ['C04'], [(P + 'common/parse.py', "        if self.unparsed_length < size:\n            raise NotEnoughData(bytes_needed=size - self.unparsed_length)",
                                     "        if self.unparsed_length <= size:\n            raise NotEnoughData(bytes_needed=size - self.unparsed_length)")])
B('C04.swapped-operands', ['C04'], [(P + 'ssh/record.py', "raise NotEnoughData(parser['packet_length'] - parser.unparsed_length)", "raise NotEnoughData(parser.unparsed_length - parser['packet_length'])")])
B('C04.header-constant-too-big', ['C04'], [(P + 'tls/mysql.py', "class MySQLRecord(ParsableBase):\n    HEADER_SIZE = 4", "class MySQLRecord(ParsableBase):\n    HEADER_SIZE = 5")])
B('C04.reclassify-short-read', ['C04'], [(P + 'tls/subprotocol.py', "            six.raise_from(NotEnoughData(e.bytes_needed), e)", "            six.raise_from(InvalidValue(e.bytes_needed, cls), e)")])
# ---------------------------------------------------------------- C10
B('C10.duplicate-enum-value', ['C10'], [(P + 'tls/subprotocol.py', "    GOST_SIGN512 = 0x44", "    GOST_SIGN512 = 0x43")])
B('C10.factory-width', ['C10'], [(P + 'tls/ciphersuite.py', "class SslCipherKindFactory(ThreeByteEnumParsable):", "class SslCipherKindFactory(TwoByteEnumParsable):")])
B('C10.fallback-width', ['C10'], [(P + 'tls/extension.py', "            item_class=TlsNamedCurveFactory,\n            fallback_class=TlsInvalidTypeTwoByte,", "            item_class=TlsNamedCurveFactory,\n            fallback_class=TlsInvalidTypeOneByte,")])
B('C10.decoder-not-equality', ['C10'], [(P + 'common/base.py', "            if enum_item.value.code == parser['code']:\n                return enum_item, cls.get_byte_num()", "            if enum_item.value.code >= parser['code']:\n                return enum_item, cls.get_byte_num()")])
B('C10.drop-unknown-item', ['C10'], [(P + 'common/parse.py', "                else:\n                    raise ValueError(unparsed_bytes)\n\n            unparsed_bytes = unparsed_bytes[parsed_length:]\n            items.append(item)",
                                      "                else:\n                    unparsed_bytes = unparsed_bytes[1:]\n                    continue\n\n            unparsed_bytes = unparsed_bytes[parsed_length:]\n            items.append(item)")])
# ---------------------------------------------------------------- C11
B('C11.three-byte-padding-side', ['C11'], [(P + 'common/parse.py', "                        composed_bytes += packed_bytes[1:]\n                    else:\n                        composed_bytes += packed_bytes[:3]",
                                            "                        composed_bytes += packed_bytes[:3]\n                    else:\n                        composed_bytes += packed_bytes[:3]")])
B('C11.drop-range-guard', ['C11'], [(P + 'common/parse.py', "            if item_size == 3 and not 0 <= value < 2 ** 24:\n                raise InvalidValue(value, int)\n", "")])
B('C11.local-time', ['C11'], [(P + 'common/parse.py', "            timestamp = int(calendar.timegm(value.utctimetuple()))", "            timestamp = int(time.mktime(value.timetuple()))"),
                              (P + 'common/parse.py', "import struct\n", "import struct\nimport time\n")])
B('C11.sentinel-width', ['C11'], [(P + 'common/parse.py', "            timestamp = 2 ** (8 * item_size) - 1", "            timestamp = 0xffffffffffffffff")])
B('C11.struct-code-signed', ['C11'], [(P + 'common/parse.py', "    2: 'H',", "    2: 'h',")])
B('C11.flag-shift-direction', ['C11'], [(P + 'common/parse.py', "            flag |= value >> shift_right", "            flag |= value << shift_right")])
# ---------------------------------------------------------------- C12
B('C12.mutate-before-check', ['C12'], [(P + 'common/base.py', "        self._update_items_size(insert_items=(value, ))\n\n        self._items.insert(index, value)", "        self._items.insert(index, value)\n        self._update_items_size(insert_items=(value, ))")])
B('C12.wrong-edit-described', ['C12'], [(P + 'common/base.py', "        self._update_items_size(del_items=(self._items[index], ), insert_items=(value, ))\n        self._items[index] = value", "        self._update_items_size(insert_items=(value, ))\n        self._items[index] = value")])
B('C12.bound-not-strict', ['C12'], [(P + 'common/base.py', "        if self._items_size + size_diff > self.param.max_byte_num:", "        if self._items_size + size_diff >= self.param.max_byte_num + 2:")])
B('C12.prefix-from-cache', ['C12'], [(P + 'common/base.py', "        composer.compose_numeric(len(self._items) * self.param.item_size, self.param.item_num_size)", "        composer.compose_numeric(self._items_size, self.param.item_num_size)")])
B('C12.outside-writer', ['C12'], [(P + 'tls/extension.py', "    def get_item_by_type(self, extension_type):\n        try:", "    def get_item_by_type(self, extension_type):\n        self._items.sort(key=id)\n        try:")], props=['C12', 'C13'])
B('C12.ceiling-over-prefix', ['C12', 'C06'], [(P + 'tls/extension.py', "class TlsRenegotiatedConnection(Opaque):\n    @classmethod\n    def get_param(cls):\n        return OpaqueParam(\n            min_byte_num=0,\n            max_byte_num=2 ** 8 - 1,",
                                                "class TlsRenegotiatedConnection(Opaque):\n    @classmethod\n    def get_param(cls):\n        return OpaqueParam(\n            min_byte_num=0,\n            max_byte_num=2 ** 8,")])
# ---------------------------------------------------------------- C13 / C14
B('C13.compose-appends', ['C13'], [(P + 'tls/subprotocol.py', "        cipher_suites = list(self.cipher_suites)\n        if self.fallback_scsv:\n            cipher_suites.append(", "        cipher_suites = self.cipher_suites\n        if self.fallback_scsv:\n            cipher_suites.append(")])
B('C13.observer-caches-on-self', ['C13'], [(P + 'ssh/key.py', "    def fingerprints(self):\n        key_bytes = self.key_bytes", "    def fingerprints(self):\n        key_bytes = self._cached_key_bytes = self.key_bytes")])
B('C13.shared-default', ['C13'], [(P + 'tls/extension.py', "        default=attr.Factory(bytearray),", "        default=bytearray(),")])
B('C13.alias-input', ['C13'], [(P + 'tls/subprotocol.py', "        return TlsApplicationDataMessage(bytearray(parsable)), len(parsable)", "        return TlsApplicationDataMessage(parsable), len(parsable)")])
B('C14.unsorted-set', ['C14'], [(P + 'common/base.py', "                for item in sorted(obj, key=Serializable._unordered_item_sort_key)", "                for item in obj")])
B('C14.no-default-branch', ['C14'], [(P + 'common/base.py', "            result = str(Serializable._get_date_time_in_utc(obj))\n        else:\n            result = str(obj)",
                                      "            result = str(Serializable._get_date_time_in_utc(obj))\n        elif isinstance(obj, object):\n            result = str(obj)")])
# ---------------------------------------------------------------- C15 / C16 / C17 / C18 / C19
B('C15.section-order', ['C15'], [(P + 'tls/subprotocol.py', "            '-'.join(named_curves),\n            '-'.join(ec_point_formats),", "            '-'.join(ec_point_formats),\n            '-'.join(named_curves),")])
B('C15.drop-grease-filter', ['C15'], [(P + 'tls/subprotocol.py', "                    for named_curve in extension.elliptic_curves\n                    if (not isinstance(named_curve, TlsInvalidTypeTwoByte) or\n                        named_curve.value.value_type != TlsInvalidType.GREASE)\n",
                                       "                    for named_curve in extension.elliptic_curves\n")])
B('C15.hex-rendering', ['C15'], [(P + 'tls/subprotocol.py', "cipher_suites = [str(cipher_suite.value.code) for cipher_suite in self.cipher_suites]", "cipher_suites = [hex(cipher_suite.value.code) for cipher_suite in self.cipher_suites]")])
B('C16.hassh-direction', ['C16'], [(P + 'ssh/subprotocol.py', "            self.kex_algorithms,\n            self.encryption_algorithms_server_to_client,\n            self.mac_algorithms_server_to_client,",
                                    "            self.kex_algorithms,\n            self.encryption_algorithms_server_to_client,\n            self.mac_algorithms_client_to_server,")])
B('C16.separator', ['C16'], [(P + 'ssh/subprotocol.py', "        hassh_text = ';'.join([", "        hassh_text = ','.join([")])
B('C16.key-bytes-not-compose', ['C16'], [(P + 'ssh/key.py', "class SshHostKeyRSA(SshHostKeyRSABase, SshHostKeyParserBase):\n    @property\n    def key_bytes(self):\n        return self.compose()",
                                          "class SshHostKeyRSA(SshHostKeyRSABase, SshHostKeyParserBase):\n    @property\n    def key_bytes(self):\n        return self.compose()[4:]")])
B('C16.fingerprint-label', ['C16'], [(P + 'ssh/key.py', "(Hash.SHA2_256, 'SHA256'), (Hash.SHA1, 'SHA1'), (Hash.MD5, 'MD5')", "(Hash.SHA2_256, 'SHA256'), (Hash.MD5, 'SHA1'), (Hash.SHA1, 'MD5')")])
B('C17.swap-branch', ['C17'], [(P + 'tls/version.py', "            return other.version == TlsVersion.TLS1_3\n        if other.is_draft or other.is_google_experimental:\n            return self.version != TlsVersion.TLS1_3",
                                "            return other.version != TlsVersion.TLS1_3\n        if other.is_draft or other.is_google_experimental:\n            return self.version == TlsVersion.TLS1_3")])
B('C17.eq-on-identity', ['C17'], [(P + 'tls/version.py', "@attr.s(order=False, eq=False, hash=True)", "@attr.s(order=False, eq=False, hash=False)")])
B('C18.drop-lower', ['C18'], [(P + 'common/field.py', "        if name.lower() != cls.get_canonical_name().lower():\n            raise InvalidType()\n\n    @classmethod\n    def _check_name(cls, name):",
                               "        if name != cls.get_canonical_name():\n            raise InvalidType()\n\n    @classmethod\n    def _check_name(cls, name):")])
B('C18.no-skip-empty', ['C18'], [(P + 'common/field.py', "            separator_spaces=' \\t',\n            skip_empty=True", "            separator_spaces=' \\t',\n            skip_empty=False")])
B('C18.terminator-siblings', ['C18'], [(P + 'httpx/header.py', "        parser.parse_string_until_separator('value', ['\\r\\n', ])\n\n        return cls(parser['name'], parser['value'].rstrip(' \\t')), parser.parsed_length",
                                        "        parser.parse_string_until_separator('value', ['\\n', ])\n\n        return cls(parser['name'], parser['value'].rstrip(' \\t')), parser.parsed_length")])
B('C19.zero-width-item', ['C19'], [(P + 'tls/subprotocol.py', "        parser.parse_bytes('certificate', 3)\n\n        return TlsCertificate(bytes(parser['certificate'])), parser.parsed_length",
                                    "        parser.parse_raw('certificate', 0)\n\n        return TlsCertificate(bytes(parser['certificate'])), parser.parsed_length")], props=['C19'], mention=['C19.R4'])
B('C19.recursive-fallback', ['C19'], [(P + 'common/parse.py', "                    name, item_offset, separator, fallback_class, None, may_end\n                )", "                    name, item_offset, separator, fallback_class, fallback_class, may_end\n                )")])
B('C19.count-loop-without-read', ['C19'], [(P + 'ssh/key.py', "        for _ in range(parser['ocsp_response_count']):\n            parser.parse_bytes('ocsp_response', 4)\n            ocsp_responses.append(parser['ocsp_response'])",
                                            "        for _ in range(parser['ocsp_response_count']):\n            ocsp_responses.append(b'')")], props=['C19'])

# ---------------------------------------------------------------- benign variants: all 19 checks must stay silent
N('benign.reformat-everything', reformat=True)
N('benign.rename-locals', [
    (P + 'tls/record.py', "        parser = cls.parse_header(parsable)\n\n        parser.parse_raw('fragment', parser['fragment_length'])\n\n        return TlsRecord(\n            content_type=parser['content_type'],\n            protocol_version=parser['protocol_version'],\n            fragment=parser['fragment'],\n        ), parser.parsed_length",
     "        header = cls.parse_header(parsable)\n\n        header.parse_raw('fragment', header['fragment_length'])\n\n        return TlsRecord(\n            content_type=header['content_type'],\n            protocol_version=header['protocol_version'],\n            fragment=header['fragment'],\n        ), header.parsed_length")])
N('benign.flip-comparisons', [
    (P + 'tls/record.py', "        if len(parsable) < cls.HEADER_SIZE:\n            raise NotEnoughData(cls.HEADER_SIZE - len(parsable))\n\n        parser = ParserBinary(parsable)\n\n        try:",
     "        if cls.HEADER_SIZE > len(parsable):\n            raise NotEnoughData(cls.HEADER_SIZE - len(parsable))\n\n        parser = ParserBinary(parsable)\n\n        try:"),
    (P + 'common/parse.py', "        if self.unparsed_length < size:\n            raise NotEnoughData(bytes_needed=size - self.unparsed_length)",
     "        if size > self.unparsed_length:\n            raise NotEnoughData(bytes_needed=size - self.unparsed_length)"),
    (P + 'common/parse.py', "        if len(parsable) > parsed_length:\n            raise TooMuchData(parsed_length)", "        if parsed_length < len(parsable):\n            raise TooMuchData(parsed_length)")])
N('benign.bytes-vs-numeric-plus-raw', [
    (P + 'tls/record.py', "        composer.compose_bytes(self.fragment, 2)", "        composer.compose_numeric(len(self.fragment), 2)\n        composer.compose_raw(self.fragment)")])
N('benign.helper-extraction', [
    (P + 'tls/rdp.py', "        composer = ComposerBinary()\n        composer.compose_numeric(self.version, 1)\n        composer.compose_numeric(0, 1)  # reserved\n        composer.compose_numeric(len(self.message) + 4, 2)\n        composer.compose_raw(self.message)\n\n        return composer.composed_bytes",
     "        composer = self._compose_head()\n        composer.compose_raw(self.message)\n\n        return composer.composed_bytes\n\n    def _compose_head(self):\n        composer = ComposerBinary()\n        composer.compose_numeric(self.version, 1)\n        composer.compose_numeric(0, 1)  # reserved\n        composer.compose_numeric(4 + len(self.message), 2)\n        return composer")])
N('benign.reorder-independent-statements', [
    (P + 'tls/extension.py', "        payload_composer = ComposerBinary()\n\n        payload_composer.compose_numeric(self.record_size_limit, 2)\n\n        header_bytes = self._compose_header(payload_composer.composed_length)\n\n        return header_bytes + payload_composer.composed_bytes",
     "        payload_composer = ComposerBinary()\n        payload_composer.compose_numeric(self.record_size_limit, 2)\n        payload_bytes = payload_composer.composed_bytes\n        header_bytes = self._compose_header(len(payload_bytes))\n\n        return header_bytes + payload_bytes")])
N('benign.extra-enum-member', [(P + 'tls/subprotocol.py', "    HEARTBEAT = 0x18", "    HEARTBEAT = 0x18\n    TLS12_CID = 0x19")])
N('benign.new-harmless-method', [(P + 'ssh/record.py', "    def compose(self):\n        body_composer = ComposerBinary()\n        body_composer.compose_parsable(self.packet)",
                                  "    def describe(self):\n        return 'ssh record with %s' % type(self.packet).__name__\n\n    def compose(self):\n        body_composer = ComposerBinary()\n        body_composer.compose_parsable(self.packet)")])

# ---------------------------------------------------------------- variants for the rules added after the seeded changes
B('C14.timedelta-seconds', ['C14'], [(P + 'common/base.py', "return False, str(int(obj.total_seconds()))", "return False, str(obj.seconds)")], mention=['C14.R3'])
B('C14.class-state-swap', ['C14'], [(P + 'common/base.py', "                _, human_readable_name = _SerializablePlainText._markdown_result(name)",
                                     "                saved = cls.post_text_encoder\n                cls.post_text_encoder = SerializableTextEncoder()\n                try:\n                    _, human_readable_name = cls._markdown_result(name)\n                finally:\n                    cls.post_text_encoder = saved")],
  mention=['C14.R2'])
B('C11.negative-mpint-words', ['C11'], [(P + 'common/parse.py', "        bit_length = (~value).bit_length() + 1 if negative else value.bit_length()\n", "        bit_length = value.bit_length()\n")], mention=['C11.R6'])
B('C11.mpint-parse-complement', ['C11', 'C07'], [(P + 'common/parse.py', "            complement = 1 << (8 * (mpint_length + len(pad_bytes)))", "            complement = 1 << (8 * mpint_length)")], mention=['R6', 'R5'])
B('C06.ssl2-escape-bit', ['C06'], [(P + 'tls/record.py', "(parser['record_length_0'] & 0x3f)", "(parser['record_length_0'] & 0x7f)")], mention=['C06.R4'])
B('C06.ssl2-padding-in-two-byte-form', ['C06'], [(P + 'tls/record.py', "            padding_length = 0\n        else:", "            padding_length = parser['record_length_1'] & 0x07\n        else:")], mention=['C06.R4'])
B('C09.flag-registry', ['C09'], [(P + 'tls/mysql.py', "parser.parse_numeric_flags('states', 2, MySQLStatusFlag)", "parser.parse_numeric_flags('states', 2, MySQLCapability)")], mention=['binding'])
B('C10.grease-two-byte-mask', ['C10', 'C15'], [(P + 'tls/grease.py',
  "            try:\n                self.code = self.get_grease_enum().from_code(self.code).value.code\n                value_type = TlsInvalidType.GREASE\n            except InvalidValue:\n                value_type = TlsInvalidType.UNKNOWN",
  "            if self.get_byte_num() == 2 and self.code & 0x0f0f == 0x0a0a or self.get_byte_num() == 1 and self.code % 0x1f == 0x0b:\n                value_type = TlsInvalidType.GREASE\n            else:\n                value_type = TlsInvalidType.UNKNOWN")])
B('C13.vector-adopts-list', ['C13'], [(P + 'common/base.py', "        self.param = self.get_param()\n        self._items = []\n\n        for item in items:\n            self._items.append(item)\n            self._items_size += self.param.get_item_size(item)",
                                       "        self.param = self.get_param()\n        if not isinstance(items, list):\n            items = list(items)\n        self._items = items\n\n        for item in items:\n            self._items_size += self.param.get_item_size(item)")], mention=['items-container'])
B('C16.hassh-upper-hex', ['C16'], [(P + 'ssh/subprotocol.py', "return bytes_to_hex_string(message.digest(), lowercase=True)", "return bytes_to_hex_string(message.digest(), lowercase=False)")])
B('C16.hassh-sorted-names', ['C16'], [(P + 'ssh/subprotocol.py', "                for algorithm in algorithms\n            ])\n            for algorithms in algorithm_vectors",
                                       "                for algorithm in sorted(algorithms, key=str)\n            ])\n            for algorithms in algorithm_vectors")])
B('C18.strip-only-spaces', ['C18'], [(P + 'common/field.py', "            separator_spaces=' \\t',\n            skip_empty=True", "            separator_spaces=' ',\n            skip_empty=True")])
B('C19.swallowed-read-failure', ['C19'], [(P + 'ssh/key.py', "        for _ in range(parser['ocsp_response_count']):\n            parser.parse_bytes('ocsp_response', 4)\n            ocsp_responses.append(parser['ocsp_response'])",
                                           "        for _ in range(parser['ocsp_response_count']):\n            try:\n                parser.parse_bytes('ocsp_response', 4)\n            except NotEnoughData:\n                continue\n            ocsp_responses.append(parser['ocsp_response'])")], props=['C19'], mention=['idle-path'])
B('C03.ldap-forced-dump', ['C03'], [(P + 'tls/ldap.py', "        return LDAPExtendedRequestStartTLS(), len(asn1_message.dump())", "        return LDAPExtendedRequestStartTLS(), len(asn1_message.dump(force=True))")], mention=['C03.R3'])
B('C08.dns-label-codec', ['C01', 'C08'], [(P + 'dnsrec/record.py', "parser.parse_string('label', 1, encoding='idna')", "parser.parse_string('label', 1, encoding='utf-8')")])

N('benign.ssl2-header-two-single-bytes', [(P + 'tls/record.py', "        header_composer.compose_numeric(body_composer.composed_length | (2 ** 15), 2)",
                                           "        header_composer.compose_numeric(((body_composer.composed_length >> 8) & 0x7f) | 0x80, 1)\n        header_composer.compose_numeric(body_composer.composed_length & 0xff, 1)")])
N('benign.ssl2-length-by-shift', [(P + 'tls/record.py', "            record_length = ((parser['record_length_0'] & 0x7f) * (2 ** 8)) + parser['record_length_1']",
                                   "            record_length = ((parser['record_length_0'] & 0x7f) << 8) | parser['record_length_1']")])
N('benign.grease-correct-arithmetic', [(P + 'tls/grease.py',
  "            try:\n                self.code = self.get_grease_enum().from_code(self.code).value.code\n                value_type = TlsInvalidType.GREASE\n            except InvalidValue:\n                value_type = TlsInvalidType.UNKNOWN",
  "            if (self.get_byte_num() == 2 and self.code & 0x0f0f == 0x0a0a and self.code >> 8 == self.code & 0xff or\n                    self.get_byte_num() == 1 and self.code % 0x1f == 0x0b):\n                value_type = TlsInvalidType.GREASE\n            else:\n                value_type = TlsInvalidType.UNKNOWN")])
N('benign.name-check-casefold', [(P + 'common/field.py', "        if name.lower() != cls.get_canonical_name().lower():\n            raise InvalidType()\n\n    @classmethod\n    def _check_name(cls, name):",
                                  "        if name.upper() != cls.get_canonical_name().upper():\n            raise InvalidType()\n\n    @classmethod\n    def _check_name(cls, name):")])
N('benign.whitespace-rstrip-once', [(P + 'common/parse.py',
  "        separator_space_count = 0\n        byte_separator_spaces = six.ensure_binary(separator_spaces, self._encoding)\n        while (item_end > item_offset and\n                self._parsable[\n                    item_end - separator_space_count - 1:\n                    item_end - separator_space_count\n                ] in byte_separator_spaces):\n            separator_space_count += 1\n",
  "        byte_separator_spaces = six.ensure_binary(separator_spaces, self._encoding)\n        item_bytes = bytes(self._parsable[item_offset:item_end])\n        separator_space_count = len(item_bytes) - len(item_bytes.rstrip(byte_separator_spaces)) if byte_separator_spaces else 0\n")])
N('benign.epoch-via-astimezone', [(P + 'common/parse.py', "timestamp = int(calendar.timegm(value.utctimetuple()))", "timestamp = int(calendar.timegm(value.astimezone(dateutil.tz.UTC).timetuple())) if value.tzinfo else int(calendar.timegm(value.utctimetuple()))")])
N('benign.hassh-hexdigest', [(P + 'ssh/subprotocol.py', "        message = hashlib.md5()\n        message.update(six.ensure_binary(hassh_text, 'ascii'))\n\n        return bytes_to_hex_string(message.digest(), lowercase=True)",
                              "        return hashlib.md5(six.ensure_binary(hassh_text, 'ascii')).hexdigest()")])
N('benign.ldap-length-local', [(P + 'tls/ldap.py', "        return LDAPExtendedRequestStartTLS(), len(asn1_message.dump())", "        consumed = len(asn1_message.dump())\n\n        return LDAPExtendedRequestStartTLS(), consumed")])
N('benign.mpint-word-count-closed-form', [(P + 'common/parse.py', "        length = bit_length // 32\n        if bit_length % 32:\n            length += 1\n", "        length = (bit_length + 31) // 32\n")])
N('benign.vector-list-constructor', [(P + 'common/base.py', "        self.param = self.get_param()\n        self._items = []\n\n        for item in items:", "        self.param = self.get_param()\n        self._items = list()\n\n        for item in items:")])
N('benign.byte-order-polarity', [(P + 'common/parse.py', "                    if self.byte_order in [ByteOrder.BIG_ENDIAN, ByteOrder.NETWORK]:\n                        item_bytes = b'\\x00' + item_bytes\n                    else:\n                        item_bytes = item_bytes + b'\\x00'",
                                  "                    if self.byte_order in (ByteOrder.LITTLE_ENDIAN, ByteOrder.NATIVE):\n                        item_bytes = item_bytes + b'\\x00'\n                    else:\n                        item_bytes = b'\\x00' + item_bytes")])
B('C11.fixed-mpint-off-by-one', ['C11'], [(P + 'common/parse.py', "        if length < len(mpint_bytes):\n            raise InvalidValue(length, type(self), 'mpint_length')", "        if length <= len(mpint_bytes):\n            raise InvalidValue(length, type(self), 'mpint_length')")], mention=['C11.R6'])
B('C11.fixed-mpint-pad-side', ['C11'], [(P + 'common/parse.py', "        if self.byte_order in [ByteOrder.BIG_ENDIAN, ByteOrder.NETWORK]:\n            self.compose_raw((length - len(mpint_bytes)) * pad_byte)\n            self.compose_raw(mpint_bytes)\n        else:",
                                         "        if self.byte_order in [ByteOrder.LITTLE_ENDIAN]:\n            self.compose_raw((length - len(mpint_bytes)) * pad_byte)\n            self.compose_raw(mpint_bytes)\n        else:")], mention=['C11.R6'])
B('C08.keytag-little-endian', ['C08'], [(P + 'dnsrec/record.py', "parser = ParserBinary(self.compose(), byte_order=ByteOrder.BIG_ENDIAN)", "parser = ParserBinary(self.compose(), byte_order=ByteOrder.LITTLE_ENDIAN)")], mention=['C08.R3'])
B('C08.keytag-full-fold', ['C08'], [(P + 'dnsrec/record.py', "        key_tag += (key_tag >> 16) & 0xffff\n        return key_tag & 0xffff", "        while key_tag >> 16:\n            key_tag = (key_tag & 0xffff) + (key_tag >> 16)\n        return key_tag")], mention=['C08.R3'])
N('benign.keytag-rewritten', [(P + 'dnsrec/record.py', "        key_tag += (key_tag >> 16) & 0xffff\n        return key_tag & 0xffff", "        key_tag = key_tag + ((key_tag >> 16) & 0xffff)\n        return key_tag % 0x10000")])

# ---------------------------------------------------------------- variants for the rules added after the second seeded round
B('C19.cache-grows', ['C19'], [(P + 'common/base.py', "        variant_types = []\n\n        for variant_type_list in list(cls._get_variants().values()) + list(cls._get_registered_variants().values()):\n            variant_types.extend(variant_type_list)",
                                "        variant_types = cls._get_registered_variants().setdefault(None, [])\n\n        for variant_type_list in list(cls._get_variants().values()):\n            variant_types.extend(variant_type_list)")], props=['C19'], mention=['C19.R5'])
B('C04.swallow-not-enough-data', ['C04'], [(P + 'common/parse.py', "        except NotEnoughData:\n            self._parsed_length -= parsed_length\n            raise", "        except NotEnoughData:\n            self._parsed_length -= parsed_length\n            raise InvalidValue(value, type(self), name)")], mention=['C04.R5'])
B('C14.runtime-template', ['C14'], [(P + 'common/base.py', "            result += '{indent}* {name}'.format(indent=indent, name=name_dict[name])", "            result += (indent + '* ' + name_dict[name] + '{}').format('')")], mention=['C14.R5'])
B('C03.nested-length-dropped', ['C03'], [(P + 'common/parse.py', "        parsed_object, value_length = variant.parse(self._parsable[self._parsed_length:])\n\n        self._parsed_values[name] = parsed_object\n        self._parsed_length += value_length",
                                          "        parsed_object, value_length = variant.parse(self._parsable[self._parsed_length:])\n\n        self._parsed_values[name] = parsed_object\n        self._parsed_length += value_length\n\n    def parse_variant_exact(self, name, parsable_class):\n        self._parsed_values[name] = parsable_class.parse_immutable(self._parsable[self._parsed_length:])[0]\n        self._parsed_length = len(self._parsable)")], mention=['C03.R6'])
B('C02.unbounded-epoch', ['C02'], [(P + 'common/parse.py', "            try:\n                value = datetime.datetime.fromtimestamp(value, dateutil.tz.UTC)\n            except (OverflowError, ValueError, OSError) as e:\n                six.raise_from(InvalidValue(value, type(self), name), e)\n", "            value = datetime.datetime.fromtimestamp(value, dateutil.tz.UTC)\n")])
B('C02.epoch-handler-too-narrow', ['C02'], [(P + 'common/parse.py', "            except (OverflowError, ValueError, OSError) as e:\n                six.raise_from(InvalidValue(value, type(self), name), e)\n", "            except ValueError as e:\n                six.raise_from(InvalidValue(value, type(self), name), e)\n")])
B('C02.ldap-lazy-decode', ['C02'], [(P + 'tls/ldap.py', "            # ensure recursive parsing\n            message.native  # pylint: disable=pointless-statement\n", "")], mention=['eager-decode'])
B('C02.table-column-deref', ['C02'], [(P + 'dnsrec/record.py', "        if not isinstance(dnssec_algorithm.value.algorithm, Signature):\n            raise InvalidValue(dnssec_algorithm.value.algorithm, cls, 'algorithm_type')\n\n", "")], mention=['C02.R5'])
B('C10.lenient-alpn', ['C10'], [(P + 'common/base.py', "code = six.ensure_text(code_bytes, cls.get_encoding())", "code = six.ensure_text(code_bytes, cls.get_encoding(), 'ignore')")], mention=['C10.R7'])
B('C12.responder-id-floor', ['C12', 'C06'], [(P + 'tls/extension.py', "class TlsCertificateStatusRequestResponderId(Opaque):\n    @classmethod\n    def get_param(cls):\n        return OpaqueParam(\n            min_byte_num=1,", "class TlsCertificateStatusRequestResponderId(Opaque):\n    @classmethod\n    def get_param(cls):\n        return OpaqueParam(\n            min_byte_num=0,")])
B('C17.inherited-le', ['C17'], [(P + 'common/base.py', "    def _asdict(self):\n        return self.identifier\n", "    def __le__(self, other):\n        return self.compose() <= other.compose()\n\n    def _asdict(self):\n        return self.identifier\n")], mention=['C17.R3'])
B('C09.empty-nul-string', ['C09'], [(P + 'common/parse.py', "                if value == 0\n            ]))", "                if value == 0 and i\n            ]))")], mention=['C09.R7'])
B('C08.rsa-exponent-boundary', ['C08'], [(P + 'dnsrec/record.py', "        if exponent_length > 255:", "        if exponent_length >= 255:")], mention=['C08.R5'])
B('C18.set-cookie-separator-run', ['C18'], [(P + 'httpx/header.py', "            parser.parse_separator(';')\n        parser.parse_separator(' ', min_length=0)", "            parser.parse_separator(';', 1, 1)\n        parser.parse_separator(' ', min_length=0)")], mention=['C18.R5'])
B('C18.empty-value-is-absent', ['C18', 'C01', 'C05'], [(P + 'common/field.py', "            composer.compose_string(name)\n            if value is not None:", "            composer.compose_string(name)\n            if value:")], mention=['R4', 'R7', 'R5'])
B('C19.remove-in-loop', ['C19'], [(P + 'tls/subprotocol.py', "            else:\n                cipher_suites.append(cipher_suite)", "            else:\n                cipher_suites.append(cipher_suite)\n                if cipher_suites.count(cipher_suite) > 1:\n                    cipher_suites.pop()")], props=['C19'], mention=['C19.R6'])
B('C01.mysql-length-byte', ['C01'], [(P + 'tls/mysql.py', "            auth_plugin_data_len = 8\n            if self.auth_plugin_data_2:\n                auth_plugin_data_len += len(self.auth_plugin_data_2)", "            auth_plugin_data_len = 0\n            if self.auth_plugin_data_2:\n                auth_plugin_data_len = 8 + len(self.auth_plugin_data_2)")], mention=['link'])
B('C07.version-until-separator', ['C07'], [(P + 'ssh/version.py', "            parser.parse_separator(version_separator)\n            parser.parse_string_by_length('version')", "            parser.parse_separator(version_separator)\n            parser.parse_string_until_separator_or_end('version', version_separator)")], mention=['C07.R7'])

N('benign.variant-types-memoised', [(P + 'common/base.py', "    _REGISTERED_VARIANTS = OrderedDict()\n", "    _REGISTERED_VARIANTS = OrderedDict()\n    _STATIC_VARIANT_TYPES = {}\n"),
                                   (P + 'common/base.py', "        variant_types = []\n\n        for variant_type_list in list(cls._get_variants().values()) + list(cls._get_registered_variants().values()):\n            variant_types.extend(variant_type_list)",
                                    "        if cls not in cls._STATIC_VARIANT_TYPES:\n            cls._STATIC_VARIANT_TYPES[cls] = [t for ts in cls._get_variants().values() for t in ts]\n        variant_types = list(cls._STATIC_VARIANT_TYPES[cls])\n\n        for variant_type_list in cls._get_registered_variants().values():\n            variant_types.extend(variant_type_list)")])
N('benign.bounded-window-by-local', [(P + 'common/parse.py', "        unparsed_bytes = self._parsable[self._parsed_length:self._parsed_length + items_size]\n", "        items_end = self._parsed_length + items_size\n        unparsed_bytes = self._parsable[self._parsed_length:items_end]\n")])
N('benign.explicit-le', [(P + 'tls/version.py', "    def __lt__(self, other):\n        if not isinstance(other, TlsProtocolVersion):", "    def __le__(self, other):\n        if not isinstance(other, TlsProtocolVersion):\n            return NotImplemented\n\n        return self < other or self == other\n\n    def __lt__(self, other):\n        if not isinstance(other, TlsProtocolVersion):")])
N('benign.nul-string-by-find', [(P + 'common/parse.py', "        try:\n            length = next(iter([\n                i\n                for i, value in enumerate(six.iterbytes(self._parsable[self._parsed_length:]))\n                if value == 0\n            ]))\n        except StopIteration as e:\n            six.raise_from(InvalidValue(self._parsable[self._parsed_length:], str, name), e)\n",
                                 "        length = bytes(self._parsable).find(b'\\x00', self._parsed_length) - self._parsed_length\n        if length < 0:\n            raise InvalidValue(self._parsable[self._parsed_length:], str, name)\n")])
N('benign.rsa-exponent-branch-order', [(P + 'dnsrec/record.py', "        if exponent_length > 255:\n            key_composer.compose_numeric(0, 1)\n            key_composer.compose_numeric(exponent_length, 2)\n        else:\n            key_composer.compose_numeric(exponent_length, 1)",
                                         "        if exponent_length <= 0xff:\n            key_composer.compose_numeric(exponent_length, 1)\n        else:\n            key_composer.compose_numeric(0, 1)\n            key_composer.compose_numeric(exponent_length, 2)")])
N('benign.pair-composer-restructured', [(P + 'common/field.py', "        composer.compose_string(self.name)\n        if self.value is not None:\n            composer.compose_separator(self.get_separator())\n            if self.quoted:\n                composer.compose_separator('\"')\n            composer.compose_string(self.value)\n            if self.quoted:\n                composer.compose_separator('\"')\n",
                                          "        composer.compose_string(self.name)\n        if self.value is None:\n            return composer.composed\n\n        quote = '\"' if self.quoted else ''\n        composer.compose_separator(self.get_separator())\n        composer.compose_string(quote + self.value + quote)\n")])
N('benign.epoch-handler-order', [(P + 'common/parse.py', "            except (OverflowError, ValueError, OSError) as e:\n                six.raise_from(InvalidValue(value, type(self), name), e)\n", "            except (OSError, OverflowError, ValueError) as error:\n                six.raise_from(InvalidValue(value, type(self), name), error)\n")])
N('benign.reraise-explicit', [(P + 'common/parse.py', "        except NotEnoughData:\n            self._parsed_length -= parsed_length\n            raise", "        except NotEnoughData as e:\n            self._parsed_length -= parsed_length\n            raise e")])

N('benign.ja3-rewritten', [(P + 'tls/subprotocol.py', '        extension_types = []\n        named_curves = []\n        ec_point_formats = []\n        for extension in self.extensions:\n            if (not isinstance(extension.extension_type, TlsInvalidTypeTwoByte) or\n                    extension.extension_type.value.value_type != TlsInvalidType.GREASE):\n                extension_types.append(str(extension.extension_type.value.code))\n\n            if extension.extension_type == TlsExtensionType.SUPPORTED_GROUPS:\n                named_curves = [\n                    str(named_curve.value.code)\n                    for named_curve in extension.elliptic_curves\n                    if (not isinstance(named_curve, TlsInvalidTypeTwoByte) or\n                        named_curve.value.value_type != TlsInvalidType.GREASE)\n                ]\n            elif extension.extension_type == TlsExtensionType.EC_POINT_FORMATS:\n                ec_point_formats = [\n                    str(point_format.value.code)\n                    for point_format in extension.point_formats\n                    if (not isinstance(point_format, TlsInvalidTypeOneByte) or\n                        point_format.value.value_type != TlsInvalidType.GREASE)\n                ]\n\n', '        extension_types = [\n            str(extension.extension_type.value.code)\n            for extension in self.extensions\n            if not (isinstance(extension.extension_type, TlsInvalidTypeTwoByte) and\n                    extension.extension_type.value.value_type == TlsInvalidType.GREASE)\n        ]\n        named_curves = []\n        ec_point_formats = []\n        try:\n            groups = self.extensions.get_item_by_type(TlsExtensionType.SUPPORTED_GROUPS)\n        except KeyError:\n            pass\n        else:\n            named_curves = [\n                str(named_curve.value.code)\n                for named_curve in groups.elliptic_curves\n                if (not isinstance(named_curve, TlsInvalidTypeTwoByte) or\n                    named_curve.value.value_type != TlsInvalidType.GREASE)\n            ]\n        try:\n            formats = self.extensions.get_item_by_type(TlsExtensionType.EC_POINT_FORMATS)\n        except KeyError:\n            pass\n        else:\n            ec_point_formats = [\n                str(point_format.value.code)\n                for point_format in formats.point_formats\n                if (not isinstance(point_format, TlsInvalidTypeOneByte) or\n                    point_format.value.value_type != TlsInvalidType.GREASE)\n            ]\n\n')])
B('C11.timestamp-ms-scale', ['C11'], [(P + 'common/parse.py', "                timestamp *= 1000\n                timestamp += value.microsecond // 1000", "                timestamp *= 1000\n                timestamp += value.microsecond // 100")], mention=['C11.R5'])
B('C11.flags-and-instead-of-or', ['C11'], [(P + 'common/parse.py', "            flag |= value >> shift_right", "            flag ^= value >> shift_right\n            flag |= 0")] if False else [(P + 'common/parse.py', "            if flag & (value[0] << shift_left)\n", "            if flag == (value[0] << shift_left)\n")], mention=['C11.R4'])
N('benign.flags-loop-rewritten', [(P + 'common/parse.py', "        flag = 0\n        for value in values:\n            flag |= value >> shift_right\n", "        flag = 0\n        for value in values:\n            flag = flag | (value >> shift_right)\n")])


# ---------------------------------------------------------------- round 3 rules, both ways
B('C19.rescan-accumulator', ['C19'], [(P + 'dnsrec/txt.py', "            terms.append(term)\n            del parser['term']\n",
   "            terms.append(term)\n            if sum(1 for parsed in terms if type(parsed) is type(term)) > 64:\n                raise InvalidValue(parser['term'], cls, 'terms')\n            del parser['term']\n")],
  mention=['rescan'])
N('benign.len-of-accumulator-in-loop', [(P + 'dnsrec/txt.py', "            terms.append(term)\n            del parser['term']\n",
   "            terms.append(term)\n            term_count = len(terms)\n            del parser['term']\n            del term_count\n")])
B('C04.gate-on-one-branch', ['C04', 'C03'], [(P + 'tls/mysql.py', "        parser.parse_raw('packet_bytes', parser['packet_length'])\n\n        return MySQLRecord(\n            packet_number=parser['packet_number'],\n            packet_bytes=parser['packet_bytes'],\n        ), parser.parsed_length",
   "        if parser['packet_number']:\n            parser.parse_raw('packet_bytes', parser['packet_length'])\n            packet_bytes, parsed_length = parser['packet_bytes'], parser.parsed_length\n        else:\n            packet_bytes = parser.unparsed[:parser['packet_length']]\n            parsed_length = parser.parsed_length + len(packet_bytes)\n\n        return MySQLRecord(\n            packet_number=parser['packet_number'],\n            packet_bytes=packet_bytes,\n        ), parsed_length")],
  mention=['some-path'])
N('benign.gate-on-both-branches', [(P + 'tls/mysql.py', "        parser.parse_raw('packet_bytes', parser['packet_length'])\n\n        return MySQLRecord(",
   "        if parser['packet_number']:\n            parser.parse_raw('packet_bytes', parser['packet_length'])\n        else:\n            parser.parse_raw('packet_bytes', parser['packet_length'])\n\n        return MySQLRecord(")])
B('C02.flags-convert-any-bit', ['C02', 'C11'], [(P + 'common/parse.py', "        value = {\n            flags_class(flag & (value[0] << shift_left))\n            for flag in flags_class\n            if flag & (value[0] << shift_left)\n        }\n",
   "        word = value[0] << shift_left\n        value = {flags_class(1 << bit) for bit in range(word.bit_length()) if word >> bit & 1}\n")])
N('benign.flags-loop-form', [(P + 'common/parse.py', "        value = {\n            flags_class(flag & (value[0] << shift_left))\n            for flag in flags_class\n            if flag & (value[0] << shift_left)\n        }\n",
   "        word = value[0] << shift_left\n        value = set()\n        for flag in flags_class:\n            if flag & word:\n                value.add(flags_class(flag & word))\n")])
B('C05.compose-edits-own-vector', ['C05', 'C13'], [(P + 'tls/subprotocol.py', "        cipher_suites = list(self.cipher_suites)\n", "        cipher_suites = self.cipher_suites\n")])
N('benign.compose-copies-by-slice', [(P + 'tls/subprotocol.py', "        cipher_suites = list(self.cipher_suites)\n", "        cipher_suites = [cipher_suite for cipher_suite in self.cipher_suites]\n")])
B('C07.prefix-from-cached-size', ['C07', 'C01', 'C12'], [(P + 'common/base.py', "        header_composer.compose_numeric(body_composer.composed_length, self.param.item_num_size)",
   "        header_composer.compose_numeric(self._items_size, self.param.item_num_size)")])
N('benign.prefix-from-len-of-bytes', [(P + 'common/base.py', "        header_composer.compose_numeric(body_composer.composed_length, self.param.item_num_size)",
   "        header_composer.compose_numeric(len(body_composer.composed_bytes), self.param.item_num_size)")])
B('C15.extension-rejects-more', ['C15', 'C06'], [(P + 'tls/extension.py', "        parser.parse_raw('padding', parser['extension_length'])\n        try:",
   "        parser.parse_raw('padding', parser['extension_length'])\n        if parser['extension_length'] % 2:\n            raise InvalidValue(parser['extension_length'], cls, 'extension_length')\n        try:")])
B('C13.swap-restore-on-cls', ['C13', 'C14'], [(P + 'common/base.py', "                _, human_readable_name = _SerializablePlainText._markdown_result(name)",
   "                saved, cls.post_text_encoder = cls.post_text_encoder, SerializableTextEncoder()\n                try:\n                    _, human_readable_name = cls._markdown_result(name)\n                finally:\n                    cls.post_text_encoder = saved")])
B('C08.timestamp-local-tuple', ['C08', 'C06', 'C07', 'C11'], [(P + 'common/parse.py', "value.utctimetuple()", "value.timetuple()")])
B('C01.eq-ignores-field', ['C01'], [(P + 'tls/extension.py', "    record_size_limit = attr.ib(validator=attr.validators.instance_of(int))",
   "    record_size_limit = attr.ib(eq=False, validator=attr.validators.instance_of(int))")], mention=['equality'])
B('C01.identity-equality', ['C01'], [(P + 'tls/openvpn.py', "@attr.s\nclass OpenVpnPacketWrapperTcp(ParsableBase):\n    payload = attr.ib()\n",
   "class OpenVpnPacketWrapperTcp(ParsableBase):\n    def __init__(self, payload):\n        self.payload = payload\n")], mention=['equality'])
N('benign.explicit-eq-over-dict', [(P + 'tls/openvpn.py', "@attr.s\nclass OpenVpnPacketWrapperTcp(ParsableBase):\n    payload = attr.ib()\n",
   "class OpenVpnPacketWrapperTcp(ParsableBase):\n    def __init__(self, payload):\n        self.payload = payload\n\n    def __eq__(self, other):\n        return type(self) is type(other) and self.__dict__ == other.__dict__\n\n    def __hash__(self):\n        return hash(bytes(self.payload))\n")])
B('C17.eq-reads-foreign-operand', ['C17'], [(P + 'tls/version.py', "    def __eq__(self, other):\n        if not isinstance(other, TlsProtocolVersion):\n            return NotImplemented\n\n", "    def __eq__(self, other):\n")], mention=['foreign-operand'])
N('benign.eq-guard-by-attribute-error', [(P + 'tls/version.py', "    def __eq__(self, other):\n        if not isinstance(other, TlsProtocolVersion):\n            return NotImplemented\n\n        return self.version.value.code == other.version.value.code\n",
   "    def __eq__(self, other):\n        try:\n            return self.version.value.code == other.version.value.code\n        except AttributeError:\n            return NotImplemented\n")])
B('C07.parsed-field-dropped', ['C07'], [(P + 'ssh/subprotocol.py', "            body_parser['gex_min'],\n            body_parser['gex_number'],\n            body_parser['gex_max'],", "            body_parser['gex_max'],\n            body_parser['gex_number'],\n            body_parser['gex_max'],")], mention=['gex_min'])
B('C08.rrsig-times-swapped-both-sides', ['C08'], [
    (P + 'dnsrec/record.py', "        parser.parse_timestamp('signature_expiration', item_size=4)\n        parser.parse_timestamp('signature_inception', item_size=4)", "        parser.parse_timestamp('signature_inception', item_size=4)\n        parser.parse_timestamp('signature_expiration', item_size=4)"),
    (P + 'dnsrec/record.py', "        composer.compose_timestamp(self.signature_expiration, item_size=4)\n        composer.compose_timestamp(self.signature_inception, item_size=4)", "        composer.compose_timestamp(self.signature_inception, item_size=4)\n        composer.compose_timestamp(self.signature_expiration, item_size=4)")],
  mention=['signature_'])
B('C03.ldap-indefinite-length-accepted', ['C03'], [(P + 'tls/ldap.py', "        if bytes(parsable[1:2]) == b'\\x80':\n", "        if bytes(parsable[1:2]) == b'\\x81':\n")], mention=['indefinite'])
N('benign.ldap-indefinite-by-index', [(P + 'tls/ldap.py', "        if bytes(parsable[1:2]) == b'\\x80':\n", "        if len(parsable) > 1 and bytearray(parsable)[1] == 0x80:\n")])
B('C02.index-guard-off-by-one', ['C02'], [(P + 'tls/ldap.py', "        if bytes(parsable[1:2]) == b'\\x80':\n", "        if len(parsable) > 0 and bytearray(parsable)[1] == 0x80:\n")], mention=['IndexError'])
_GREASE_OLD = "            try:\n                self.code = self.get_grease_enum().from_code(self.code).value.code\n                value_type = TlsInvalidType.GREASE\n            except InvalidValue:\n                value_type = TlsInvalidType.UNKNOWN\n        self.value = self.get_param_class()(self.code, value_type)\n"
_GREASE_MEMO = "            value_type = self._value_type_of(self.code)\n        self.value = self.get_param_class()(self.code, value_type)\n\n    _VALUE_TYPES = {}\n\n    @classmethod\n    def _value_type_of(cls, code):\n        if %s not in cls._VALUE_TYPES:\n            try:\n                cls.get_grease_enum().from_code(code)\n                value_type = TlsInvalidType.GREASE\n            except InvalidValue:\n                value_type = TlsInvalidType.UNKNOWN\n            cls._VALUE_TYPES[%s] = value_type\n        return cls._VALUE_TYPES[%s]\n"
N('benign.grease-memo-keyed-by-class-and-code', [(P + 'tls/grease.py', _GREASE_OLD, _GREASE_MEMO % ('(cls, code)', '(cls, code)', '(cls, code)'))])
B('C15.grease-memo-keyed-by-code-only', ['C15', 'C19'], [(P + 'tls/grease.py', _GREASE_OLD, _GREASE_MEMO % ('code', 'code', 'code'))], mention=['_VALUE_TYPES'])
B('C10.grease-helper-wrong-mask', ['C10', 'C15'], [(P + 'tls/grease.py', _GREASE_OLD, "            value_type = self._value_type_of(self.code)\n        self.value = self.get_param_class()(self.code, value_type)\n\n    @classmethod\n    def _value_type_of(cls, code):\n        if code & 0x0f == 0x0a and (code >> 8) & 0x0f in (0x0a, 0x00):\n            return TlsInvalidType.GREASE\n        return TlsInvalidType.UNKNOWN\n")], mention=['grease-decision'])
B('C09.tpkt-version-not-enforced', ['C09'], [(P + 'tls/rdp.py', "        if parser['version'] != 3:", "        if parser['version'] > 3:")], mention=['TPKT version'])
B('C02.directive-popped-without-membership', ['C02'], [(P + 'common/field.py',
  "            if attr_to_component_name_dict[name].get_canonical_name() in components:\n                parsable = components.pop(attr_to_component_name_dict[name].get_canonical_name())",
  "            if True:\n                parsable = components.pop(attr_to_component_name_dict[name].get_canonical_name())")], mention=['KeyError'])
B('C18.first-directive-only', ['C18'], [(P + 'common/field.py',
  "                else:\n                    components[attr_to_component_name_dict[name].get_canonical_name()] = components.pop(component)\n                    break\n",
  "                else:\n                    components[attr_to_component_name_dict[name].get_canonical_name()] = components.pop(component)\n                    break\n                break\n")],
  mention=['C18.R3'])
B('C10.derived-items-prepended', ['C10'], [(P + 'common/parse.py', "            unparsed_bytes = unparsed_bytes[parsed_length:]\n            items.append(item)\n\n        return items, items_size",
                                             "            unparsed_bytes = unparsed_bytes[parsed_length:]\n            items.insert(0, item)\n\n        return items, items_size")], mention=['C10.R4'])
B('C03.text-item-stops-early', ['C03'], [(P + 'common/classes.py', "        parser.parse_string_array('tags', '-')\n", "        parser.parse_string_array('tags', '-', max_item_num=3)\n")], mention=['LanguageTag'])
_CHAIN_OLD = "        certificates = []\n        for _ in range(parser['certificate_count']):"
N('benign.chain-count-checked-before-loop', [(P + 'ssh/key.py', _CHAIN_OLD, "        if not parser['certificate_count']:\n            raise InvalidValue(parser['certificate_count'], cls, 'certificate_count')\n" + _CHAIN_OLD),
                                               (P + 'ssh/key.py', "        if not certificates:\n            raise InvalidValue(parser['certificate_count'], cls, 'certificate_count')\n", "")])
B('C02.chain-count-unchecked', ['C02'], [(P + 'ssh/key.py', "        if not certificates:\n            raise InvalidValue(parser['certificate_count'], cls, 'certificate_count')\n", "")], mention=['IndexError'])
B('C19.scan-from-start-of-input', ['C19'], [(P + 'common/parse.py', "        for separator_end in range(item_offset, len(self._parsable) + 1):\n            for separator in byte_separators:\n                if self._parsable[item_offset:separator_end].endswith(separator):",
                                              "        for separator_end in range(0, len(self._parsable) + 1):\n            for separator in byte_separators:\n                if separator_end >= item_offset and self._parsable[item_offset:separator_end].endswith(separator):")], mention=['C19.R3'])

# ---------------------------------------------------------------- mechanical whole-package transformations (sa/selftest_transforms.py)
for _t in ('swap-if-branches', 'return-via-local', 'nested-if-for-and', 'expand-augassign', 'flip-order-comparisons', 'split-pair-unpacking',
           'ifexp-to-statement', 'early-exit', 'while-true', 'condition-via-local', 'negated-membership', 'tuple-return-via-locals',
           'keyword-arguments', 'comprehension-to-loop'):
    N('benign.mech.' + _t, transform=_t)
B('C03.exact-size-accepts-one-extra-byte', ['C03'], [(P + 'common/parse.py', "        if len(parsable) > parsed_length:\n            raise TooMuchData(parsed_length)",
                                                       "        if len(parsable) > parsed_length + 1:\n            raise TooMuchData(parsed_length)")], mention=['C03.R1'])
N('benign.entry-points-delegate', [(P + 'common/parse.py', "    def parse_mutable(cls, parsable):\n        parsed_object, parsed_length = cls._parse(parsable)\n",
                                     "    def parse_mutable(cls, parsable):\n        parsed_object, parsed_length = cls.parse_immutable(parsable)\n"),
                                    (P + 'common/parse.py', "    def parse_exact_size(cls, parsable):\n        parsed_object, parsed_length = cls._parse(parsable)\n        if len(parsable) > parsed_length:\n",
                                     "    def parse_exact_size(cls, parsable):\n        parsed_object, parsed_length = cls.parse_immutable(parsable)\n        has_trailing_data = len(parsable) > parsed_length\n        if has_trailing_data:\n")])
B('C03.parse-parsable-advance-without-prefix', ['C03'], [(P + 'common/parse.py', "            parsed_length = item_size + parsable_length\n", "            parsed_length = parsable_length\n")], mention=['C03.R4'])
B('C02.mpint-sign-octet-before-availability-check', ['C02'], [(P + 'common/parse.py',
  "        if mpint_length > self.unparsed_length - 4:\n            raise NotEnoughData(bytes_needed=mpint_length + 4 - self.unparsed_length)\n\n        negative = (mpint_length and (six.indexbytes(self._parsable, self._parsed_length + 4) >= 0x80))\n",
  "        negative = (mpint_length and (six.indexbytes(self._parsable, self._parsed_length + 4) >= 0x80))\n\n        if mpint_length > self.unparsed_length - 4:\n            raise NotEnoughData(bytes_needed=mpint_length + 4 - self.unparsed_length)\n")], mention=['IndexError'])
B('C08.name-without-root-label', ['C01', 'C08'], [(P + 'dnsrec/record.py', "            composer.compose_string(label, 'idna', 1)\n\n        composer.compose_numeric(0, 1)\n", "            composer.compose_string(label, 'idna', 1)\n")], mention=['codec'])
# a decoded field that reaches no argument of the constructed object (keyword dictionary built from a name tuple that leaves one out)
_SH_RET = ("        return TlsHandshakeServerHello(\n            protocol_version=parser['protocol_version'],\n            random=parser['random'],\n"
           "            session_id=parser['session_id'],\n            compression_method=parser['compression_method'],\n"
           "            cipher_suite=parser['cipher_suite'],\n"
           "            extensions=parser['extensions'] if extension_parser else TlsExtensionsServer([]),\n        ), handshake_header_parser.parsed_length")
B('C10.keyword-dict-leaves-field-out', ['C10', 'C01'], [(P + 'tls/subprotocol.py', _SH_RET,
  "        params = {name: parser[name] for name in ('protocol_version', 'random', 'session_id', 'cipher_suite')}\n"
  "        params['extensions'] = parser['extensions'] if extension_parser else TlsExtensionsServer([])\n"
  "        return TlsHandshakeServerHello(**params), handshake_header_parser.parsed_length")], mention=['C10.R11', 'compression_method'])
N('benign.keyword-dict-complete', [(P + 'tls/subprotocol.py', _SH_RET,
  "        params = {name: parser[name] for name in ('protocol_version', 'random', 'session_id', 'cipher_suite', 'compression_method')}\n"
  "        params['extensions'] = parser['extensions'] if extension_parser else TlsExtensionsServer([])\n"
  "        return TlsHandshakeServerHello(**params), handshake_header_parser.parsed_length")])
# extension dispatch tables: a type with side specific bodies handed to the structure of the other side
B('C06.dispatch-other-side', ['C06'], [(P + 'tls/extension.py',
  "            (TlsExtensionType.SIGNED_CERTIFICATE_TIMESTAMP, [TlsExtensionSignedCertificateTimestampServer, ]),",
  "            (TlsExtensionType.SIGNED_CERTIFICATE_TIMESTAMP, [TlsExtensionSignedCertificateTimestampClient, ]),")], mention=['C06.R8'])
B('C06.dispatch-status-request-side', ['C06'], [(P + 'tls/extension.py',
  "            (TlsExtensionType.STATUS_REQUEST, [TlsExtensionCertificateStatusRequestClient, ]),",
  "            (TlsExtensionType.STATUS_REQUEST, [TlsExtensionCertificateStatusRequestServer, ]),")], mention=['C06.R8'])
N('benign.dispatch-shared-entries', [(P + 'tls/extension.py',
  "        return collections.OrderedDict([\n            (TlsExtensionType.APPLICATION_LAYER_PROTOCOL_NEGOTIATION,\n                [TlsExtensionApplicationLayerProtocolNegotiation, ]),\n            (TlsExtensionType.CHANNEL_ID, [TlsExtensionChannelId, ]),\n            (TlsExtensionType.EC_POINT_FORMATS, [TlsExtensionECPointFormats, ]),",
  "        return collections.OrderedDict([\n            (TlsExtensionType.APPLICATION_LAYER_PROTOCOL_NEGOTIATION,\n                [TlsExtensionApplicationLayerProtocolNegotiation, ]),\n        ] + [\n            (TlsExtensionType.CHANNEL_ID, [TlsExtensionChannelId, ]),\n            (TlsExtensionType.EC_POINT_FORMATS, [TlsExtensionECPointFormats, ]),")])
# a constant written in place of an attribute for some of its values (no lower bound of validity composed as the epoch, not the sentinel)
B('C11.constant-in-place-of-none', ['C11', 'C07', 'C01'], [(P + 'ssh/key.py', "        composer.compose_timestamp(self.valid_after)\n",
  "        composer.compose_timestamp(datetime.datetime(1970, 1, 1) if self.valid_after is None else self.valid_after)\n")],
  mention=['C11.R8', 'valid_after'])
N('benign.validity-helper', [(P + 'ssh/key.py', "        composer.compose_timestamp(self.valid_after)\n        composer.compose_timestamp(self.valid_before)\n",
  "        for moment in (self.valid_after, self.valid_before):\n            composer.compose_timestamp(moment)\n")])
# a mutable container in the class body as the fallback of an attribute the initialiser binds only on some paths
_LT_INIT = ("    def __init__(self, primary_subtag, subsequent_subtags=()):\n        self._primary_subtag = None\n        self._subsequent_subtags = None\n\n"
            "        self.primary_subtag = primary_subtag\n        self.subsequent_subtags = subsequent_subtags\n")
B('C13.class-level-list-fallback', ['C13'], [(P + 'common/classes.py', _LT_INIT,
  "    _primary_subtag = None\n    _subsequent_subtags = []\n\n    def __init__(self, primary_subtag, subsequent_subtags=None):\n"
  "        self.primary_subtag = primary_subtag\n        if subsequent_subtags is not None:\n            self.subsequent_subtags = subsequent_subtags\n")],
  mention=['C13.R6', '_subsequent_subtags'])
N('benign.class-level-list-always-rebound', [(P + 'common/classes.py', _LT_INIT,
  "    _primary_subtag = None\n    _subsequent_subtags = []\n\n    def __init__(self, primary_subtag, subsequent_subtags=()):\n"
  "        self.primary_subtag = primary_subtag\n        self.subsequent_subtags = subsequent_subtags\n")])
# the native value of an OPTIONAL ASN.1 field used as a container without a test (None for a version 1 certificate)
_SCT_LOOP = "        for extension in self._certificate['tbs_certificate']['extensions']:\n            if extension['extn_id'].dotted == '1.3.6.1.4.1.11129.2.4.2':\n"
B('C14.optional-asn1-field-native', ['C14'], [(P + 'common/x509.py', _SCT_LOOP,
  "        for extension in self._certificate['tbs_certificate']['extensions'].native:\n            if extension['extn_id'] == 'signed_certificate_timestamp_list':\n")],
  mention=['C14.R14', 'extensions'])
N('benign.optional-asn1-field-tested', [(P + 'common/x509.py', _SCT_LOOP,
  "        extensions = self._certificate['tbs_certificate']['extensions']\n        if extensions.native is None:\n            return SignedCertificateTimestampList([])\n"
  "        for extension in extensions:\n            if extension['extn_id'].dotted == '1.3.6.1.4.1.11129.2.4.2':\n")])
# a factory that overrides the generic decoder: evaluated with the real enumeration and the integers the class mentions
_NC_FACTORY = "class TlsNamedCurveFactory(TwoByteEnumParsable):\n    @classmethod\n    def get_enum_class(cls):\n        return TlsNamedCurve\n"
B('C10.factory-override-aliases-codes', ['C10', 'C15'], [(P + 'tls/algorithm.py', _NC_FACTORY, _NC_FACTORY +
  "\n    @classmethod\n    def _parse(cls, parsable):\n        if bytes(parsable[:2]) == b'\\x00\\x1f':\n            return TlsNamedCurve.BRAINPOOLP256R1, 2\n"
  "        return super(TlsNamedCurveFactory, cls)._parse(parsable)\n")], mention=['override', '0x1f'])
N('benign.factory-override-delegates', [(P + 'tls/algorithm.py', _NC_FACTORY, _NC_FACTORY +
  "\n    @classmethod\n    def _parse(cls, parsable):\n        named_curve, parsed_length = super(TlsNamedCurveFactory, cls)._parse(parsable)\n"
  "        return named_curve, parsed_length\n")])
# a vector composer that writes its items sorted: the parser keeps wire order (fingerprints are taken over the composed blob)
B('C16.vector-composed-sorted', ['C16', 'C01'], [(P + 'common/base.py',
  "    def compose(self):\n        body_composer = ComposerBinary()\n        body_composer.compose_parsable_array(self._items)\n\n        header_composer = ComposerBinary()\n        header_composer.compose_numeric(body_composer.composed_length, self.param.item_num_size)\n\n        return header_composer.composed_bytes + body_composer.composed_bytes\n\n\nclass VectorEnumCodeNumeric",
  "    def compose(self):\n        body_composer = ComposerBinary()\n        body_composer.compose_parsable_array(sorted(self._items, key=lambda item: item.compose()))\n\n        header_composer = ComposerBinary()\n        header_composer.compose_numeric(body_composer.composed_length, self.param.item_num_size)\n\n        return header_composer.composed_bytes + body_composer.composed_bytes\n\n\nclass VectorEnumCodeNumeric")],
  mention=['wire order'])
# quoted components: the class must accept the quoted spelling it writes (the base64 decoder used to drop the quotes silently)
B('C18.base64-component-strict', ['C18'], [(P + 'common/field.py', "        return Base64Data(base64.b64decode(value))",
  "        return Base64Data(base64.b64decode(value, validate=True))")], mention=['C18.R12', 'composed'])
N('benign.base64-component-strips-quotes', [(P + 'common/field.py', "        return Base64Data(base64.b64decode(value))",
  "        return Base64Data(base64.b64decode(value.strip('\"'), validate=True))")])
# a separator run that is counted from each of its positions (the count is thrown away, the offset advances by one)
B('C19.separator-run-recounted', ['C19'], [(P + 'common/parse.py',
  "            item_offset += self._check_separators(name, item_offset, separator, 1, max_separator_count)\n",
  "            self._check_separators(name, item_offset, separator, 1, max_separator_count)\n            item_offset += 1\n")],
  mention=['C19.R9', 'separator-run'])
N('benign.separator-count-named', [(P + 'common/parse.py',
  "            item_offset += self._check_separators(name, item_offset, separator, 1, max_separator_count)\n",
  "            separator_count = self._check_separators(name, item_offset, separator, 1, max_separator_count)\n            item_offset += separator_count\n")])
# the renegotiation SCSV written only for a hello without extensions: the flag of a hello that has some does not survive compose / parse
B('C06.scsv-depends-on-extensions', ['C06', 'C05', 'C01'], [(P + 'tls/subprotocol.py', "        if self.empty_renegotiation_info_scsv:\n",
  "        if self.empty_renegotiation_info_scsv and not len(self.extensions):\n")], mention=['C06.R9', 'EMPTY_RENEGOTIATION_INFO_SCSV'])
# vector edits: an item that is None is an item; a position the list refuses is refused before anything is booked
B('C12.none-item-not-booked', ['C12'], [(P + 'common/base.py', "        for item in insert_items:\n            size_diff += self.param.get_item_size(item)\n",
  "        for item in insert_items:\n            if item is not None:\n                size_diff += self.param.get_item_size(item)\n")], mention=['C12.R9'])
B('C12.insert-books-before-position-check', ['C12'], [(P + 'common/base.py', "        operator.index(index)\n\n", "")], mention=['C12.R9', 'insert'])
# the length a DNS record parser demands up front against the shortest RDATA the specification allows
B('C08.rrsig-demands-too-much', ['C08'], [(P + 'dnsrec/record.py', "    HEADER_SIZE = 19\n", "    HEADER_SIZE = 20\n")], mention=['C08.R13'])
N('benign.rrsig-demands-fixed-part-only', [(P + 'dnsrec/record.py', "    HEADER_SIZE = 19\n", "    HEADER_SIZE = 18\n")])
# attr.ib(<validator>): the first positional argument is the default
B('C01.validator-in-default-position', ['C01'], [(P + 'ssh/key.py', "    signature_data = attr.ib(validator=attr.validators.instance_of((bytes, bytearray)))",
  "    signature_data = attr.ib(attr.validators.instance_of((bytes, bytearray)))")], mention=['C01.R17', 'signature_data'])
# the modulus / prime of a parsed key: refused unless positive (the key size is its logarithm)
B('C14.rsa-modulus-sign-not-tested', ['C14'], [(P + 'ssh/key.py', "        if parser['n'] <= 0:\n", "        if parser['n'] == 0:\n")], mention=['C14.R15', 'negative'])
B('C14.dnskey-prime-not-tested', ['C14'], [(P + 'dnsrec/record.py', "        if not key_parser['p']:\n            # the size of a key is the size of its prime, there is none for zero\n            raise InvalidValue(key_parser['p'], cls, 'p')\n", "")],
  mention=['C14.R15'], props=['C14', 'C08'])
N('benign.rsa-modulus-test-spelled-lt-1', [(P + 'ssh/key.py', "        if parser['n'] <= 0:\n", "        if parser['n'] < 1:\n")])
# DNSKEY DSA: the width of P, G and Y from the prime itself, not from a key size computed with a floating point logarithm
B('C08.dsa-width-from-float-key-size', ['C08', 'C05'], [(P + 'dnsrec/record.py', "        key_size = (max(key_params.prime, key_params.generator, key_params.public_key_value).bit_length() + 7) // 8\n", "        key_size = key.key_size // 8\n")], mention=['DSA'])
# the ASN.1 decoder gives up with TypeError / AttributeError on elements that do not fit the schema
B('C02.ldap-decoder-typeerror-escapes', ['C02'], [(P + 'tls/ldap.py', "        except (KeyError, TypeError, AttributeError) as e:", "        except (KeyError, AttributeError) as e:")], mention=['TypeError'])
# rendering decodes nothing: a second parse call on the way from _asdict is reported although one is a recorded finding
B('C14.asdict-decodes-bytes', ['C14'], [(P + 'ssh/key.py', "    def host_key_asdict(self):\n        known_hosts = six.ensure_text(base64.b64encode(self.key_bytes), 'ascii')\n",
  "    def host_key_asdict(self):\n        known_hosts = six.ensure_text(base64.b64encode(self.key_bytes), 'ascii')\n        type(self).parse_exact_size(self.key_bytes)\n")],
  mention=['C14.R17'])
# a parsable class with a plain initialiser and private state only needs a rendering of its own
B('C14.language-tag-without-rendering', ['C14'], [(P + 'common/classes.py', "    def _asdict(self):\n", "    def _as_text(self):\n")], mention=['C14.R18'])
# a composer that clamps an attribute at a constant (legacy version numbers): the parser stores what it reads
B('C06.record-version-clamped', ['C06', 'C01'], [(P + 'tls/record.py', "        composer.compose_parsable(self.protocol_version)\n",
  "        composer.compose_parsable(min(self.protocol_version, TlsProtocolVersion(TlsVersion.TLS1_2)))\n")], mention=['C06.R10', 'protocol_version'])
# a local-time function handed on as a converter; astimezone of a value that may have no zone
B('C11.fromtimestamp-as-converter', ['C11', 'C05'], [(P + 'tls/subprotocol.py', "datetime.datetime.utcfromtimestamp)", "datetime.datetime.fromtimestamp)")], mention=['fromtimestamp'])
# the encoder of the key object gives up with OverflowError for a coordinate that is a power of 256
B('C02.ecdsa-overflow-escapes', ['C02'], [(P + 'ssh/key.py', "        except (ValueError, OverflowError) as e:  # a coordinate the encoder of the key object cannot take\n",
  "        except ValueError as e:\n")], mention=['OverflowError'])
B('C08.dsa-width-from-prime-alone', ['C08', 'C05'], [(P + 'dnsrec/record.py', "        key_size = (max(key_params.prime, key_params.generator, key_params.public_key_value).bit_length() + 7) // 8\n",
  "        key_size = (key_params.prime.bit_length() + 7) // 8\n")], mention=['DSA'])
B('C01.flags-default-of-another-kind', ['C01'], [(P + 'tls/mysql.py', "    states = attr.ib(default=attr.Factory(set), validator=attr.validators.deep_iterable(",
                                                  "    states = attr.ib(default=attr.Factory(dict), validator=attr.validators.deep_iterable(")], mention=['default-kind'])

# ---------------------------------------------------------------- rules of the ninth seeded round (DESIGN 11.26), one breaking variant and one twin each
B('C16.hassh-names-through-set', ['C16', 'C07'], [(P + 'ssh/subprotocol.py',
  "                for algorithm in algorithms\n            ])\n            for algorithms in algorithm_vectors\n",
  "                for algorithm in sorted(set(algorithms), key=list(algorithms).index)\n            ])\n            for algorithms in algorithm_vectors\n")],
  mention=['C16.R12', 'C07.R16'])
N('benign.hassh-names-through-list-copy', [(P + 'ssh/subprotocol.py',
  "                for algorithm in algorithms\n            ])\n            for algorithms in algorithm_vectors\n",
  "                for algorithm in list(algorithms)\n            ])\n            for algorithms in algorithm_vectors\n")])
B('C06.sni-case-folded', ['C06'], [(P + 'tls/extension.py',
  "            host_name = six.ensure_text(bytes(bytearray(parser['server_name'])), 'idna')\n",
  "            host_name = six.ensure_text(bytes(bytearray(parser['server_name'])).lower(), 'idna')\n")], mention=['C06.R11'])
B('C15.extension-block-needs-six-octets', ['C15', 'C06'], [(P + 'tls/subprotocol.py',
  "        if parser.parsed_length >= len(handshake_header_parser['payload']):\n            return None\n\n        parser.parse_parsable('extensions', extensions_class)\n",
  "        if len(handshake_header_parser['payload']) - parser.parsed_length < 7:\n            return None\n\n        parser.parse_parsable('extensions', extensions_class)\n")],
  mention=['C15.R10', 'C06.R13'])
N('benign.extension-block-test-spelled-as-difference', [(P + 'tls/subprotocol.py',
  "        if parser.parsed_length >= len(handshake_header_parser['payload']):\n            return None\n\n        parser.parse_parsable('extensions', extensions_class)\n",
  "        if len(handshake_header_parser['payload']) - parser.parsed_length <= 0:\n            return None\n\n        parser.parse_parsable('extensions', extensions_class)\n")])
B('C11.rdp-protocol-word-with-added-member', ['C11', 'C09'], [(P + 'tls/rdp.py',
  "        composer.compose_numeric_flags(self.protocol, 4)\n",
  "        protocol = set(self.protocol)\n        if RDPProtocol.HYBRID_EX in protocol:\n            protocol.add(RDPProtocol.HYBRID)\n        composer.compose_numeric_flags(protocol, 4)\n")],
  mention=['C11.R15', 'C09.R19'])
N('benign.rdp-protocol-word-from-a-copy', [(P + 'tls/rdp.py',
  "        composer.compose_numeric_flags(self.protocol, 4)\n",
  "        protocol = set(self.protocol)\n        composer.compose_numeric_flags(protocol, 4)\n")])
B('C09.openvpn-first-octet-compared-whole', ['C09'], [(P + 'tls/openvpn.py',
  "        if parser['packet_type'] >> 3 != cls.get_op_code():\n", "        if parser['packet_type'] != cls.get_op_code() << 3:\n")], mention=['C09.R18'])
N('benign.openvpn-opcode-through-mask', [(P + 'tls/openvpn.py',
  "        if parser['packet_type'] >> 3 != cls.get_op_code():\n", "        if (parser['packet_type'] & 0xf8) != cls.get_op_code() << 3:\n")])
B('C18.csp-sources-keep-empty-elements', ['C18'], [(P + 'httpx/header.py',
  "            parser.parse_string_array('value', ' ', source_variant_parsable, skip_empty=True)\n",
  "            parser.parse_string_array('value', ' ', source_variant_parsable)\n")], mention=['C18.R15'])
B('C14.csp-sources-rendered-once', ['C14'], [(P + 'httpx/header.py',
  "                collections.OrderedDict([('type', source.get_type()), ('value', source._asdict())])\n                for source in self.value\n",
  "                collections.OrderedDict([('type', source.get_type()), ('value', source._asdict())])\n                for source in collections.OrderedDict.fromkeys(self.value)\n")],
  mention=['C14.R22'])
