"""E4: exception-escape analysis over deep interpreter traces.

``Escape(ctx).of_class(C)`` = exception classes that may leave ``C._parse`` through the modelled mechanisms:
explicit raises (also inside the DSL primitives, which are interpreted with the call site's arguments), re-raises,
six.raise_from, risky operations on non-constant values (Risk nodes), converters / nested classes invoked by the
primitives, minus what enclosing handlers catch (subclass aware)."""
from __future__ import annotations

from .model import EXCEPTION_PARENTS, ClassInfo, EnumMember, ExtRef, FuncInfo
from .trace import Alt, Effect, Inline, Loop, New, Op, Opaque, Raise, Return, Risk, Try
from .values import ClassV, FuncV, LambdaV, ObjV, Sym, Unknown, show

DOCUMENTED = {'NotEnoughData', 'TooMuchData', 'InvalidDataLength', 'InvalidValue', 'InvalidType'}


def exc_name(v):
    """normalised exception class name of a raised value / handler type"""
    if isinstance(v, ClassV):
        c = v.cls
        if isinstance(c, ClassInfo):
            return c.name
        d = c.dotted
        return d if '.' in d else 'builtins.' + d
    if isinstance(v, ObjV):
        return v.cls.name
    if isinstance(v, Sym) and v.op == 'call' and v.args:
        a = v.args[0]
        if isinstance(a, str):
            return a if '.' in a else 'builtins.' + a
        return exc_name(a)
    if isinstance(v, str):
        return v if '.' in v else 'builtins.' + v
    return None


class Hierarchy:
    def __init__(self, model):
        self.model = model

    def parents(self, name):
        out = [name]
        c = None
        if '.' not in name:
            cs = self.model.classes_by_name.get(name, [])
            if cs:
                c = cs[0]
        if c is not None:
            for b in c.mro[1:]:
                if isinstance(b, ClassInfo):
                    out.append(b.name)
                else:
                    d = b.dotted
                    if d in ('Exception', 'builtins.Exception'):
                        out += ['builtins.Exception', 'builtins.BaseException']
                    elif d != 'builtins.object':
                        out.append(d if '.' in d else 'builtins.' + d)
            return out
        cur = name
        while cur in EXCEPTION_PARENTS and EXCEPTION_PARENTS[cur]:
            cur = EXCEPTION_PARENTS[cur]
            out.append(cur)
        if name.split('.')[-1] in ('LocationParseError',):
            out += ['builtins.ValueError', 'builtins.Exception']
        if out[-1] not in ('builtins.BaseException',) and 'builtins.Exception' not in out:
            out += ['builtins.Exception', 'builtins.BaseException']
        return out

    def is_sub(self, name, handler):
        return handler in self.parents(name)


class Escape:
    def __init__(self, model, interp):
        self.model = model
        self.it = interp            # a deep interpreter
        self.h = Hierarchy(model)
        self._cls = {}
        self._stack = []
        self.traces = {}

    # -- public ------------------------------------------------------------------------------
    def of_class(self, c, entry='parse_immutable'):
        """{exception name: witness chain} escaping C._parse"""
        key = c.qualname
        if key in self._cls:
            return self._cls[key]
        if key in self._stack:
            return {}
        self._stack.append(key)
        try:
            f = c.resolve('_parse')
            if f is None or (f.abstract and self.it.body_only_raises(f)):
                res = {}
            else:
                r = self.it.run(c, '_parse')
                self.traces[key] = r
                res = self.block(r.block, None)
                res = {k: ['%s._parse' % c.name] + v for k, v in res.items()}
        finally:
            self._stack.pop()
        self._cls[key] = res
        return res

    # -- traces ------------------------------------------------------------------------------
    def block(self, nodes, caught):
        out = {}
        for n in nodes:
            self.merge(out, self.node(n, caught))
        return out

    @staticmethod
    def merge(a, b):
        for k, v in b.items():
            a.setdefault(k, v)

    @staticmethod
    def K(exc, site):
        return (exc, site)

    def node(self, n, caught):
        if isinstance(n, Raise):
            return self.raised(n, caught)
        if isinstance(n, Risk):
            if n.what in ('callparam', 'callunknown'):
                return {}
            site = n.func.qualname if n.func is not None else '?'
            return {(e, '%s: %s' % (site, n.what)): ['%s: %s on %s' % (site, n.what, show(n.operand)[:60])] for e in n.excs}
        if isinstance(n, Op):
            if n.target is None:
                return self.nested(n)
            return {}
        if isinstance(n, Inline):
            inner = self.block(n.body, caught)
            return {k: [n.callee.qualname] + v for k, v in inner.items()}
        if isinstance(n, Alt):
            out = self.block(n.then, caught)
            self.merge(out, self.block(n.orelse, caught))
            return out
        if isinstance(n, Loop):
            return self.block(n.body, caught)
        if isinstance(n, Try):
            body = self.block(n.body, caught)
            handled = {}
            out = {}
            handler_types = []
            for excs, name, hb in n.handlers:
                names = self.handler_names(excs)
                handler_types.append(names)
            for ek, w in body.items():
                e = ek[0]
                idx = None
                for i, names in enumerate(handler_types):
                    if names is None or any(self.h.is_sub(e, hn) for hn in names):
                        idx = i
                        break
                if idx is None:
                    out[ek] = w
                else:
                    handled.setdefault(idx, {})[e] = w
            for i, (excs, name, hb) in enumerate(n.handlers):
                # classes this handler may be handling: what the body can raise and it catches; when the body
                # cannot raise any of them statically the handler is dead for our purposes but still analysed
                got = set(handled.get(i, {}))
                if not got:
                    got = set(handler_types[i] or [])
                self.merge(out, self.block(hb, got))
            self.merge(out, self.block(n.orelse, caught))
            self.merge(out, self.block(n.final, caught))
            return out
        return {}

    def handler_names(self, excs):
        if excs is None:
            return None
        items = excs if isinstance(excs, tuple) else (excs,)
        out = []
        for x in items:
            nm = exc_name(x)
            if nm:
                out.append(nm)
        return out

    def raised(self, n, caught):
        site = n.func.qualname if n.func is not None else '?'
        v = n.exc
        if isinstance(v, Sym) and v.op == 'reraise':
            return {(e, '%s: re-raise' % site): ['%s: re-raise' % site] for e in (caught or [])}
        if isinstance(v, Sym) and v.op == 'caught':
            names = self.handler_names(v.args[0]) or list(caught or [])
            # `raise e` re-raises what was caught: the classes the handler actually received
            recv = [e for e in (caught or []) if any(self.h.is_sub(e, hn) for hn in names)] or names
            return {(e, '%s: raise <caught>' % site): ['%s: raise <caught>' % site] for e in recv}
        if isinstance(v, Sym) and v.op == 'phi':
            out = {}
            for a in v.args:
                nm = exc_name(a)
                if nm:
                    out[(nm, '%s: raise' % site)] = ['%s: raise' % site]
            return out
        nm = exc_name(v)
        if nm is None:
            return {('<unknown exception %s>' % show(v)[:40], '%s: raise' % site): ['%s: raise' % site]}
        return {(nm, '%s: raise %s' % (site, nm.split('.')[-1])): ['%s: raise %s' % (site, nm.split('.')[-1])]}

    def nested(self, op):
        cv = op.args.get('cls')
        out = {}
        if isinstance(cv, ClassV) and isinstance(cv.cls, ClassInfo):
            k = cv.cls
            targets = [k]
            if k.abstract_methods and (k.resolve('_parse') is None or k.resolve('_parse').abstract):
                targets = [s for s in self.model.all_subclasses(k) if not s.abstract_methods]
            for t in targets:
                self.merge(out, self.of_class(t))
        elif isinstance(cv, Sym) and cv.op == 'phi':
            for a in cv.args:
                if isinstance(a, ClassV) and isinstance(a.cls, ClassInfo):
                    self.merge(out, self.of_class(a.cls))
        if op.prim == 'parse_exact_size':
            out.setdefault(('TooMuchData', 'ParsableBaseNoABC.parse_exact_size: raise TooMuchData'),
                           ['ParsableBaseNoABC.parse_exact_size: raise TooMuchData'])
        return out
