"""E2/E5: abstract interpreter for cryptoparser's parser/composer DSL.

Interprets ``_parse`` / ``compose`` (and helper) bodies over abstract values, inlining helpers
through statically resolved calls, and produces a structured trace (trace.py) of DSL primitive
calls, branches, loops, raises and returns.  Constant classmethods (``get_param()`` ...) are
evaluated with the same machinery.  Never imports or runs repository code.
"""
from __future__ import annotations

import ast

from .model import AnalysisError, ClassInfo, EnumMember, ExtRef, FuncInfo
from .interp_expr import ExprMixin, SuperV, truth, as_bytes_parts
from .interp_call import CallMixin, Raised, MUTATORS
from .trace import Alt, Effect, Loop, New, Op, Opaque, Raise, Return, Try, walk
from .values import (BytesV, ClassV, ComposerV, DictV, FieldV, FuncV, InputV, ListV, ObjV, ParserV, SelfV, Sym,
                     Unknown, is_const)


class Frame:
    def __init__(self, func, module, recv, defcls, parent=None):
        self.func = func
        self.module = module
        self.recv = recv
        self.defcls = defcls
        self.env = {}
        self.block = parent.block if parent is not None else []
        self.depth = parent.depth + 1 if parent is not None else 0
        self.stack = parent.stack if parent is not None else frozenset()
        self.returns = []
        self.return_marks = []      # (condition, start, end): returns[start:end] were made inside the then-branch of that ``if``
        self.yields = None
        self.yields_complete = True
        self.in_loop = parent.in_loop if parent is not None else 0
        self.cond_depth = parent.cond_depth if parent is not None else 0
        self.quiet = parent.quiet if parent is not None else False
        self.nonempty = set(parent.nonempty) if parent is not None else set()

    def emit(self, node):
        if not self.quiet:
            self.block.append(node)

    def child_env(self):
        f = Frame(self.func, self.module, self.recv, self.defcls, None)
        f.env = dict(self.env)
        f.block = self.block
        f.depth = self.depth
        f.stack = self.stack
        f.in_loop = self.in_loop
        f.cond_depth = self.cond_depth
        f.quiet = self.quiet
        f.nonempty = set(self.nonempty)
        return f

    def result(self):
        vals = self.returns
        if not vals:
            return None
        if len(vals) == 1:
            return vals[0]
        marks = getattr(self, 'return_marks', None) or []

        def build(seq, lo, hi):
            # the value returned on the paths that produced seq[lo:hi]; returns made inside the then-branch of an ``if``
            # are selected by its condition, the ones after it by the negation (early return / if-else returning twice)
            if hi - lo == 1:
                return seq[lo]
            for cond, s, e in marks:
                if s == lo and lo < e < hi:
                    tv, ev = build(seq, s, e), build(seq, e, hi)
                    if same_value(tv, ev):
                        return tv
                    phi = Sym('phi', tv, ev)
                    phi.cond = cond
                    return phi
            return merge_values(seq[lo:hi])
        if all(isinstance(v, tuple) for v in vals) and len({len(v) for v in vals}) == 1:
            return tuple(build([v[i] for v in vals], 0, len(vals)) for i in range(len(vals[0])))
        return build(list(vals), 0, len(vals))


def merge_values(vals):
    first = vals[0]
    if all(same_value(first, v) for v in vals[1:]):
        return first
    return Sym('phi', *vals)


def same_value(a, b):
    if a is b:
        return True
    if type(a) is not type(b):
        return False
    if isinstance(a, DictV):
        # two copies of one mapping (every branch gets its own) that hold the same entries
        return a.complete == b.complete and not a.star and not b.star and len(a.pairs) == len(b.pairs) and \
            all(same_value(k1, k2) and (v1 is v2 or same_value(v1, v2)) for (k1, v1), (k2, v2) in zip(a.pairs, b.pairs))
    if isinstance(a, (ParserV, ComposerV, ObjV, ListV, BytesV)):
        return False
    try:
        return a == b
    except Exception:      # pylint: disable=broad-except
        return False


class Result:
    def __init__(self, cls, func, side, block, value, interp):
        self.cls = cls
        self.func = func
        self.side = side
        self.block = block
        self.value = value
        self.parsers = interp.parsers
        self.composers = interp.composers

    def nodes(self):
        return list(walk(self.block))

    def unknowns(self):
        return [n for n in self.nodes() if isinstance(n, Opaque)]


class Interp(ExprMixin, CallMixin):
    max_depth = 10

    def __init__(self, model, deep=False):
        self.model = model
        self.deep = deep
        self._var_memo = {}
        self._var_stack = set()
        self._pid = 0
        self.parsers = []
        self.composers = []

    def new_frame(self, func, module, recv=None, defcls=None, parent=None):
        return Frame(func, module, recv, defcls, parent)

    # -- entry points ---------------------------------------------------------------------
    def run(self, cls, name, side=None):
        """Interpret method ``name`` with receiver class ``cls``."""
        func = cls.resolve(name)
        if func is None:
            raise AnalysisError('%s has no method %s' % (cls.name, name))
        self.parsers = []
        self.composers = []
        side = side or ('parse' if name == '_parse' else 'compose')
        fr = self.new_frame(func, func.module, defcls=func.cls)
        params = func.params
        if func.kind == 'classmethod':
            fr.recv = ClassV(cls)
            fr.env[params[0]] = ClassV(cls)
            rest = params[1:]
        elif func.kind == 'staticmethod':
            rest = params
        else:
            fr.recv = SelfV((), cls, cls)
            fr.env[params[0]] = fr.recv
            rest = params[1:]
        for p in rest:
            fr.env[p] = InputV(p) if (side == 'parse' and p == 'parsable') else Sym('param', p)
        fr.stack = frozenset({(func.construct, cls.qualname)})
        self.exec_body(func.node.body, fr)
        return Result(cls, func, side, fr.block, fr.result(), self)

    def const_call(self, cls, name, args=()):
        """Evaluate a constant classmethod (``get_param()``, ``get_byte_num()`` ...)."""
        func = cls.resolve(name)
        if func is None or (func.abstract and self.body_only_raises(func)):
            return Unknown('no concrete %s.%s' % (cls.name, name))
        fr = self.new_frame(None, func.module, recv=ClassV(cls), defcls=func.cls)
        fr.quiet = True
        recv = ClassV(cls) if func.kind == 'classmethod' else SelfV((), cls, cls)
        res = self.call_function(func, recv, list(args), {}, fr, None)
        if not args and func.kind in ('classmethod', 'staticmethod') and (
                isinstance(res, (Unknown, Sym)) or (isinstance(res, DictV) and (not res.pairs or not res.complete)) or
                (isinstance(res, ListV) and not res.complete)):
            # a table that is built by statements the abstract run does not fold (loops over class tuples, grouping helpers): the
            # method is evaluated concretely from its own statements, classes and enum members standing for themselves
            conc = self.concrete_constant(cls, func)
            if conc is not None:
                return conc
        return res

    def concrete_constant(self, cls, func):
        from .miniexec import ClassRef, EnumVal, Evaluator, Native, Raised, Unsupported, class_call_hook
        key = ('concrete', cls.construct if hasattr(cls, 'construct') else id(cls), func.construct)
        cache = self.__dict__.setdefault('_concrete_cache', {})
        if key in cache:
            return cache[key]

        class Cls(Native):
            _repo_class = cls

        def convert(v, depth=0):
            if depth > 6:
                raise Unsupported('depth')
            if isinstance(v, ClassRef):
                return ClassV(v.info)
            if isinstance(v, EnumVal):
                return EnumMember(v.info, v.name)
            if isinstance(v, (bool, int, str, bytes, type(None))):
                return v
            if isinstance(v, tuple):
                return tuple(convert(x, depth + 1) for x in v)
            if isinstance(v, list):
                return ListV([convert(x, depth + 1) for x in v], True)
            if isinstance(v, dict):
                return DictV([(convert(k, depth + 1), convert(x, depth + 1)) for k, x in v.items()], True)
            raise Unsupported('value of kind %s' % type(v).__name__)
        res = None
        try:
            hook = class_call_hook(cls, None, self.model)
            params = [a.arg for a in func.node.args.args]
            env = {params[0]: Cls()} if params and func.kind == 'classmethod' else {}
            res = convert(Evaluator(env, hook, hook.name_hook_for(func.module, None)).function(func.node))
        except (Unsupported, Raised, AttributeError, TypeError, KeyError, IndexError, ValueError):
            res = None
        cache[key] = res
        return res

    # -- statements -------------------------------------------------------------------
    def exec_body(self, stmts, fr):
        for st in stmts:
            try:
                status = self.exec_stmt(st, fr)
            except Raised:
                status = 'raise'
            if status != 'next':
                return status
        return 'next'

    def exec_stmt(self, st, fr):
        m = getattr(self, 's_' + type(st).__name__, None)
        if m is None:
            fr.emit(Opaque('statement %s' % type(st).__name__, st, fr.func))
            return 'next'
        return m(st, fr)

    def s_Pass(self, st, fr):
        return 'next'

    def s_Expr(self, st, fr):
        if isinstance(st.value, ast.Constant):
            return 'next'
        if isinstance(st.value, (ast.Yield,)):
            v = self.eval(st.value.value, fr) if st.value.value is not None else None
            if fr.yields is not None:
                fr.yields.append(v)
                if fr.cond_depth or fr.in_loop > fr.unrolled:
                    fr.yields_complete = False
            return 'next'
        call = st.value
        if isinstance(call, ast.Call) and isinstance(call.func, ast.Attribute) and call.func.attr in ('append', 'extend', 'insert') and \
                isinstance(call.func.value, ast.Name) and call.func.value.id in fr.env and isinstance(fr.env[call.func.value.id], Sym) and \
                fr.env[call.func.value.id].op in ('list', 'sorted', 'reversed') and call.args and not call.keywords:
            # a local copy of some sequence (``xs = list(self.items)``) that is extended afterwards: from here on the local is that copy
            # *plus* the added items - not the original sequence any more
            name = call.func.value.id
            added = self.eval(call.args[-1], fr)
            extra = [Sym('splat', added)] if call.func.attr == 'extend' else [added]
            fr.env[name] = ListV([Sym('splat', fr.env[name])] + extra, False)
            return 'next'
        self.eval(st.value, fr)
        return 'next'

    def s_Assert(self, st, fr):
        return 'next'

    def s_Global(self, st, fr):
        return 'next'

    s_Nonlocal = s_Global
    s_Import = s_Global
    s_ImportFrom = s_Global

    def s_FunctionDef(self, st, fr):
        fr.env[st.name] = FuncV(FuncInfo(fr.module, None, st))
        return 'next'

    def s_Return(self, st, fr):
        v = self.eval(st.value, fr) if st.value is not None else None
        fr.returns.append(v)
        # what is known to be non-empty about the returned value (or the parts of a returned tuple) at this return
        from .values import show as _show
        known = {_show(x) for x in ((v if isinstance(v, tuple) else (v,))) if isinstance(x, ListV) and _show(x) in fr.nonempty}
        fr.returned_nonempty = known if getattr(fr, 'returned_nonempty', None) is None else (fr.returned_nonempty & known)
        fr.emit(Return(v, st, fr.func))
        return 'return'

    def s_Raise(self, st, fr):
        if st.exc is None:
            fr.emit(Raise(Sym('reraise'), (), st, fr.func))
            return 'raise'
        exc = self.eval(st.exc, fr)
        self.emit_raise(exc, fr, st)
        return 'raise'

    def s_Break(self, st, fr):
        return 'break'

    def s_Continue(self, st, fr):
        from .trace import Continue
        fr.emit(Continue(st, fr.func))
        return 'continue'

    def bind_target(self, target, value, fr, node=None):
        if isinstance(target, ast.Name):
            fr.env[target.id] = value
        elif isinstance(target, (ast.Tuple, ast.List)):
            items = None
            if isinstance(value, tuple):
                items = list(value)
            elif isinstance(value, ListV) and value.complete:
                items = value.items
            if items is not None and len(items) == len(target.elts):
                for t, v in zip(target.elts, items):
                    self.bind_target(t, v, fr, node)
            else:
                for i, t in enumerate(target.elts):
                    self.bind_target(t, Sym('index', value, i), fr, node)
        elif isinstance(target, ast.Attribute):
            base = self.eval(target.value, fr)
            if isinstance(base, ObjV):
                base.attrs[target.attr] = value
            elif isinstance(base, (SelfV, ClassV)) or self.is_rooted_at_self(base):
                fr.emit(Effect('setattr', base, (target.attr, value), node or target, fr.func))
            else:
                fr.emit(Effect('setattr', base, (target.attr, value), node or target, fr.func))
        elif isinstance(target, ast.Subscript):
            base = self.eval(target.value, fr)
            idx = self.eval(target.slice, fr) if not isinstance(target.slice, ast.Slice) else Sym('sliceobj')
            if isinstance(base, DictV):
                base.set(idx, value)
                if not is_const(idx) and not isinstance(idx, EnumMember):
                    base.complete = False       # a key that is not a constant of the source: what the mapping holds is open
            elif isinstance(base, ListV):
                if isinstance(idx, int) and base.complete and -len(base.items) <= idx < len(base.items):
                    base.items[idx] = value
                else:
                    base.complete = False
            else:
                fr.emit(Effect('setitem', base, (idx, value), node or target, fr.func))
        elif isinstance(target, ast.Starred):
            self.bind_target(target.value, Sym('rest', value), fr, node)

    def s_Assign(self, st, fr):
        v = self.eval(st.value, fr)
        for t in st.targets:
            self.bind_target(t, v, fr, st)
        if len(st.targets) == 1 and isinstance(st.targets[0], ast.Name):
            # the expression a local currently stands for: ``ok = isinstance(x, T); if ok:`` refines x like ``if isinstance(x, T):``
            a = dict(fr.env.get('__ast__', {}))
            a[st.targets[0].id] = st.value
            fr.env['__ast__'] = a
        return 'next'

    def s_AnnAssign(self, st, fr):
        if st.value is not None:
            self.bind_target(st.target, self.eval(st.value, fr), fr, st)
        return 'next'

    def s_AugAssign(self, st, fr):
        v = self.eval(st.value, fr)
        t = st.target
        if isinstance(t, ast.Name):
            cur = self.lookup_name(t.id, fr)
            if isinstance(cur, ListV) and isinstance(st.op, ast.Add):
                items = self.iter_items(v)
                if items is None:
                    cur.items.append(Sym('splat', v))
                    cur.complete = False
                else:
                    cur.items.extend(items)
                return 'next'
            if isinstance(st.op, (ast.Add, ast.Sub, ast.BitOr, ast.BitAnd, ast.BitXor)) and isinstance(cur, SelfV) and cur.path and \
                    not self.known_immutable(cur):
                # ``x op= y`` on a local that *is* an attribute of self (handed down as an argument, or aliased): for a list, a
                # set or a bytearray the operator works in place - the object's own container is changed
                fr.emit(Effect('inplace', cur, ({ast.Add: '+=', ast.Sub: '-=', ast.BitOr: '|=', ast.BitAnd: '&=', ast.BitXor: '^='}[type(st.op)], v), st, fr.func))
            fr.env[t.id] = self.binop(st.op, cur, v)
            return 'next'
        if isinstance(t, ast.Attribute):
            base = self.eval(t.value, fr)
            cur = self.getattr_v(base, t.attr, fr, t)
            new = self.binop(st.op, cur, v)
            if isinstance(base, ObjV):
                base.attrs[t.attr] = new
            else:
                fr.emit(Effect('augassign', base, (t.attr, v), st, fr.func))
            return 'next'
        if isinstance(t, ast.Subscript):
            base = self.eval(t.value, fr)
            fr.emit(Effect('augassign', base, ('[]', v), st, fr.func))
        return 'next'

    @staticmethod
    def known_immutable(v):
        """is the value of this attribute of self a number, a string, bytes, a tuple, a frozenset or an enum member (its declared
        type says so)?  then ``op=`` re-binds the local and leaves the object alone"""
        t = getattr(v, 'typ', None)
        if isinstance(t, ClassInfo):
            return t.enum_members is not None
        d = getattr(t, 'dotted', None)
        return d in ('builtins.int', 'builtins.str', 'builtins.bytes', 'builtins.tuple', 'builtins.frozenset', 'builtins.bool', 'builtins.float')

    def s_Delete(self, st, fr):
        for t in st.targets:
            if isinstance(t, ast.Subscript):
                base = self.eval(t.value, fr)
                idx = self.eval(t.slice, fr) if not isinstance(t.slice, ast.Slice) else \
                    Sym('sliceobj', self.eval(t.slice.lower, fr) if t.slice.lower else None,
                        self.eval(t.slice.upper, fr) if t.slice.upper else None)
                if isinstance(base, ParserV) and isinstance(idx, str):
                    base.deleted.add(idx)
                    fr.emit(Effect('delkey', base, (idx,), st, fr.func))
                elif isinstance(base, DictV):
                    base.pairs = [(k, v) for k, v in base.pairs if k != idx]
                elif isinstance(base, ListV):
                    if idx == -1 and base.complete and base.items:
                        base.items.pop()
                    else:
                        base.complete = False
                else:
                    fr.emit(Effect('delitem', base, (idx,), st, fr.func))
            elif isinstance(t, ast.Name):
                fr.env.pop(t.id, None)
            elif isinstance(t, ast.Attribute):
                fr.emit(Effect('delattr', self.eval(t.value, fr), (t.attr,), st, fr.func))
        return 'next'

    # -- control flow -----------------------------------------------------------------
    def fork(self, fr, block):
        sub = fr.child_env()
        sub.block = block
        sub.returns = fr.returns
        sub.return_marks = fr.return_marks
        sub.yields = fr.yields
        sub.unrolled = getattr(fr, 'unrolled', 0)
        for k, v in list(sub.env.items()):
            if isinstance(v, ListV):
                sub.env[k] = ListV(v.items, v.complete)
                if getattr(v, 'shared_from', None):
                    sub.env[k].shared_from = v.shared_from        # still the container of that class / module variable
            elif isinstance(v, DictV):
                d = DictV(v.pairs, v.complete)
                d.star = list(v.star)
                if getattr(v, 'shared_from', None):
                    d.shared_from = v.shared_from
                sub.env[k] = d
        return sub

    def merge_env(self, fr, cond, a, b):
        names = set(a.env) | set(b.env)
        for n in names:
            if n in ('__refined__', '__ast__'):
                ra, rb = a.env.get(n, {}), b.env.get(n, {})
                fr.env[n] = {k: v for k, v in ra.items() if rb.get(k) is v} if isinstance(ra, dict) and isinstance(rb, dict) else {}
                continue
            va = a.env.get(n, Unknown('unbound'))
            vb = b.env.get(n, Unknown('unbound'))
            if same_value(va, vb):
                fr.env[n] = va
            elif isinstance(va, ListV) and isinstance(vb, ListV) and len(va.items) == len(vb.items) and \
                    all(same_value(x, y) for x, y in zip(va.items, vb.items)):
                fr.env[n] = ListV(va.items, va.complete and vb.complete)
            else:
                fr.env[n] = Sym('phi', va, vb)
                fr.env[n].cond = cond
        fr.yields_complete = fr.yields_complete and getattr(a, 'yields_complete', True) and getattr(b, 'yields_complete', True)

    def s_If(self, st, fr):
        cond = self.eval(st.test, fr)
        t = truth(cond)
        if t is True:
            return self.exec_body(st.body, fr)
        if t is False:
            return self.exec_body(st.orelse, fr)
        # a two armed conditional is recorded under its positive condition: ``if not c: A else: B`` and ``if c: B else: A``
        # (likewise != / is not / not in against == / is / in) give the same trace
        body, orelse, test = st.body, st.orelse, st.test
        if isinstance(test, ast.Name):
            test = fr.env.get('__ast__', {}).get(test.id, test)
        POSITIVE = {'!=': '==', 'is not': 'is', 'not in': 'in'}
        while orelse and isinstance(cond, Sym):
            if cond.op == 'not':
                cond = cond.args[0]
                test = test.operand if isinstance(test, ast.UnaryOp) and isinstance(test.op, ast.Not) else test
            elif cond.op == 'cmp' and cond.args[0] in POSITIVE:
                cond = Sym('cmp', POSITIVE[cond.args[0]], *cond.args[1:])
            else:
                break
            body, orelse = orelse, body
        node = Alt(cond, [], [], st)
        fr.emit(node)
        a = self.fork(fr, node.then)
        b = self.fork(fr, node.orelse)
        a.cond_depth += 1
        b.cond_depth += 1
        self.refine_types(self.expand_predicate(test, fr), cond, a)
        self.assume(cond, True, a)
        self.assume(cond, False, b)
        keys_before = self.key_snapshot()
        n_ret = len(fr.returns)
        sa = self.exec_body(body, a)
        if len(fr.returns) > n_ret:
            fr.return_marks.append((cond, n_ret, len(fr.returns)))
        keys_a = self.key_changes(keys_before)
        # the else branch must not see keys that only the then branch defined (parser state is shared on the heap)
        after_then = {pid: dict(p.keys) for pid, (p, _) in self.key_snapshot().items()}
        for pid, (p, old) in keys_before.items():
            p.keys = dict(old)
        for p in self.parsers:
            if id(p) not in keys_before:
                p.keys = {}
        keys_mid = self.key_snapshot()
        sb = self.exec_body(orelse, b)
        keys_b = self.key_changes(keys_mid)
        # merge: a key defined by either branch is visible afterwards (flagged "maybe" unless both define it)
        for p in self.parsers:
            then_keys = after_then.get(id(p), {})
            for k, v in then_keys.items():
                if k not in p.keys:
                    p.keys[k] = v
                    if sa == 'next' and sb == 'next':
                        p.maybe.add(k)
        node.then_status, node.else_status = sa, sb
        if sa == 'next' and sb == 'next':
            self.definite_keys([keys_a, keys_b], fr)
            self.merge_env(fr, cond, a, b)
            fr.nonempty = a.nonempty & b.nonempty
            return 'next'
        if sa != 'next' and sb == 'next':
            self.definite_keys([keys_b], fr)
            fr.nonempty = b.nonempty
        if sb != 'next' and sa == 'next':
            self.definite_keys([keys_a], fr)
            fr.nonempty = a.nonempty
        if sa == 'next':
            fr.env = a.env
            fr.yields_complete = fr.yields_complete and a.yields_complete
            return 'next'
        if sb == 'next':
            fr.env = b.env
            fr.yields_complete = fr.yields_complete and b.yields_complete
            return 'next'
        if sa == sb:
            return sa
        if 'break' in (sa, sb) or 'continue' in (sa, sb):
            return 'break' if 'break' in (sa, sb) else 'continue'
        return 'return' if 'return' in (sa, sb) else 'raise'

    def assume(self, cond, value, fr):
        """record emptiness facts implied by a branch condition"""
        from .values import show as _show
        if value and not isinstance(cond, bool) and not (isinstance(cond, Sym) and cond.op in ('cmp', 'not', 'boolor', 'booland', 'isinstance')):
            fr.nonempty.add(_show(cond))
        if not value and isinstance(cond, Sym) and cond.op == 'not':
            fr.nonempty.add(_show(cond.args[0]))
        if value and isinstance(cond, Sym) and cond.op == 'booland':
            for a in cond.args:
                self.assume(a, True, fr)
        if isinstance(cond, Sym) and cond.op == 'cmp' and cond.args[2] is None and ((value and cond.args[0] == 'is not') or (not value and cond.args[0] == 'is')):
            fr.nonempty.add('#notnone %s' % _show(cond.args[1]))
        if isinstance(cond, Sym) and cond.op == 'cmp' and ((value and cond.args[0] == 'in') or (not value and cond.args[0] == 'not in')):
            # ``key in table`` holds on this branch: the look-up table[key] finds it
            fr.nonempty.add('#key of %s' % _show(cond.args[1]))
        if isinstance(cond, Sym) and cond.op == 'cmp':
            op, a, b = cond.args
            # i < len(X) in any spelling: index i of X exists (i a symbolic offset; constants are handled below)
            sym_idx = None
            if isinstance(b, Sym) and b.op == 'len' and not isinstance(a, int) and ((value and op == '<') or (not value and op == '>=')):
                sym_idx = (a, b.args[0])
            elif isinstance(a, Sym) and a.op == 'len' and not isinstance(b, int) and ((value and op == '>') or (not value and op == '<=')):
                sym_idx = (b, a.args[0])
            if sym_idx is not None:
                fr.nonempty.add('#index %s of %s' % (_show(sym_idx[0]), _show(sym_idx[1])))
            if isinstance(a, Sym) and a.op == 'len' and isinstance(b, int):
                if (value and op in ('>', '>=') and b >= (0 if op == '>' else 1)) or (not value and op in ('<', '==') and b <= 1 and (op != '==' or b == 0)):
                    fr.nonempty.add(_show(a.args[0]))
                # len(x) > k / len(x) >= k (or the negation of < / <=): the indices below that bound exist
                bound = None
                if value and op in ('>', '>='):
                    bound = b + 1 if op == '>' else b
                elif not value and op in ('<', '<='):
                    bound = b if op == '<' else b + 1
                if bound is not None:
                    for i in range(0, min(bound, 16)):
                        fr.nonempty.add('#index %d of %s' % (i, _show(a.args[0])))

    def key_snapshot(self):
        return {id(p): (p, dict(p.keys)) for p in self.parsers}

    def key_changes(self, snap):
        out = {}
        for p in self.parsers:
            old = snap.get(id(p), (p, {}))[1]
            ch = {k for k, v in p.keys.items() if old.get(k) is not v}
            if ch:
                out[id(p)] = (p, ch)
        return out

    def definite_keys(self, branches, fr):
        """keys (re)defined on every continuing branch are definitely defined afterwards"""
        if fr.cond_depth:
            return
        first = branches[0]
        for pid, (p, ks) in first.items():
            common = set(ks)
            for other in branches[1:]:
                common &= other.get(pid, (p, set()))[1]
            for k in common:
                p.maybe.discard(k)

    def expand_predicate(self, test, fr, depth=0):
        """``self.helper(a, b)`` whose body is local assignments followed by one ``return <expression>``: the expression with the
        locals written out and the parameters replaced by the arguments, so that a type test moved into a helper refines the types
        like the test written in place.  Anything else is returned as it is."""
        import copy
        from .astutil import inline_locals
        if depth > 2 or not (isinstance(test, ast.Call) and isinstance(test.func, ast.Attribute) and isinstance(test.func.value, ast.Name)
                             and test.func.value.id in ('self', 'cls') and not test.keywords):
            return test
        recv = fr.recv
        k = recv.cls if isinstance(recv, ClassV) else getattr(recv, 'cls', None)
        if not isinstance(k, ClassInfo):
            k = fr.defcls if isinstance(getattr(fr, 'defcls', None), ClassInfo) else None
        f = k.resolve(test.func.attr) if k is not None else None
        if f is None or f.module.external or not isinstance(getattr(f, 'node', None), ast.FunctionDef):
            return test
        body = [s for s in f.node.body if not (isinstance(s, ast.Expr) and isinstance(s.value, ast.Constant))]
        if not body or not isinstance(body[-1], ast.Return) or body[-1].value is None or \
                not all(isinstance(s, ast.Assign) and len(s.targets) == 1 and isinstance(s.targets[0], ast.Name) for s in body[:-1]):
            return test
        params = [a.arg for a in f.node.args.args]
        if f.kind != 'staticmethod':
            params = params[1:]
        if len(params) != len(test.args) or any(isinstance(a, ast.Starred) for a in test.args):
            return test
        if not all(isinstance(a, (ast.Name, ast.Attribute, ast.Constant)) for a in test.args):
            return test         # arguments are written twice: only side effect free ones
        expr = inline_locals(body[-1].value, f.node)
        binding = dict(zip(params, test.args))

        class Subst(ast.NodeTransformer):
            def visit_Name(self, n):
                return copy.deepcopy(binding[n.id]) if n.id in binding else n
        return ast.fix_missing_locations(Subst().visit(copy.deepcopy(expr)))

    def refine_types(self, test, cond, fr):
        """``if isinstance(x, T)`` (possibly inside ``and``): x has type T in the then branch."""
        tests = test.values if isinstance(test, ast.BoolOp) and isinstance(test.op, ast.And) else [test]
        for t in tests:
            if isinstance(t, ast.Call) and isinstance(t.func, ast.Name) and t.func.id == 'isinstance' and \
                    len(t.args) == 2 and isinstance(t.args[0], ast.Name) and t.args[0].id in fr.env:
                tv = self.eval(t.args[1], fr)
                cur = fr.env[t.args[0].id]
                if isinstance(tv, ClassV) and isinstance(tv.cls, ClassInfo) and isinstance(cur, Sym):
                    fr.env[t.args[0].id] = Sym('typed', cur, tv)
            elif isinstance(t, ast.Call) and isinstance(t.func, ast.Name) and t.func.id == 'isinstance' and \
                    len(t.args) == 2 and isinstance(t.args[0], ast.Attribute):
                tv = self.eval(t.args[1], fr)
                cur = self.eval(t.args[0], fr)
                if isinstance(tv, ClassV) and isinstance(tv.cls, ClassInfo) and isinstance(cur, SelfV) and not isinstance(cur.typ, ClassInfo):
                    ref = dict(fr.env.get('__refined__', {}))
                    ref[cur.path] = tv.cls
                    fr.env['__refined__'] = ref

    def s_For(self, st, fr):
        it = self.eval(st.iter, fr)
        items = self.iter_items(it)
        search = self.is_search_loop(st)
        if items is None and isinstance(it, Sym) and it.op == 'phi' and len(it.args) == 2 and getattr(it, 'cond', None) is not None and \
                all(isinstance(x, ListV) and x.complete and len(x.items) <= 16 for x in it.args) and not search and not st.orelse:
            # a list that one branch of an ``if`` extended (``vectors = [a, c]; if b is not None: vectors.insert(1, b)``): the loop is the
            # conditional over the two spelled-out loops
            node = Alt(it.cond, [], [], st)
            fr.emit(node)
            a = self.fork(fr, node.then)
            b = self.fork(fr, node.orelse)
            a.cond_depth += 1
            b.cond_depth += 1
            statuses = []
            for sub, lst in ((a, it.args[0]), (b, it.args[1])):
                status = 'next'
                sub.unrolled = getattr(sub, 'unrolled', 0) + 1
                sub.in_loop += 1
                for item in lst.items:
                    self.bind_target(st.target, item, sub, st)
                    status = self.exec_body(st.body, sub)
                    if status != 'next':
                        break
                    status = 'next'
                sub.unrolled -= 1
                sub.in_loop -= 1
                statuses.append(status)
            node.then_status, node.else_status = statuses
            if statuses == ['next', 'next']:
                self.merge_env(fr, it.cond, a, b)
                return 'next'
            if statuses[0] == 'next':
                fr.env = a.env
                return 'next'
            if statuses[1] == 'next':
                fr.env = b.env
                return 'next'
            return statuses[0] if statuses[0] == statuses[1] else ('return' if 'return' in statuses else 'raise')
        if items is not None and len(items) <= 64 and not isinstance(it, (str, bytes)) and not search:
            fr.unrolled = getattr(fr, 'unrolled', 0) + 1
            fr.in_loop += 1
            broke = False
            try:
                for item in items:
                    self.bind_target(st.target, item, fr, st)
                    status = self.exec_body(st.body, fr)
                    if status == 'break':
                        broke = True
                        break
                    if status in ('return', 'raise'):
                        return status
            finally:
                fr.unrolled -= 1
                fr.in_loop -= 1
            if not broke and st.orelse:
                return self.exec_body(st.orelse, fr)
            return 'next'
        cnt = self.range_count(it)
        if cnt is not None and 0 < cnt <= 8 and not search:
            lo = it.args[0] if len(it.args) > 1 else 0
            step = it.args[2] if len(it.args) > 2 else 1
            fr.unrolled = getattr(fr, 'unrolled', 0) + 1
            fr.in_loop += 1
            try:
                for i in range(cnt):
                    self.bind_target(st.target, lo if i == 0 else self.binop(ast.Add(), lo, i * step), fr, st)
                    status = self.exec_body(st.body, fr)
                    if status == 'break':
                        break
                    if status in ('return', 'raise'):
                        return status
            finally:
                fr.unrolled -= 1
                fr.in_loop -= 1
            return 'next'
        node = Loop('for', it, ast.unparse(st.target), [], st)
        node.search = search
        fr.emit(node)
        return self.symbolic_loop(st, fr, node, Sym('elem', it))

    @staticmethod
    def range_count(it):
        """number of iterations of ``range(lo, lo + d, s)`` when d and s are constants"""
        from .canon import affine
        from .values import show as _show
        if not (isinstance(it, Sym) and it.op == 'range' and 2 <= len(it.args) <= 3):
            return None
        lo, hi = it.args[0], it.args[1]
        step = it.args[2] if len(it.args) == 3 else 1
        if not isinstance(step, int) or step <= 0:
            return None

        def atom(x):
            if isinstance(x, Sym) and x.op in ('plen', 'ulen', 'len', 'param'):
                return _show(x)
            if isinstance(x, FieldV):
                return _show(x)
            return None
        a, b = affine(lo, atom), affine(hi, atom)
        if a is None or b is None or a[1] != b[1]:
            return None
        d = b[0] - a[0]
        if d < 0:
            return 0
        return (d + step - 1) // step

    @staticmethod
    def contains_break(st):
        for n in ast.walk(st):
            if isinstance(n, ast.Break):
                return True
        return False

    @staticmethod
    def is_search_loop(st):
        """``for x in xs: if cond(x): <emit>; break`` + ``else: raise`` -- exactly one iteration emits."""
        if len(st.body) != 1 or not isinstance(st.body[0], ast.If) or st.body[0].orelse:
            return False
        ifb = st.body[0].body
        if not ifb or not isinstance(ifb[-1], ast.Break):
            return False
        return bool(st.orelse) and isinstance(st.orelse[-1], ast.Raise)

    @staticmethod
    def always_appends(body, name):
        """does every iteration of the loop body that completes normally execute ``name.append(...)``?  a top level statement of
        the body, or of the body of a top level ``try`` all of whose handlers raise; no ``continue`` anywhere in the body"""
        def is_append(s):
            return isinstance(s, ast.Expr) and isinstance(s.value, ast.Call) and isinstance(s.value.func, ast.Attribute) and \
                s.value.func.attr == 'append' and isinstance(s.value.func.value, ast.Name) and s.value.func.value.id == name

        def raises(h):
            last = h.body[-1] if h.body else None
            return isinstance(last, ast.Raise) or (isinstance(last, ast.Expr) and isinstance(last.value, ast.Call) and
                                                   ast.unparse(last.value.func).endswith('raise_from'))
        if any(isinstance(n, (ast.Continue, ast.Break)) for s in body for n in ast.walk(s)):
            return False
        for s in body:
            if is_append(s):
                return True
            if isinstance(s, ast.Try) and all(raises(h) for h in s.handlers) and any(is_append(x) for x in s.body):
                return True
        return False

    @staticmethod
    def leaves_only_after_append(st, name):
        """``while True:`` whose every ``break`` (outside nested loops) stands in a statement of the body that comes after a statement
        which always appends to ``name`` (the append itself, or a ``try`` around it all of whose handlers raise): the list has an
        element whenever the loop is left normally.  ``continue`` before the append only starts another pass"""
        if not (isinstance(st.test, ast.Constant) and st.test.value is True) or st.orelse:
            return False

        def is_append(s):
            return isinstance(s, ast.Expr) and isinstance(s.value, ast.Call) and isinstance(s.value.func, ast.Attribute) and \
                s.value.func.attr == 'append' and isinstance(s.value.func.value, ast.Name) and s.value.func.value.id == name

        def raises(h):
            last = h.body[-1] if h.body else None
            return isinstance(last, ast.Raise) or (isinstance(last, ast.Expr) and isinstance(last.value, ast.Call) and
                                                   ast.unparse(last.value.func).endswith('raise_from'))

        def breaks(s):
            out = []
            stack = [s]
            while stack:
                x = stack.pop()
                if isinstance(x, ast.Break):
                    out.append(x)
                if isinstance(x, (ast.For, ast.While, ast.FunctionDef, ast.Lambda)) and x is not s:
                    continue
                stack.extend(ast.iter_child_nodes(x))
            return out
        first = None
        for i, s in enumerate(st.body):
            if is_append(s) or (isinstance(s, ast.Try) and all(raises(h) for h in s.handlers) and any(is_append(x) for x in s.body) and
                                not s.orelse and not s.finalbody):
                first = i
                break
        if first is None:
            return False
        found = False
        for i, s in enumerate(st.body):
            if isinstance(s, (ast.For, ast.While)):
                continue
            b = breaks(s)
            if b and i <= first:
                return False
            found = found or bool(b)
        return found

    @staticmethod
    def runs_at_least_once(it, fr):
        """``range(n)`` / ``range(0, n)`` over an unsigned parsed number (or a length) that an enclosing test established to be
        non-zero"""
        from .values import show as _show
        if not (isinstance(it, Sym) and it.op == 'range' and 1 <= len(it.args) <= 2):
            return False
        if len(it.args) == 2 and it.args[0] != 0:
            return False
        n = it.args[-1]
        unsigned = (isinstance(n, FieldV) and n.op is not None and n.op.prim == 'parse_numeric') or (isinstance(n, Sym) and n.op == 'len')
        return unsigned and _show(n) in fr.nonempty

    def s_While(self, st, fr):
        cond = self.eval(st.test, fr)
        if truth(cond) is False:
            return 'next'
        node = Loop('while', cond, None, [], st)
        fr.emit(node)
        return self.symbolic_loop(st, fr, node, None)

    def symbolic_loop(self, st, fr, node, elem):
        sub = self.fork(fr, node.body)
        sub.in_loop += 1
        sub.cond_depth += 1
        before = dict(sub.env)
        list_lens = {n: len(v.items) for n, v in sub.env.items() if isinstance(v, ListV)}
        dict_state = {n: (len(v.pairs), v.complete) for n, v in sub.env.items() if isinstance(v, DictV)}
        if elem is not None:
            self.bind_target(st.target, elem, sub, st)
        status = self.exec_body(st.body, sub)
        node.status = status
        # accumulate loop carried values
        for n, new in sub.env.items():
            if n in ('__refined__', '__ast__'):
                continue
            old = before.get(n)
            if old is None and n not in before:
                fr.env[n] = Sym('loopvar', new)
                continue
            if isinstance(new, ListV) and new is old and n in list_lens and len(new.items) > list_lens[n]:
                k = list_lens[n]
                fr.env[n] = ListV(new.items[:k] + [Sym('repeat', *new.items[k:])], False)
                if isinstance(st, ast.For) and self.always_appends(st.body, n) and self.runs_at_least_once(node.iterable, fr):
                    # every iteration that completes appends, and the loop count was established to be non-zero
                    from .values import show as _show
                    fr.nonempty.add(_show(fr.env[n]))
                elif isinstance(st, ast.While) and k == 0 and self.leaves_only_after_append(st, n):
                    # ``while True`` that is left by ``break`` only, and every ``break`` comes after an append of the same pass
                    from .values import show as _show
                    fr.nonempty.add(_show(fr.env[n]))
                continue
            if isinstance(new, DictV) and new is old and n in dict_state and dict_state[n] != (len(new.pairs), new.complete):
                # a mapping filled by the loop: what it holds after an unknown number of passes is open
                fr.env[n] = DictV(list(new.pairs), False)
                continue
            if same_value(old, new):
                fr.env[n] = old if n in fr.env else new
                continue
            if isinstance(new, BytesV):
                oparts = as_bytes_parts(old) if old is not None else []
                if len(new.parts) >= len(oparts) and all(p is q or p == q for p, q in zip(oparts, new.parts)):
                    delta = new.parts[len(oparts):]
                    fr.env[n] = BytesV(oparts + [('repeat', node, delta)])
                    continue
            if isinstance(new, ListV) and isinstance(old, ListV):
                if len(new.items) >= len(old.items):
                    delta = new.items[len(old.items):]
                    fr.env[n] = ListV(old.items + [Sym('repeat', *delta)], False)
                    if delta and isinstance(st, ast.For) and self.always_appends(st.body, n) and self.runs_at_least_once(node.iterable, fr):
                        from .values import show as _show
                        fr.nonempty.add(_show(fr.env[n]))
                    elif delta and isinstance(st, ast.While) and not old.items and self.leaves_only_after_append(st, n):
                        from .values import show as _show
                        fr.nonempty.add(_show(fr.env[n]))
                    continue
            fr.env[n] = Sym('loopacc', old, new)
        if st.orelse:
            if self.contains_break(st):
                alt = Alt(Sym('loop_exhausted', node.iterable), [], [], st)
                fr.emit(alt)
                sub2 = self.fork(fr, alt.then)
                sub2.cond_depth += 1
                self.exec_body(st.orelse, sub2)
            else:
                return self.exec_body(st.orelse, fr)
        return 'next'

    def s_Try(self, st, fr):
        node = Try([], [], [], [], st)
        fr.emit(node)
        body = self.fork(fr, node.body)
        snap0 = self.key_snapshot()
        sbody = self.exec_body(st.body, body)
        ends = []
        if sbody == 'next' and st.orelse:
            body.block = node.orelse
            sbody = self.exec_body(st.orelse, body)
        key_sets = []
        if sbody == 'next':
            ends.append(body)
            key_sets.append(self.key_changes(snap0))
        statuses = [sbody]
        for h in st.handlers:
            hb = []
            excs = self.eval(h.type, fr) if h.type is not None else None
            node.handlers.append((excs, h.name, hb))
            sub = self.fork(fr, hb)
            sub.cond_depth += 1
            # variables assigned in the try body are uncertain inside the handler
            for n, v in body.env.items():
                if n in ('__refined__', '__ast__'):
                    continue
                if n not in fr.env or not same_value(fr.env[n], v):
                    sub.env[n] = Sym('phi', fr.env.get(n, Unknown('unbound')), v)
            if h.name:
                sub.env[h.name] = Sym('caught', excs)
            snap_h = self.key_snapshot()
            deleted_h = {id(p): (p, set(p.deleted)) for p in self.parsers}
            sh = self.exec_body(h.body, sub)
            statuses.append(sh)
            if sh == 'next':
                ends.append(sub)
                key_sets.append(self.key_changes(snap_h))
            else:
                # the handler leaves the function: what it deleted from (or stored into) the parsers is not seen by the code after the
                # try statement, which is reached on the other paths only
                for pid, (p, dl) in deleted_h.items():
                    p.deleted = set(dl)
                for pid, (p, ks) in snap_h.items():
                    for k, v in ks.items():
                        if p.keys.get(k) is not v:
                            p.keys[k] = v
        node.statuses = statuses
        if st.finalbody:
            fin = self.fork(fr, node.final)
            self.exec_body(st.finalbody, fin)
        if key_sets:
            self.definite_keys(key_sets, fr)
        if not ends:
            return 'return' if 'return' in statuses else 'raise'
        if len(ends) == 1:
            fr.env = ends[0].env
        else:
            base = ends[0]
            for other in ends[1:]:
                tmp = fr.child_env()
                self.merge_env(tmp, None, base, other)
                base = tmp
            fr.env = base.env
        return 'next'

    def s_With(self, st, fr):
        for item in st.items:
            v = self.eval(item.context_expr, fr)
            if item.optional_vars is not None:
                self.bind_target(item.optional_vars, Sym('with', v), fr, st)
        return self.exec_body(st.body, fr)


Frame.unrolled = 0
