"""Enumeration of the acyclic statement paths of a function body (loops taken zero times or once, every handler of a
try taken or not).  Used by rules that need "on every path to an exit ..." over small functions; raises TooManyPaths
instead of silently truncating."""
from __future__ import annotations

import ast


class TooManyPaths(Exception):
    pass


LIMIT = 4096


def paths(stmts):
    """yield (list of simple statements / tests in execution order, exit kind) with exit kind in
    {'fall', 'return', 'raise'}; tests appear as ('test', node, taken) tuples"""
    out = []

    def go(stmts, acc, k):
        if len(out) > LIMIT:
            raise TooManyPaths()
        if not stmts:
            return k(acc)
        st, rest = stmts[0], stmts[1:]
        if isinstance(st, ast.If):
            go(st.body, acc + [('test', st.test, True)], lambda a: go(rest, a, k))
            go(st.orelse, acc + [('test', st.test, False)], lambda a: go(rest, a, k))
        elif isinstance(st, (ast.For, ast.While)):
            go(st.orelse, acc + [('loop', st, 0)], lambda a: go(rest, a, k))
            go(st.body, acc + [('loop', st, 1)], lambda a: go(st.orelse, a, lambda b: go(rest, b, k)))
        elif isinstance(st, ast.Try):
            go(st.body, acc, lambda a: go(st.orelse, a, lambda b: go(st.finalbody, b, lambda c: go(rest, c, k))))
            for h in st.handlers:
                go(h.body, acc + [('except', h, True)], lambda a: go(st.finalbody, a, lambda c: go(rest, c, k)))
        elif isinstance(st, ast.With):
            go(st.body, acc + [st], lambda a: go(rest, a, k))
        elif isinstance(st, ast.Return):
            out.append((acc + [st], 'return'))
        elif isinstance(st, ast.Raise):
            out.append((acc + [st], 'raise'))
        elif isinstance(st, (ast.Break, ast.Continue)):
            k(acc + [st])
        else:
            go(rest, acc + [st], k)
    go(list(stmts), [], lambda a: out.append((a, 'fall')))
    return out
