"""Normal form of the repository's function bodies, applied when the model parses a module (before any rule or the
interpreter looks at the code).  It undoes indirections that do not change behaviour and that a rule reading the *shape*
of a statement would otherwise have to know about one by one:

* a temporary that is assigned and consumed by the very next statement - ``ok = <test>; if ok:``, ``rv = <e>; return rv``,
  ``a = <x>; b = <y>; return (a, b)`` - is written back into that statement.  Only when every read of the name in the
  function is of this kind (so the name is never live across anything else), and only in positions where the expression
  is evaluated exactly once and before everything else the consuming statement evaluates;
* ``pair = f(); a = pair[0]; b = pair[1]`` (the name used for nothing else) is ``a, b = f()``;
* ``not (a in b)`` / ``not (a is b)`` are ``a not in b`` / ``a is not b``;
* keyword arguments of the parser / composer primitives that continue the positional ones in definition order are written
  positionally (``parser.parse_numeric(name='k', item_size=2)`` is ``parser.parse_numeric('k', 2)``).

Each rewrite is an equivalence of Python programs; sa.selftest's mechanical variants (condition-via-local,
return-via-local, tuple-return-via-locals, split-pair-unpacking, negated-membership) apply the inverse rewrites to the whole
package and require every check to stay silent."""
from __future__ import annotations

import ast
import copy


def _blocks(node):
    for n in ast.walk(node):
        for field in ('body', 'orelse', 'finalbody'):
            v = getattr(n, field, None)
            if isinstance(v, list) and v and all(isinstance(x, ast.stmt) for x in v):
                yield n, field, v


def _pure(e):
    if isinstance(e, (ast.Name, ast.Constant)):
        return True
    if isinstance(e, ast.Attribute):
        return _pure(e.value)
    return False


def _consuming_slot(stmt, name):
    """if ``stmt`` evaluates the name exactly once, first (before anything impure) and unconditionally, return a function that
    replaces that occurrence by an expression; else None"""
    def is_t(e):
        return isinstance(e, ast.Name) and e.id == name and isinstance(e.ctx, ast.Load)
    if isinstance(stmt, ast.If):
        if is_t(stmt.test):
            return lambda e: setattr(stmt, 'test', e)
        if isinstance(stmt.test, ast.UnaryOp) and isinstance(stmt.test.op, ast.Not) and is_t(stmt.test.operand):
            return lambda e: setattr(stmt.test, 'operand', e)
    if isinstance(stmt, ast.Return) and stmt.value is not None:
        if is_t(stmt.value):
            return lambda e: setattr(stmt, 'value', e)
        if isinstance(stmt.value, ast.Tuple):
            elts = stmt.value.elts
            for i, x in enumerate(elts):
                if is_t(x) and all(_pure(y) and not is_t(y) for y in elts[:i]) and not any(is_t(z) for y in elts[i + 1:] for z in ast.walk(y)):
                    def put(e, i=i):
                        elts[i] = e
                    return put
    return None


def normalize_function(fn):
    loads, stores = {}, {}
    for n in ast.walk(fn):
        if isinstance(n, ast.Name):
            (loads if isinstance(n.ctx, ast.Load) else stores).setdefault(n.id, []).append(n)
    params = {a.arg for a in ast.walk(fn) if isinstance(a, ast.arg)}
    nested = set()
    for n in ast.walk(fn):
        if n is not fn and isinstance(n, (ast.FunctionDef, ast.AsyncFunctionDef, ast.Lambda, ast.ClassDef, ast.ListComp, ast.SetComp, ast.DictComp, ast.GeneratorExp)):
            for x in ast.walk(n):
                if isinstance(x, ast.Name):
                    nested.add(x.id)
    changed = True
    rounds = 0
    while changed and rounds < 8:
        changed = False
        rounds += 1
        for owner, field, block in list(_blocks(fn)):
            # --- pair temporaries
            i = 0
            while i + 2 < len(block) + 0 and i + 2 <= len(block) - 1:
                a, b, c = block[i], block[i + 1], block[i + 2]
                if isinstance(a, ast.Assign) and len(a.targets) == 1 and isinstance(a.targets[0], ast.Name) and isinstance(a.value, ast.Call):
                    t = a.targets[0].id

                    def comp(st, k):
                        return isinstance(st, ast.Assign) and len(st.targets) == 1 and isinstance(st.targets[0], ast.Name) and \
                            isinstance(st.value, ast.Subscript) and isinstance(st.value.value, ast.Name) and st.value.value.id == t and \
                            isinstance(st.value.slice, ast.Constant) and st.value.slice.value == k
                    uses = sum(1 for n in ast.walk(fn) if isinstance(n, ast.Name) and n.id == t and isinstance(n.ctx, ast.Load))
                    defs = sum(1 for n in ast.walk(fn) if isinstance(n, ast.Name) and n.id == t and isinstance(n.ctx, ast.Store))
                    if comp(b, 0) and comp(c, 1) and t not in params and t not in nested and b.targets[0].id != t and c.targets[0].id != t and \
                            b.targets[0].id != c.targets[0].id and uses == 2 * defs:
                        new = ast.Assign(targets=[ast.Tuple(elts=[b.targets[0], c.targets[0]], ctx=ast.Store())], value=a.value)
                        ast.copy_location(new, a)
                        block[i:i + 3] = [new]
                        changed = True
                        continue
                i += 1
            # --- single use temporaries consumed by the next statement
            i = 0
            while i + 1 < len(block):
                a, nxt = block[i], block[i + 1]
                if isinstance(a, ast.Assign) and len(a.targets) == 1 and isinstance(a.targets[0], ast.Name):
                    t = a.targets[0].id
                    if t not in params and t not in nested and _all_reads_follow_their_definition(fn, t):
                        slot = _consuming_slot(nxt, t)
                        reads_in_next = sum(1 for n in ast.walk(nxt) if isinstance(n, ast.Name) and n.id == t and isinstance(n.ctx, ast.Load))
                        if slot is not None and reads_in_next == 1:
                            slot(a.value)
                            del block[i]
                            changed = True
                            i = max(i - 1, 0)
                            continue
                i += 1
    return fn


def _all_reads_follow_their_definition(fn, name):
    """every read of the name sits in the statement right after an assignment ``name = ...`` of the same block (possibly
    with other such temporaries in between that the same statement consumes): the name is never live anywhere else"""
    ok = True
    found = False
    for owner, field, block in _blocks(fn):
        for i, st in enumerate(block):
            heads = [st.test] if isinstance(st, (ast.If, ast.While)) else ([st.value] if isinstance(st, (ast.Return, ast.Expr, ast.Assign)) and getattr(st, 'value', None) is not None else [])
            own = [n for h in heads for n in ast.walk(h) if isinstance(n, ast.Name) and n.id == name and isinstance(n.ctx, ast.Load)]
            if not own:
                continue
            found = True
            if isinstance(st, ast.While):
                return False
            # walk back over a run of temp assignments to find ``name = ...``
            j = i - 1
            seen = False
            while j >= 0 and isinstance(block[j], ast.Assign) and len(block[j].targets) == 1 and isinstance(block[j].targets[0], ast.Name):
                if block[j].targets[0].id == name:
                    seen = True
                    break
                j -= 1
            if not seen:
                return False
    # reads anywhere else (inside nested statements' non-head positions are caught because every statement is visited as a block member)
    total = sum(1 for n in ast.walk(fn) if isinstance(n, ast.Name) and n.id == name and isinstance(n.ctx, ast.Load))
    counted = 0
    for owner, field, block in _blocks(fn):
        for st in block:
            heads = [st.test] if isinstance(st, (ast.If, ast.While)) else ([st.value] if isinstance(st, (ast.Return, ast.Expr, ast.Assign)) and getattr(st, 'value', None) is not None else [])
            counted += sum(1 for h in heads for n in ast.walk(h) if isinstance(n, ast.Name) and n.id == name and isinstance(n.ctx, ast.Load))
    return found and ok and counted == total


class _Negations(ast.NodeTransformer):
    def visit_UnaryOp(self, node):
        self.generic_visit(node)
        if isinstance(node.op, ast.Not) and isinstance(node.operand, ast.Compare) and len(node.operand.ops) == 1:
            op = node.operand.ops[0]
            if isinstance(op, ast.In):
                return ast.copy_location(ast.Compare(left=node.operand.left, ops=[ast.NotIn()], comparators=node.operand.comparators), node)
            if isinstance(op, ast.Is):
                return ast.copy_location(ast.Compare(left=node.operand.left, ops=[ast.IsNot()], comparators=node.operand.comparators), node)
        return node


_SIGNATURES = {}


def primitive_signatures(module_path):
    """parameter names of the parser / composer primitives (common/parse.py of the package the module belongs to); a method
    name defined with different parameter lists in two of the classes is left out"""
    import os
    d = os.path.dirname(os.path.abspath(module_path))
    root = None
    while d and d != os.path.dirname(d):
        cand = os.path.join(d, 'common', 'parse.py')
        if os.path.basename(d) == 'cryptoparser' and os.path.isfile(cand):
            root = cand
            break
        d = os.path.dirname(d)
    if root is None:
        return {}
    if root not in _SIGNATURES:
        sigs, clash = {}, set()
        with open(root) as f:
            tree = ast.parse(f.read())
        for k in tree.body:
            if isinstance(k, ast.ClassDef) and k.name in ('ParserBase', 'ParserBinary', 'ParserText', 'ComposerBase', 'ComposerBinary', 'ComposerText'):
                for m in k.body:
                    if isinstance(m, ast.FunctionDef) and not m.name.startswith('__') and not m.args.vararg and not m.args.kwarg:
                        params = [a.arg for a in m.args.args[1:]]
                        if m.name in sigs and sigs[m.name] != params:
                            clash.add(m.name)
                        sigs[m.name] = params
        _SIGNATURES[root] = {k: v for k, v in sigs.items() if k not in clash}
    return _SIGNATURES[root]


class _PositionalPrimitives(ast.NodeTransformer):
    """``parser.parse_numeric(name='k', item_size=2)`` -> ``parser.parse_numeric('k', 2)``: keyword arguments of a parser /
    composer primitive that continue the positional ones in the order of the definition are written positionally (the call
    binds the same values to the same parameters)"""

    def __init__(self, sigs):
        self.sigs = sigs

    def visit_Call(self, node):
        self.generic_visit(node)
        f = node.func
        if isinstance(f, ast.Attribute) and f.attr in self.sigs and node.keywords and not any(isinstance(a, ast.Starred) for a in node.args) and \
                all(k.arg for k in node.keywords):
            params = self.sigs[f.attr]
            kw = {k.arg: k.value for k in node.keywords}
            args = list(node.args)
            moved = []
            while len(args) < len(params) and params[len(args)] in kw and params[len(args)] not in moved:
                # evaluation order is kept only when the keywords are moved in the order they are written
                nxt = params[len(args)]
                remaining = [k.arg for k in node.keywords if k.arg not in moved]
                if remaining[0] != nxt:
                    break
                args.append(kw[nxt])
                moved.append(nxt)
            if moved:
                node.args = args
                node.keywords = [k for k in node.keywords if k.arg not in moved]
        return node


def _inline_field_factories(tree):
    """``item_class = _item_class_attribute(default=str)`` in a class body, where the module level helper is nothing but
    ``return attr.ib(validator=..., **kwargs)``: the call is replaced by the ``attr.ib(...)`` it returns (the helper's ``**kwargs``
    by the keywords of the call, its module level names stay names), so that the class has the attrs field it has at run time"""
    import copy
    factories = {}
    for st in tree.body:
        if isinstance(st, ast.FunctionDef) and not st.decorator_list and len(st.body) == 1 and isinstance(st.body[0], ast.Return) and \
                isinstance(st.body[0].value, ast.Call) and ast.unparse(st.body[0].value.func) in ('attr.ib', 'attr.attrib', 'attr.field') and \
                not st.args.args and not st.args.posonlyargs and not st.args.kwonlyargs and st.args.vararg is None and st.args.kwarg is not None:
            factories[st.name] = st
    if not factories:
        return
    for cls in ast.walk(tree):
        if not isinstance(cls, ast.ClassDef):
            continue
        for st in cls.body:
            if isinstance(st, ast.Assign) and isinstance(st.value, ast.Call) and isinstance(st.value.func, ast.Name) and \
                    st.value.func.id in factories and not st.value.args:
                fn = factories[st.value.func.id]
                call = copy.deepcopy(fn.body[0].value)
                kw = []
                for k in call.keywords:
                    if k.arg is None and isinstance(k.value, ast.Name) and k.value.id == fn.args.kwarg.arg:
                        kw.extend(copy.deepcopy(st.value.keywords))
                    else:
                        kw.append(k)
                call.keywords = kw
                st.value = ast.copy_location(call, st.value)


def normalize_module(tree, path=None):
    tree = _Negations().visit(tree)
    _inline_field_factories(tree)
    sigs = primitive_signatures(path) if path else {}
    if sigs:
        tree = _PositionalPrimitives(sigs).visit(tree)
    for n in ast.walk(tree):
        if isinstance(n, (ast.FunctionDef, ast.AsyncFunctionDef)):
            normalize_function(n)
    ast.fix_missing_locations(tree)
    return tree
