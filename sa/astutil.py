"""Small AST helpers shared by the rules that still read the shape of one function: they look *through* single-assignment
locals, so that ``x = e; return x`` reads like ``return e`` and ``n = len(p); if n > k`` like ``if len(p) > k``."""
from __future__ import annotations

import ast
import copy

from .linform import single_defs


class _Inline(ast.NodeTransformer):
    def __init__(self, defs, depth):
        self.defs, self.depth = defs, depth

    def visit_Name(self, node):
        if isinstance(node.ctx, ast.Load) and node.id in self.defs and self.depth > 0:
            sub = copy.deepcopy(self.defs[node.id])
            return _Inline({k: v for k, v in self.defs.items() if k != node.id}, self.depth - 1).visit(sub)
        return node

    def visit_Lambda(self, node):
        return node


def value_defs(func_node):
    """single-assignment locals that stand for a *value*: a name bound to the result of a constructor, method or helper call
    (``parser = ParserBinary(parsable)``, ``parser = cls._make_parser(parsable)``) names an object whose identity and state
    matter and is left alone; calls of pure builtins (len, divmod, ...) are values"""
    out = {}
    for k, v in single_defs(func_node).items():
        if isinstance(v, ast.Call) and not (isinstance(v.func, ast.Name) and v.func.id in PURE_FUNCTIONS):
            continue        # the result of a constructor, method or helper call: an object with identity / state
        out[k] = v
    return out


PURE_FUNCTIONS = {'len', 'int', 'bytes', 'bytearray', 'min', 'max', 'abs', 'divmod', 'sum', 'sorted', 'tuple', 'list', 'str', 'bool', 'ord', 'chr', 'range',
                  'set', 'frozenset', 'dict', 'round', 'pow', 'any', 'all', 'repr', 'hex', 'reversed', 'enumerate', 'zip'}


def inline_locals(expr, func_node, depth=4, defs=None):
    """a copy of ``expr`` in which every local of ``func_node`` that is assigned exactly once by ``name = <expression>`` (no
    parameter, loop target, augmented or tuple assignment) is replaced by that expression, recursively"""
    if expr is None:
        return None
    defs = value_defs(func_node) if defs is None else defs
    if not defs:
        return expr
    return ast.fix_missing_locations(_Inline(defs, depth).visit(copy.deepcopy(expr)))


def returned(func_node):
    """the expressions the function returns, with single-assignment locals inlined (``None`` returns are skipped); nested
    function definitions are not entered"""
    defs = value_defs(func_node)
    out = []

    def walk(n):
        for ch in ast.iter_child_nodes(n):
            if isinstance(ch, (ast.FunctionDef, ast.AsyncFunctionDef, ast.Lambda, ast.ClassDef)):
                continue
            if isinstance(ch, ast.Return) and ch.value is not None:
                v = ch.value
                if isinstance(v, ast.Name) and v.id not in defs:
                    many = plain_definitions(func_node, v.id)
                    if many:
                        # a result variable bound in several places (one per branch): every bound value may be returned
                        out.extend(inline_locals(e, func_node, defs=defs) for e in many)
                        walk(ch)
                        continue
                out.append(inline_locals(v, func_node, defs=defs))
            walk(ch)
    walk(func_node)
    # the same expression reached through several returns is listed once per distinct text
    seen, uniq = set(), []
    for e in out:
        k = ast.dump(e)
        if k not in seen:
            seen.add(k)
            uniq.append(e)
    return uniq


def plain_definitions(func_node, name):
    """the right hand sides of all ``name = <expression>`` statements of the function when these are the only bindings of
    the name (no parameter, loop target, augmented, tuple or with / except binding); otherwise []"""
    values = []
    for n in ast.walk(func_node):
        if isinstance(n, ast.Assign):
            for t in n.targets:
                if isinstance(t, ast.Name) and t.id == name:
                    values.append(n.value)
                elif any(isinstance(x, ast.Name) and x.id == name for x in ast.walk(t)):
                    return []
        elif isinstance(n, (ast.AugAssign, ast.AnnAssign)) and isinstance(n.target, ast.Name) and n.target.id == name:
            return []
        elif isinstance(n, (ast.For, ast.comprehension)) and any(isinstance(x, ast.Name) and x.id == name for x in ast.walk(n.target)):
            return []
        elif isinstance(n, ast.arg) and n.arg == name:
            return []
        elif isinstance(n, ast.ExceptHandler) and n.name == name:
            return []
        elif isinstance(n, ast.withitem) and n.optional_vars is not None and any(isinstance(x, ast.Name) and x.id == name for x in ast.walk(n.optional_vars)):
            return []
    return values
