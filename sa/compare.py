"""Reader/writer agreement: structural comparison of a class's parse and compose canonical layouts."""
from __future__ import annotations

import ast

from .model import ClassInfo, EnumMember, ExtRef
from .layout import El, cls_name, order_tag
from .canon import Canon, Ctx, _descendants, canonical, fixed_size
from .values import (BytesV, ClassV, DictV, FieldV, ListV, ObjV, ParserV, SelfV, Sym, Unknown, is_const, show)


class Diff:
    def __init__(self, kind, detail, a=None, b=None):
        self.kind = kind        # 'shape' | 'width' | 'order' | 'link' | 'binding' | 'class' | 'missing' | 'extra'
        self.detail = detail
        self.a = a
        self.b = b

    def __repr__(self):
        return '%s: %s' % (self.kind, self.detail)


class Comparison:
    def __init__(self, cls):
        self.cls = cls
        self.diffs = []
        self.pairs = []         # (parse El, compose El)
        self.unknown = []       # things that could not be compared (silent)
        self.expansions = []
        self.expanded = {}      # id(El) -> elements it was replaced by
        self.notes = []         # normalisations applied (reported as evidence)

    @property
    def ok(self):
        return not self.diffs


def expand_nested(e, side, ctx, cmpn):
    """Replace ``nested(C)`` by C's own canonical layout on the same side (fresh copy)."""
    c = e.cls.cls if isinstance(e.cls, ClassV) else e.cls
    if not isinstance(c, ClassInfo):
        return None
    need = '_parse' if side == 'parse' else 'compose'
    f = c.resolve(need)
    if f is None or (f.abstract and ctx.interp.body_only_raises(f)):
        return None
    key = (c.qualname, side)
    # build a fresh canonical layout so that element identities are not shared between expansions
    ctx._lay.pop(key, None)
    ctx._canon.pop(key, None)
    cn = ctx.canon(c, side)
    ctx._lay.pop(key, None)
    ctx._canon.pop(key, None)
    if cn is None:
        return None
    for x in _descendants(cn.elements):
        x.extra['expanded_from'] = e
        if side == 'compose':
            x.extra['val_base'] = e.val
    cmpn.expanded[id(e)] = cn.elements
    cmpn.expansions.append((side, c.name))
    return cn.elements


def norm_array(e, ctx, cmpn=None):
    reg = cmpn.expanded if cmpn is not None else {}
    """narray(C...) -> repeat{nested(C)};  repeat{alt{nested(F) | u(w)}} with |F| == w -> array(u w)"""
    if e.kind == 'repeat' and len(e.body) == 1 and e.body[0].kind == 'alt':
        alt = e.body[0]
        if len(alt.a) == 1 and len(alt.b) == 1:
            x, y = alt.a[0], alt.b[0]
            if x.kind == 'u':
                x, y = y, x
            if x.kind == 'nested' and y.kind == 'u' and isinstance(y.w, int) and fixed_size(x, ctx) == y.w:
                arr = El('array', body=[El('u', w=y.w, order=y.order, op=y.op)], val=e.val, op=e.op, unit='count')
                arr.extra['from_repeat'] = e
                reg[id(e)] = [arr]
                arr.conditional = getattr(e, 'conditional', False)
                return arr
    if e.kind == 'narray' and len(e.cls) == 1 and ctx.is_enum_factory(e.cls[0]) and not e.extra.get('derived'):
        n = ctx.byte_num(e.cls[0])
        fb = e.extra.get('fallback')
        if fb is None or ctx.byte_num(fb) == n:
            arr = El('array', body=[El('u', w=n, order=ctx.interp.default_byte_order(), op=e.op)], val=e.val,
                     op=e.op, key=e.key, size=e.size, unit='bytes')
            reg[id(e)] = [arr]
            arr.conditional = getattr(e, 'conditional', False)
            return arr
    if e.kind == 'narray':
        classes = list(e.cls)
        fb = e.extra.get('fallback')
        item = El('nested', cls=classes[0], val=None, op=e.op)
        item.extra['alts'] = classes + ([fb] if fb is not None else [])
        item.extra['derived'] = e.extra.get('derived')
        r = El('repeat', body=[item], val=e.val, op=e.op, key=e.key, size=e.size)
        r.extra['from_narray'] = e
        reg[id(e)] = [r]
        r.conditional = getattr(e, 'conditional', False)
        item.conditional = True
        return r
    return e


def variant_classes(c, ctx):
    """Classes a VariantParsable may yield (statically from its registry), or None."""
    if not isinstance(c, ClassInfo) or not c.is_subclass_of('VariantParsableBase'):
        return None
    v = ctx.interp.const_call(c, '_get_variants')
    out = []
    if isinstance(v, DictV):
        for _, lst in v.pairs:
            items = ctx.interp.iter_items(lst)
            if items is None:
                return None
            for x in items:
                if isinstance(x, ClassV) and isinstance(x.cls, ClassInfo):
                    out.append(x.cls)
        return out
    return None


def class_compatible(pc, cc, ctx):
    """parse-side class vs compose-side declared type: True / False / None (unknown)."""
    pc = pc.cls if isinstance(pc, ClassV) else pc
    cc = cc.cls if isinstance(cc, ClassV) else cc
    if cc is None or pc is None:
        return None
    if isinstance(cc, tuple) and cc and cc[0] == 'iter':
        return None
    if not isinstance(pc, ClassInfo) or not isinstance(cc, ClassInfo):
        return None
    if pc is cc or pc.is_subclass_of(cc) or cc.is_subclass_of(pc):
        return True
    vs = variant_classes(pc, ctx)
    if vs is not None:
        if all(v.is_subclass_of(cc) or cc.is_subclass_of(v) for v in vs):
            return True
        return None
    if ctx.is_enum_factory(pc):
        ec = ctx.interp.const_call(pc, 'get_enum_class')
        if isinstance(ec, ClassV) and ec.cls is cc:
            return True
    # an object whose class merely wraps the same wire structure cannot be decided here
    return None


def bit_split(vals, widths):
    """compose ``u(w1)=(X & hi) >> s ; u(w2)= X & lo`` == big-endian ``u(w1+w2)=X`` ?  returns X or None"""
    if len(vals) != 2 or not all(isinstance(w, int) for w in widths):
        return None
    v1, v2 = vals
    w1, w2 = widths
    if not (isinstance(v1, Sym) and v1.op == 'rshift' and v1.args[1] == 8 * w2):
        return bit_split_by_evaluation(v1, v2, w1, w2)
    inner = v1.args[0]
    if not (isinstance(inner, Sym) and inner.op == 'and' and inner.args[1] == ((1 << (8 * w1)) - 1) << (8 * w2)):
        return None
    if not (isinstance(v2, Sym) and v2.op == 'and' and v2.args[1] == (1 << (8 * w2)) - 1):
        return None
    if inner.args[0] != v2.args[0]:
        return None
    return inner.args[0]


def bit_split_by_evaluation(v1, v2, w1, w2):
    """the same question for any spelling of the two halves (divmod, multiplication, a shared helper property): both are
    expressions over one common non-constant leaf X, and for X over the boundary values of the combined width
    ``v1 * 256**w2 + v2 == X`` with both halves inside their widths.  Returns X or None"""
    from .symeval import NotEvaluable, evaluate, leaves
    ls = [x for x in leaves(v1) + leaves(v2)]
    uniq = []
    for x in ls:
        if not any(show(x) == show(y) for y in uniq):
            uniq.append(x)
    if len(uniq) != 1:
        return None
    X = uniq[0]
    total = w1 + w2
    samples = {0, 1, 0xff, 0x100, 0x1ff, 0x7fff, 0x8000, 0xfffe, (1 << (8 * total)) - 1, (1 << (8 * total - 1)), 0x0304 % (1 << (8 * total)),
               int.from_bytes(bytes(range(1, total + 1)), 'big')}
    try:
        for x in sorted(v for v in samples if 0 <= v < (1 << (8 * total))):
            def leaf(v, x=x):
                if show(v) == show(X):
                    return x
                raise NotEvaluable(show(v))
            hi, lo = evaluate(v1, leaf), evaluate(v2, leaf)
            if not (isinstance(hi, int) and isinstance(lo, int)) or not (0 <= hi < (1 << (8 * w1)) and 0 <= lo < (1 << (8 * w2))) or (hi << (8 * w2)) | lo != x:
                return None
    except NotEvaluable:
        return None
    return X


def codec_name(enc):
    return enc.lower().replace('-', '').replace('_', '')


def bytestring_like(e):
    """raw bytes, encoded text, an array of single bytes, or a run of constant single bytes."""
    if e.kind in ('raw', 'text'):
        return True
    if e.kind == 'array' and e.body[0].w == 1:
        return True
    if e.kind == 'repeat' and len(e.body) == 1 and e.body[0].kind == 'u' and e.body[0].w == 1 and \
            is_const(e.body[0].val) and e.body[0].val is not None:
        return True
    return False


TEXT_CLASSES = [
    {'string', 'string_by_length', 'string_until_separator', 'string_until_separator_or_end', 'separator',
     'string_array', 'parsable_array', 'parsable'},
    {'numeric', 'float', 'time_delta'},
    {'numeric_array'},
    {'bool'},
    {'date_time'},
]


def text_compatible(a, b):
    if a == b:
        return True
    return any(a in c and b in c for c in TEXT_CLASSES)


class Matcher:
    def __init__(self, ctx, cmpn, side_a='parse', side_b='compose', expand_b=None):
        self.ctx = ctx
        self.c = cmpn
        self.side_a = side_a
        self.side_b = side_b
        self.expand_b = expand_b        # callable(El) -> elements | None, for a specification side

    def prep(self, els, side):
        out = []
        for e in els:
            if e.kind == 'raw' and 'subbody' in e.extra:
                sub = self.prep(e.extra['subbody'], side)
                self.c.expanded[id(e)] = sub
                out.extend(sub)
                continue
            if e.kind == 'nested' and side == 'parse':
                c = e.cls.cls if isinstance(e.cls, ClassV) else e.cls
                if isinstance(c, ClassInfo) and c.is_subclass_of('StringEnumParsableBase'):
                    t = El('text', enc='ascii', key=e.key, op=e.op)
                    t.conditional = getattr(e, 'conditional', False)
                    self.c.expanded[id(e)] = [t]
                    out.append(t)
                    continue
            e = norm_array(e, self.ctx, self.c)
            if e.kind in ('alt', 'tryalt'):
                out.extend(self.hoist(e))
                if not e.a and not e.b:
                    self.c.expanded[id(e)] = []
                    continue
            out.append(e)
        if side in ('compose', 'spec'):
            out = self.absorb_repeat(out)
        return out

    def split_optional_groups(self, els):
        """alt{A B | } == alt{A | } alt{B | }: an optional group and the same elements made optional one by one under the
        same condition write the same bytes (two consecutive ``if c:`` blocks merged into one, or the reverse); the matcher
        pairs optional elements by shape, not by condition, so both spellings are brought to the element-wise one"""
        out = []
        for e in els:
            if e.kind == 'alt' and not e.b and len(e.a) > 1:
                parts = []
                for x in e.a:
                    p = El('alt', a=[x], b=[], val=e.val, op=e.op)
                    p.conditional = getattr(e, 'conditional', False)
                    p.extra = dict(getattr(e, 'extra', {}) or {})
                    parts.append(p)
                self.c.expanded[id(e)] = parts
                out.extend(parts)
            else:
                out.append(e)
        return out

    def hoist(self, e):
        """alt{X A.. | X B..} == X alt{A.. | B..} for a common leading fixed-shape element X."""
        out = []
        # a fixed width nested structure facing an integer of that width in the other branch is that integer
        for mine, other in ((e.a, e.b), (e.b, e.a)):
            if mine and other and mine[0].kind == 'nested' and other[0].kind == 'u' and isinstance(other[0].w, int) and \
                    fixed_size(mine[0], self.ctx) == other[0].w and order_tag(other[0].order, 2) in ('be', ''):
                u = El('u', w=other[0].w, order=other[0].order, key=mine[0].key, val=mine[0].val, op=mine[0].op)
                u.conditional = True
                self.c.expanded[id(mine[0])] = [u]
                mine[0] = u
        while e.a and e.b and e.a[0].kind in ('u', 'flags', 'const', 'mpint', 'ts') and e.a[0].sig() == e.b[0].sig():
            x, y = e.a[0], e.b[0]
            e.a = e.a[1:]
            e.b = e.b[1:]
            x.conditional = getattr(e, 'conditional', False)
            self.c.expanded[id(y)] = [x]
            out.append(x)
        return out

    @staticmethod
    def absorb_repeat(els):
        """``alt(X truthy){A}{}`` directly followed by ``repeat over X`` == ``alt{A repeat}{}``"""
        out = []
        i = 0
        while i < len(els):
            e = els[i]
            if e.kind == 'alt' and not e.b and i + 1 < len(els) and els[i + 1].kind == 'repeat' and \
                    e.val is not None and els[i + 1].val is not None and show(e.val) == show(els[i + 1].val):
                e.a = list(e.a) + [els[i + 1]]
                out.append(e)
                i += 2
                continue
            out.append(e)
            i += 1
        return out

    def opaque_refinement(self, A, B):
        """a length prefixed body that one side treats as opaque octets (read whole and handed to a decoder of the dependency,
        or written from bytes it produced) and the other side spells out as a sequence of fixed shape integers under the same
        length prefix: the element-wise comparison has nothing to compare inside, so the spelled out side is folded into one
        opaque element.  What those octets have to be is decided by the rule that evaluates the composer against the
        specification (C07.R12 for the SEC1 point of an ECDSA key); the fold is recorded in the comparison notes."""
        def body_of(els, k):
            u = els[k]
            out = []
            m = k + 1
            listed = u.extra.get('lp_body') if isinstance(u.extra.get('lp_body'), list) else []
            while m < len(els) and (els[m].extra.get('in_lp') is u or any(els[m] is b for b in listed)):
                out.append(els[m])
                m += 1
            return out
        def prefixes(els):
            inner = set()
            for e in els:
                if e.kind == 'u' and isinstance(e.extra.get('lp_body'), list):
                    inner.update(id(b) for b in e.extra['lp_body'])
            return [k for k, e in enumerate(els) if e.kind == 'u' and 'lp_body' in e.extra and not e.extra.get('in_lp') and id(e) not in inner]
        for X, Y in ((A, B), (B, A)):
            px, py = prefixes(X), prefixes(Y)
            if len(px) != len(py):
                continue        # the length prefixed parts do not correspond one to one: left to the element-wise comparison
            for kx, ky in reversed(list(zip(px, py))):
                x, y = X[kx], Y[ky]
                if x.sig() != y.sig():
                    continue
                bx, by = body_of(X, kx), body_of(Y, ky)
                if len(bx) == 1 and bx[0].kind == 'raw' and len(by) > 1 and all(e.kind in ('u', 'const', 'mpint', 'raw') and not e.extra.get('lp_body') for e in by):
                    folded = El('raw', key=by[0].key, op=by[0].op)
                    folded.extra = {'in_lp': y, 'folded': [e.sig() for e in by]}
                    folded.conditional = getattr(by[0], 'conditional', False)
                    Y[ky + 1:ky + 1 + len(by)] = [folded]
                    self.c.notes.append('the %d elements %s inside a length prefix are compared as the opaque body the other side has there' % (len(by), ' '.join(e.sig() for e in by)))
        return A, B

    def seq(self, A, B, where):
        A = self.prep(list(A), self.side_a)
        B = self.prep(list(B), self.side_b)
        A, B = self.opaque_refinement(A, B)
        i = j = 0
        guard = 0
        while i < len(A) or j < len(B):
            guard += 1
            if guard > 2000:
                self.c.unknown.append('comparison did not converge at %s' % where)
                return
            a = A[i] if i < len(A) else None
            b = B[j] if j < len(B) else None
            if a is not None and b is not None and a.kind == 'alt' and b.kind == 'alt' and not a.b and not b.b:
                # one side groups two optional elements under one condition, the other makes them optional one by one
                if len(a.a) > 1 and len(b.a) == 1 and j + 1 < len(B) and B[j + 1].kind == 'alt' and not B[j + 1].b:
                    A[i:i + 1] = self.split_optional_groups([a])
                    continue
                if len(b.a) > 1 and len(a.a) == 1 and i + 1 < len(A) and A[i + 1].kind == 'alt' and not A[i + 1].b:
                    B[j:j + 1] = self.split_optional_groups([b])
                    continue
            if a is not None and b is not None:
                split = False
                # big-endian split of one integer into two
                if a.kind == 'u' and b.kind == 'u' and a.w != b.w and j + 1 < len(B) and B[j + 1].kind == 'u' and \
                        isinstance(a.w, int) and isinstance(b.w, int) and isinstance(B[j + 1].w, int) and \
                        a.w == b.w + B[j + 1].w and order_tag(a.order, 2) == 'be' and order_tag(b.order, 2) == 'be':
                    x = bit_split([b.val, B[j + 1].val], [b.w, B[j + 1].w])
                    if x is not None:
                        merged = El('u', w=a.w, order=a.order, val=x, op=b.op)
                        self.c.pairs.append((a, merged))
                        i += 1
                        j += 2
                        continue
                # the same split on the A side (composer code vs a specification that names one integer)
                if a.kind == 'u' and b.kind == 'u' and a.w != b.w and i + 1 < len(A) and A[i + 1].kind == 'u' and \
                        isinstance(a.w, int) and isinstance(b.w, int) and isinstance(A[i + 1].w, int) and \
                        b.w == a.w + A[i + 1].w and order_tag(a.order, 2) == 'be' and order_tag(b.order, 2) == 'be':
                    x = bit_split([a.val, A[i + 1].val], [a.w, A[i + 1].w])
                    if x is not None:
                        merged = El('u', w=b.w, order=b.order, val=x, op=a.op)
                        self.c.pairs.append((merged, b))
                        self.c.expanded[id(a)] = [merged]
                        i += 2
                        j += 1
                        continue
                # a possibly empty text/byte run written as "nothing or the run" on one side only
                if a.kind in ('alt', 'tryalt') and b.kind not in ('alt', 'tryalt') and (not a.a or not a.b):
                    inner = a.a or a.b
                    if len(inner) == 1 and (bytestring_like(inner[0]) or inner[0].kind.startswith('t:')) and \
                            (bytestring_like(b) or b.kind.startswith('t:')) and self.match(inner[0], b, where):
                        self.c.pairs.append((inner[0], b))
                        self.c.expanded[id(a)] = [inner[0]]
                        i += 1
                        j += 1
                        continue
                r = self.match(a, b, where)
                if r:
                    self.c.pairs.append((a, b))
                    i += 1
                    j += 1
                    continue
                if a.kind == 'nested':
                    ex = expand_nested(a, self.side_a, self.ctx, self.c)
                    if ex is not None and not (len(ex) == 1 and ex[0].kind == 'nested' and ex[0].cls == a.cls):
                        A[i:i + 1] = self.prep(ex, self.side_a)
                        continue
                if b.kind == 'nested':
                    if self.expand_b is not None:
                        ex = self.expand_b(b)
                        if ex is not None:
                            self.c.expanded[id(b)] = ex
                    else:
                        ex = expand_nested(b, self.side_b, self.ctx, self.c)
                    if ex is not None and not (len(ex) == 1 and ex[0].kind == 'nested' and ex[0].cls == b.cls):
                        B[j:j + 1] = self.prep(ex, self.side_b)
                        continue
                # an empty alternative on one side only
                if a.kind == 'alt' and b.kind != 'alt' and (not a.a or not a.b):
                    pass
                self.c.diffs.append(Diff('shape', '%s: parser has %s, composer has %s' % (where, a.sig(), b.sig()), a, b))
                i += 1
                j += 1
                continue
            if a is not None and a.kind == 'raw' and (a.extra.get('must_be_empty') or self.empty_body_ok(a)):
                i += 1
                continue
            if a is not None:
                if a.kind == 'alt' and (not a.a or not a.b) or a.kind == 'repeat':
                    self.c.diffs.append(Diff('missing', '%s: parser element %s has no composer counterpart' % (where, a.sig()), a, None))
                else:
                    self.c.diffs.append(Diff('missing', '%s: parser element %s has no composer counterpart' % (where, a.sig()), a, None))
                i += 1
            else:
                self.c.diffs.append(Diff('extra', '%s: composer element %s has no parser counterpart' % (where, b.sig()), None, b))
                j += 1

    def empty_body_ok(self, a):
        """parser reads ``raw`` governed by a length the composer writes as the constant 0."""
        for pa, pb in self.c.pairs:
            link = getattr(pa, 'link', None)
            if pa.kind == 'u' and link and any(t is a for t in link[2]) and link[1] == 0:
                if pb.val == 0 and pb.val is not False:
                    a.extra['must_be_empty'] = True
                    return True
        return False

    def match(self, a, b, where):
        ka, kb = a.kind, b.kind
        if ka == 'raw' and kb == 'const' or ka == 'const' and kb == 'raw':
            # parser skips/validates a constant the composer emits
            w = b.w if kb == 'const' else a.w
            other = a if ka == 'raw' else b
            if isinstance(other.size, int) and other.size != w:
                self.c.diffs.append(Diff('width', '%s: constant of %s bytes vs raw of %s' % (where, w, other.size), a, b))
            return True
        if bytestring_like(a) and bytestring_like(b):
            if ka == 'text' and kb == 'text':
                ea, eb = a.extra.get('enc'), b.extra.get('enc')
                if ea != eb and isinstance(ea, str) and isinstance(eb, str) and codec_name(ea) != codec_name(eb):
                    self.c.diffs.append(Diff('width', '%s: text encoding %s vs %s' % (where, ea, eb), a, b))
            return True
        if ka.startswith('t:') and kb.startswith('t:'):
            return text_compatible(ka[2:], kb[2:])
        if {ka, kb} <= {'text', 't:string_array', 't:parsable_array', 't:string', 't:string_by_length'} and 'text' in (ka, kb):
            return True
        if {ka, kb} == {'alt', 'tryalt'}:
            ka = kb = 'alt'
        if ka != kb:
            return False
        if ka in ('u', 'flags', 'ts'):
            if a.w is None or b.w is None or not isinstance(a.w, int) or not isinstance(b.w, int):
                self.c.unknown.append('%s: width of %s not static (%s / %s)' % (where, ka, show(a.w), show(b.w)))
            elif a.w != b.w:
                self.c.diffs.append(Diff('width', '%s: %s parsed with %d bytes, composed with %d' % (
                    where, a.key or ka, a.w, b.w), a, b))
            if isinstance(a.w, int) and a.w > 1 or isinstance(b.w, int) and b.w > 1:
                oa, ob = order_tag(a.order, 2), order_tag(b.order, 2)
                if oa != ob:
                    self.c.diffs.append(Diff('order', '%s: %s byte order %s vs %s' % (where, a.key or ka, oa, ob), a, b))
            if ka == 'flags' and a.extra.get('shift', 0) != b.extra.get('shift', 0):
                self.c.diffs.append(Diff('width', '%s: flags shift_left %s vs shift_right %s' % (
                    where, show(a.extra.get('shift')), show(b.extra.get('shift'))), a, b))
            if ka == 'ts' and bool(a.extra.get('ms')) != bool(b.extra.get('ms')):
                self.c.diffs.append(Diff('width', '%s: timestamp resolution differs' % where, a, b))
            if ka == 'ts' and (a.extra.get('from_spec') or b.extra.get('from_spec')):
                sp = a if a.extra.get('from_spec') else b
                code = b if sp is a else a
                if not sp.extra.get('forever') and getattr(getattr(code, 'op', None), 'side', 'parse') == 'parse':
                    # the timestamp primitives of the library treat the all-ones value as "no limit" (None) on both sides (C11.R5
                    # tabulates that); a format whose specification has no such value loses that instant
                    self.c.diffs.append(Diff('sentinel', '%s: the all-ones value of %s is an instant in the specification, the timestamp primitive reads and writes it as "no limit" (None)' % (
                        where, (a.key or b.key or 'the timestamp')), a, b))
            return True
        if ka == 'array':
            ia, ib = a.body[0], b.body[0]
            if isinstance(ia.w, int) and isinstance(ib.w, int):
                if ia.w != ib.w:
                    self.c.diffs.append(Diff('width', '%s: array item width %d vs %d' % (where, ia.w, ib.w), a, b))
                if ia.w > 1 and order_tag(ia.order, 2) != order_tag(ib.order, 2):
                    self.c.diffs.append(Diff('order', '%s: array item byte order differs' % where, a, b))
            else:
                self.c.unknown.append('%s: array item width not static' % where)
            return True
        if ka == 'nested' and self.side_b == 'spec':
            names = b.extra.get('names') or []
            ac = a.cls.cls if isinstance(a.cls, ClassV) else a.cls
            an = ac.name if isinstance(ac, ClassInfo) else None
            if not isinstance(ac, ClassInfo):
                self.c.unknown.append('%s: class of the composed value not statically known (specification says %s)' % (where, names))
                return True
            if an in names:
                return True
            if isinstance(ac, ClassInfo) and any(isinstance(x, ClassInfo) and x.name in names for x in ac.mro):
                return True
            return False
        if ka == 'nested':
            ok = class_compatible(a.cls, b.cls, self.ctx)
            if ok is False:
                return False
            if ok is None:
                self.c.unknown.append('%s: nested %s vs declared %s not comparable' % (where, cls_name(a.cls), cls_name(b.cls)))
            return True
        if ka in ('raw', 'sshmpint', 'strz', 'variant', 'nlist', 'const', 'unknown', 'sliced'):
            if ka == 'strz' and a.extra.get('enc') != b.extra.get('enc'):
                self.c.diffs.append(Diff('width', '%s: encoding %s vs %s' % (where, a.extra.get('enc'), b.extra.get('enc')), a, b))
            return True
        if ka == 'mpint':
            return True
        if ka == 'text':
            if a.extra.get('enc') != b.extra.get('enc') and is_const(a.extra.get('enc')) and is_const(b.extra.get('enc')):
                self.c.diffs.append(Diff('width', '%s: text encoding %s vs %s' % (where, a.extra.get('enc'), b.extra.get('enc')), a, b))
            return True
        if ka == 'repeat':
            self.seq(a.body, b.body, where + '/repeat')
            return True
        if ka in ('alt', 'tryalt'):
            # either polarity
            best = None
            for (pa, pb) in (((a.a, b.a), (a.b, b.b)), ((a.a, b.b), (a.b, b.a))):
                sub = Comparison(self.c.cls)
                m = Matcher(self.ctx, sub, self.side_a, self.side_b, self.expand_b)
                m.seq(pa[0], pa[1], where + '/alt')
                m.seq(pb[0], pb[1], where + '/alt')
                if best is None or len(sub.diffs) < len(best.diffs):
                    best = sub
                if not sub.diffs:
                    break
            self.c.diffs.extend(best.diffs)
            self.c.pairs.extend(best.pairs)
            self.c.unknown.extend(best.unknown)
            self.c.expansions.extend(best.expansions)
            self.c.expanded.update(best.expanded)
            return True
        if ka.startswith('t:'):
            return True
        return True


# -- links ------------------------------------------------------------------------------------

def leaves(e, reg):
    """Resolve an element to what it became after expansion."""
    ex = reg.get(id(e))
    if ex is None:
        return [e]
    out = []
    for x in ex:
        out.extend(leaves(x, reg))
    return out


def leaf_cover(els, reg):
    """All non-container leaves reachable from the elements (after expansion)."""
    out = []
    for e in els:
        for x in leaves(e, reg):
            if x.kind in ('alt', 'tryalt'):
                out.extend(leaf_cover(x.a, reg))
                out.extend(leaf_cover(x.b, reg))
            elif x.kind == 'repeat':
                out.extend(leaf_cover(x.body, reg))
            else:
                out.append(x)
    return out


def compare_links(cmpn, pcanon, ccanon, ctx):
    p2c = {}
    for a, b in cmpn.pairs:
        p2c[id(a)] = b

    reg = cmpn.expanded
    c2p = {id(b): a for a, b in cmpn.pairs}

    def resolve(link):
        unit, const, targets = link
        top = []
        for t in targets:
            top.extend(leaves(t, reg))
        return unit, const, top

    def fold(unit, top, partner_of, other_top_ids):
        """(const, leaves): unconditional fixed-size targets go into the constant when their partner on the
        other side is fixed-size too (or there is no partner among the other side's targets)."""
        const = 0
        keep = []
        for e in top:
            fs = fixed_size(e, ctx) if (unit == 'bytes' and not getattr(e, 'conditional', False)) else None
            if fs is not None:
                pe = partner_of(e)
                if pe is None or id(pe) not in other_top_ids or fixed_size(pe, ctx) is not None:
                    const += fs
                    continue
            keep.append(e)
        return const, leaf_cover(keep, reg)

    for a, b in cmpn.pairs:
        if a.kind != 'u':
            continue
        la, lb = getattr(a, 'link', None), getattr(b, 'link', None)
        if la is None and lb is None:
            verdict = tabulate_both_sides(a, b, pcanon, p2c)
            if verdict:
                cmpn.diffs.append(Diff('link', 'length field %s: %s' % (a.key or 'u%s' % a.w, verdict), a, b))
            continue
        where = a.key or 'u%s' % a.w
        af = getattr(b, 'val_affine', None)
        if la is not None and lb is None and af and len(af[1]) == 1:
            # len(items) * k over an array whose item width only the parser states (enum coded items): the paired parser
            # array supplies the width
            (unit, ids), coeff = next(iter(af[1].items()))
            if unit == 'count' and len(ids) == 1:
                tgt = next((x for x in ccanon.flat if id(x) == ids[0]), None)
                pa = c2p.get(id(tgt)) if tgt is not None else None
                if pa is not None and pa.kind == 'array' and pa.body and pa.body[0].w == coeff and tgt.kind == 'array' and tgt.body and tgt.body[0].w in (None, coeff):
                    lb = ('bytes', af[0], [tgt])
        afa = getattr(a, 'val_affine', None)
        if lb is not None and la is None and afa and len(afa[1]) == 1:
            # the same with the roles swapped (code on side a, specification on side b)
            (unit, ids), coeff = next(iter(afa[1].items()))
            if unit == 'count' and len(ids) == 1:
                tgt = next((x for x in pcanon.flat if id(x) == ids[0]), None)
                pb = p2c.get(id(tgt)) if tgt is not None else None
                if pb is not None and pb.kind == 'array' and pb.body and pb.body[0].w == coeff and tgt.kind == 'array' and tgt.body and tgt.body[0].w in (None, coeff):
                    la = ('bytes', afa[0], [tgt])
        if la is None and lb is not None and isinstance(a.val, int) and not isinstance(a.val, bool):
            # a constant where the other side has a length: agrees when everything the length governs has a fixed size
            ub, kb, tb = resolve(lb)
            sizes = [fixed_size(x, ctx) for x in tb]
            if ub == 'bytes' and all(z is not None for z in sizes):
                if sum(sizes) + kb != a.val:
                    cmpn.diffs.append(Diff('link', 'length field %s is the constant %d, the governed data has %d bytes' % (where, a.val, sum(sizes) + kb), a, b))
                continue
        if la is None or lb is None:
            if la is not None and b.val is not None and not is_const(b.val):
                verdict = tabulate_composer_link(a, b, la, p2c, reg)
                if verdict is None:
                    cmpn.unknown.append('length link of %s: composer value %s not analysable' % (where, show(b.val)[:80]))
                elif verdict:
                    cmpn.diffs.append(Diff('link', 'length field %s: %s' % (where, verdict), a, b))
            elif lb is not None:
                verdict = tabulate_composer_link(b, a, lb, c2p, reg) if (a.val is not None and not is_const(a.val)) else None
                if verdict is None:
                    cmpn.unknown.append('length link of %s: parser use not analysable' % where)
                elif verdict:
                    cmpn.diffs.append(Diff('link', 'length field %s: %s' % (where, verdict.replace('the parser expects', 'the other side expects')), a, b))
            continue
        ua, ka, ta = resolve(la)
        ub, kb, tb = resolve(lb)
        fa, ea = fold(ua, ta, lambda e: p2c.get(id(e)), {id(x) for x in tb})
        fb, eb = fold(ub, tb, lambda e: c2p.get(id(e)), {id(x) for x in ta})
        ka += fa
        kb += fb
        mapped = set()
        unpaired = False
        for e in ea:
            m = p2c.get(id(e))
            if m is None:
                unpaired = True
            else:
                mapped.add(id(m))
        cb = {id(e) for e in eb}
        paired_c = {id(pb) for _, pb in cmpn.pairs}
        if unpaired or (cb - paired_c):
            cmpn.unknown.append('length link of %s: some governed elements are not paired' % where)
            continue
        if mapped != cb:
            cmpn.diffs.append(Diff('link', 'length field %s governs different elements: parser %s, composer %s' % (
                where, [x.sig() + ('@%s' % x.key if x.key else '') for x in ea], [x.sig() for x in eb]), a, b))
            continue
        if ua != ub:
            cmpn.diffs.append(Diff('link', 'length field %s counts %s in the parser but %s in the composer' % (where, ua, ub), a, b))
        elif ka != kb:
            cmpn.diffs.append(Diff('link', 'length field %s: parser expects body %+d, composer writes body %+d' % (where, ka, kb), a, b))


def tabulate_composer_link(a, b, la, p2c, reg):
    """the parser reads ``field = size(T) + const`` (an affine link), the composer writes a value the affine analysis
    cannot invert (a conditional, a clamp). Decide by tabulation: for data lengths n the value the composer writes, with
    every other condition taken as true, must be n + const.  None = not evaluable; '' = agrees; text = disagreement"""
    from .symeval import NotEvaluable, evaluate
    unit, const, targets = la
    tops = []
    for t in targets:
        tops.extend(leaves(t, reg))
    tops = [t for t in tops if t.kind not in ('alt', 'tryalt')] + [x for t in tops if t.kind in ('alt', 'tryalt') for x in list(t.a) + list(t.b)]
    if unit != 'bytes' or len(tops) != 1 or tops[0].kind not in ('raw', 'text'):
        return None
    tc = p2c.get(id(tops[0]))
    if tc is None or tc.val is None:
        return None
    data = tc.val

    def same(x, y):
        try:
            return x is y or x == y or show(x) == show(y)
        except Exception:      # pylint: disable=broad-except
            return False
    # presence conditions (capability flags ...) are not part of the link: the link holds when one truth assignment to them - the
    # one under which the field and its data are written - gives n + const for every n (``if flag in caps`` and the early return
    # ``if flag not in caps: return 0`` are the same composer)
    conds = []

    def run(assignment):
        for n in (0, 1, 2, 12, 13, 20, 200):
            def leaf(v, n=n):
                if isinstance(v, Sym) and v.op in ('len', 'clen') and v.args and same(v.args[0], data):
                    return n
                if same(v, data):
                    return b'x' * n
                if isinstance(v, Sym) and v.op == 'cmp':
                    k = show(v)
                    if k not in conds:
                        conds.append(k)
                    return assignment.get(k, True)
                raise NotEvaluable(show(v))
            got = evaluate(b.val, leaf)
            if isinstance(got, bool) or not isinstance(got, int):
                return None
            if got != n + const:
                return 'for %d data byte(s) the composer writes %d, the parser expects data length %+d = %d' % (n, got, const, n + const)
        return ''
    try:
        first = run({})
        if first is None or first == '':
            return first
        import itertools
        keys = list(conds)
        if len(keys) > 4:
            return first
        for values in itertools.product((True, False), repeat=len(keys)):
            r = run(dict(zip(keys, values)))
            if r == '':
                return ''
        return first
    except NotEvaluable:
        return None


def tabulate_both_sides(a, b, pcanon, p2c):
    """neither side is affine (e.g. the parser clamps the size with max()): when the parser sizes exactly one raw / text
    element by an expression over this field and the composer writes the field from the length of that element's value,
    compose the field for n data bytes and feed it to the parser's size expression: it must give n back.
    None / '' = nothing to say; text = disagreement"""
    from .symeval import NotEvaluable, evaluate, leaves as sym_leaves
    if a.key is None or not isinstance(b.val, Sym):
        return None
    cands = []
    for e in _descendants(pcanon.elements):
        sz = getattr(e, 'size', None)
        if e.kind in ('raw', 'text') and isinstance(sz, Sym):
            lv = [x for x in _sym_nodes(sz) if isinstance(x, FieldV)]
            if lv and all(x.key == a.key for x in lv):
                cands.append(e)
    if len(cands) != 1:
        return None
    tp = cands[0]
    tc = p2c.get(id(tp))
    if tc is None or tc.val is None:
        return None
    data = tc.val

    def same(x, y):
        try:
            return x is y or x == y or show(x) == show(y)
        except Exception:      # pylint: disable=broad-except
            return False
    if not any(isinstance(x, Sym) and x.op in ('len', 'clen') and x.args and same(x.args[0], data) for x in _sym_nodes(b.val)):
        return None
    try:
        for n in (0, 1, 2, 12, 13, 20, 200):
            def leaf_c(v, n=n):
                if isinstance(v, Sym) and v.op in ('len', 'clen') and v.args and same(v.args[0], data):
                    return n
                if same(v, data):
                    return b'x' * n
                if isinstance(v, Sym) and v.op == 'cmp':
                    return True
                raise NotEvaluable(show(v))
            written = evaluate(b.val, leaf_c)
            if isinstance(written, bool) or not isinstance(written, int):
                return None

            def leaf_p(v, written=written):
                if isinstance(v, FieldV) and v.key == a.key:
                    return written
                if isinstance(v, Sym) and v.op == 'call' and v.args and v.args[0] in ('max', 'min') and len(v.args) == 3:
                    x, y = evaluate(v.args[1], leaf_p), evaluate(v.args[2], leaf_p)
                    return max(x, y) if v.args[0] == 'max' else min(x, y)
                raise NotEvaluable(show(v))
            read = evaluate(tp.size, leaf_p)
            if read != n:
                return 'the composer announces %d data byte(s) as %d, for which the parser reads %s byte(s) of %s' % (n, written, read, tp.key)
    except NotEvaluable:
        return None
    return ''


def _sym_nodes(v):
    out = [v]
    if isinstance(v, Sym):
        for x in v.args:
            out.extend(_sym_nodes(x))
        if getattr(v, 'cond', None) is not None:
            out.extend(_sym_nodes(v.cond))
    return out


# -- bindings -----------------------------------------------------------------------------------

def collect_fields(v, out, inner=None, depth=0):
    if depth > 12:
        return
    if isinstance(v, FieldV):
        out.append((v, inner))
    elif isinstance(v, Sym):
        for a in v.args:
            collect_fields(a, out, inner, depth + 1)
    elif isinstance(v, ObjV):
        for k, a in (v.ctor_args or {}).items():
            collect_fields(a, out, k if isinstance(k, str) else inner, depth + 1)
        for k, a in v.attrs.items():
            collect_fields(a, out, k, depth + 1)
    elif isinstance(v, (tuple,)):
        for a in v:
            collect_fields(a, out, inner, depth + 1)
    elif isinstance(v, ListV):
        for a in v.items:
            collect_fields(a, out, inner, depth + 1)
    elif isinstance(v, DictV):
        for k, a in v.pairs:
            collect_fields(a, out, inner, depth + 1)


def ctor_attr_map(cls, model):
    """explicit ``__init__`` parameter -> attribute it ends up in (AST level, one super() hop)."""
    init = cls.resolve('__init__')
    if init is None:
        return None
    m = {}
    params = init.params[1:]
    for st in ast.walk(init.node):
        if isinstance(st, ast.Assign) and len(st.targets) == 1 and isinstance(st.targets[0], ast.Attribute) and \
                isinstance(st.targets[0].value, ast.Name) and st.targets[0].value.id == 'self':
            names = [n.id for n in ast.walk(st.value) if isinstance(n, ast.Name) and n.id in params]
            for n in names:
                m.setdefault(n, st.targets[0].attr)
        if isinstance(st, ast.Call) and isinstance(st.func, ast.Attribute) and st.func.attr == '__init__' and \
                isinstance(st.func.value, ast.Call) and isinstance(st.func.value.func, ast.Name) and \
                st.func.value.func.id == 'super':
            base_fields = None
            for c in cls.mro[1:]:
                if isinstance(c, ClassInfo) and c.attrs_decorated:
                    base_fields = [f for f in c.attrs_fields() if f.init]
                    break
            if base_fields is None:
                continue
            for idx, a in enumerate(st.args):
                if isinstance(a, ast.Name) and a.id in params and idx < len(base_fields):
                    m.setdefault(a.id, base_fields[idx].name)
            for kw in st.keywords:
                if isinstance(kw.value, ast.Name) and kw.value.id in params and kw.arg:
                    m.setdefault(kw.value.id, kw.arg)
    return m


def parse_bindings(result, cls, model):
    """(parser id, key) -> (attribute the parsed value ends up in, innermost keyword)."""
    val = result.value
    objs = []

    def find_obj(v):
        if isinstance(v, tuple) and v:
            find_obj(v[0])
        elif isinstance(v, ObjV):
            objs.append(v)
        elif isinstance(v, Sym) and v.op == 'phi':
            for a in v.args:
                find_obj(a)
    find_obj(val)
    out = {}
    for obj in objs:
        amap = ctor_attr_map(obj.cls, model) if getattr(obj, 'explicit_init', None) is not None else None
        for pname, pv in (obj.ctor_args or {}).items():
            attr = pname
            if amap is not None:
                attr = amap.get(pname, pname)
            found = []
            collect_fields(pv, found)
            for fv, inner in found:
                out.setdefault((id(fv.parser), fv.key), []).append((attr.lstrip('_') if isinstance(attr, str) else attr, inner))
        for s in obj.star:
            parsers = []
            if isinstance(s, ParserV):
                parsers.append(s)
            elif isinstance(s, DictV):
                parsers.extend(x for x in s.star if isinstance(x, ParserV))
                for k, v in s.pairs:
                    found = []
                    collect_fields(v, found)
                    for fv, inner in found:
                        out.setdefault((id(fv.parser), fv.key), []).append((k, inner))
            for p in parsers:
                for k in p.keys:
                    if k not in p.deleted:
                        out.setdefault((id(p), k), []).append((k, None))
    return out


def substituted_constant(v):
    """``self.attr`` written on one arm of a conditional expression and a value that reads nothing of the object on the other:
    (attr, the other value), else None"""
    if not isinstance(v, Sym):
        return None
    if v.op == 'call' and v.args and v.args[0] in ('min', 'max') and len(v.args) == 3:
        v = Sym(v.args[0], *v.args[1:])
    if v.op in ('min', 'max') and len(v.args) == 2:
        # the attribute clamped at a constant: beyond it the constant is written
        for own, other in (v.args, v.args[::-1]):
            if isinstance(own, SelfV) and len(own.path) == 1 and isinstance(own.path[0], str) and not compose_root(other):
                return own.path[0].lstrip('_'), other
        return None
    if v.op == 'phi' and len(v.args) == 2:
        for arm in v.args:
            inner = substituted_constant(arm) if isinstance(arm, Sym) and (arm.op in ('min', 'max') or (arm.op == 'call' and arm.args and arm.args[0] in ('min', 'max'))) else None
            if inner is not None and any(isinstance(x, SelfV) and x.path and x.path[0].lstrip('_') == inner[0] for x in v.args):
                return inner
    if v.op == 'boolor' and len(v.args) == 2:
        # ``self.attr or CONSTANT``: None (and every other false value - 0, the epoch) is replaced by the constant
        own, other = v.args
        if isinstance(own, SelfV) and len(own.path) == 1 and isinstance(own.path[0], str) and not compose_root(other) and \
                (is_const_value(other) or isinstance(other, ObjV) or isinstance(other, Sym)):
            return own.path[0].lstrip('_'), other
        return None
    if v.op == 'ifexp' and len(v.args) == 3:
        arms, cond = v.args[1:], v.args[0]
    elif v.op == 'phi' and len(v.args) == 2:
        # the same written with statements (a property or helper that returns the constant on one path, the attribute on the other)
        arms, cond = v.args, getattr(v, 'cond', None)
    else:
        return None
    for own, other in (arms, arms[::-1]):
        if isinstance(own, SelfV) and len(own.path) == 1 and isinstance(own.path[0], str) and not compose_root(other) and \
                (is_const_value(other) or isinstance(other, ObjV)):
            if isinstance(cond, Sym) and cond.op == 'cmp' and cond.args[0] in ('==', 'is') and \
                    any(show(x) == show(other) for x in cond.args[1:]) and any(show(x) == show(own) for x in cond.args[1:]):
                return None         # ``K if self.x == K else self.x``: the constant stands for itself
            return own.path[0].lstrip('_'), other
    return None


def is_const_value(v):
    from .values import is_const
    from .model import EnumMember
    return is_const(v) or isinstance(v, EnumMember) or (isinstance(v, Sym) and v.op in ('call', 'extcall') and not compose_root(v))


def stored_as_read(presult, a, attr):
    """does every object the parser returns get the value read under ``a.key`` itself as the argument called ``attr``?"""
    objs = []

    def find_obj(v):
        if isinstance(v, tuple) and v:
            find_obj(v[0])
        elif isinstance(v, ObjV):
            objs.append(v)
        elif isinstance(v, Sym) and v.op == 'phi':
            for x in v.args:
                find_obj(x)
        else:
            objs.append(None)
    find_obj(presult.value)
    if not objs or any(o is None for o in objs):
        return False
    for o in objs:
        if getattr(o, 'explicit_init', None) is not None:
            return False
        got = [v for k, v in (o.ctor_args or {}).items() if isinstance(k, str) and k.lstrip('_') == attr]
        if not got and a.key == attr and any(x is a.op.target and attr in x.keys and attr not in x.deleted for x in o.star if isinstance(x, ParserV)):
            continue        # ``cls(**parser)``: the keyword is the parser key, the value what was read
        if len(got) != 1 or not isinstance(got[0], FieldV) or got[0].key != a.key or got[0].parser is not a.op.target:
            return False
    return True


def single_valued(op, model):
    """is the value read by this primitive converted into an enumeration with one member (nothing but that member parses)?"""
    from .values import ClassV
    for v in (op.args or {}).values():
        c = v.cls if isinstance(v, ClassV) else None
        if c is not None and getattr(c, 'is_enum', False):
            table = c.enum_members
            if table is not None and len(table) <= 1:
                return True
    return False


def parsed_then_dropped(presult, cls, model, written):
    """name of the attribute the composer writes as it is (``self.attr``) when every object the parser returns is built by a
    call whose arguments are all known and none of them is that attribute"""
    if not isinstance(written, SelfV) or len(written.path) != 1 or not isinstance(written.path[0], str):
        return None
    name = written.path[0]
    objs = []

    def find_obj(v):
        if isinstance(v, tuple) and v:
            find_obj(v[0])
        elif isinstance(v, ObjV):
            objs.append(v)
        elif isinstance(v, Sym) and v.op == 'phi':
            for a in v.args:
                find_obj(a)
        else:
            objs.append(None)
    find_obj(presult.value)
    if not objs or any(o is None for o in objs):
        return None
    for o in objs:
        if o.star or o.ctor_args is None or getattr(o, 'explicit_init', None) is not None:
            return None
        if name.lstrip('_') in {k.lstrip('_') for k in o.ctor_args if isinstance(k, str)}:
            return None
        if o.cls is not cls or name.lstrip('_') not in {f.name.lstrip('_') for f in o.cls.attrs_fields()}:
            return None
    return name


def compose_root(v, depth=0):
    """Root attribute(s) of ``self`` a composed value is read from."""
    roots = set()

    def rec(x, d):
        if d > 12:
            return
        if isinstance(x, SelfV):
            if x.path:
                roots.add((x.path[0].lstrip('_'), x.path[-1]))
            else:
                roots.add(('*', '*'))
        elif isinstance(x, Sym):
            for a in x.args:
                rec(a, d + 1)
        elif isinstance(x, tuple):
            for a in x:
                rec(a, d + 1)
        elif isinstance(x, ListV):
            for a in x.items:
                rec(a, d + 1)
        elif isinstance(x, BytesV):
            for p in x.parts:
                if p[0] in ('raw', 'nested'):
                    rec(p[1], d + 1)
    rec(v, depth)
    return roots


def translated_through_table(v, depth=0):
    """is the written value obtained by looking a ``self`` attribute up in a constant dict (``TABLE.get(self.x, ...)`` /
    ``TABLE[self.x]``)?  returns a short description or None"""
    if depth > 8 or not isinstance(v, Sym):
        return None
    if v.op == 'call' and v.args and isinstance(v.args[0], Sym) and v.args[0].op == 'attr' and isinstance(v.args[0].args[0], DictV) and \
            v.args[0].args[1] in ('get', 'pop', 'setdefault') and any(isinstance(x, SelfV) for x in v.args[1:]):
        return 'dict.%s(%s)' % (v.args[0].args[1], ', '.join(show(x) for x in v.args[1:3]))
    if v.op == 'index' and len(v.args) == 2 and isinstance(v.args[0], DictV) and isinstance(v.args[1], SelfV):
        return 'dict[%s]' % show(v.args[1])
    for a in v.args:
        r = translated_through_table(a, depth + 1)
        if r is not None:
            return r
    return None


REORDERING = ('sorted', 'reversed', 'set', 'frozenset')


def reordered(v, depth=0):
    """name of the builtin that rearranges (or dedups) the sequence attribute the composer writes, else None"""
    if depth > 3 or not isinstance(v, Sym):
        return None
    if v.op in REORDERING and v.args and any(isinstance(x, SelfV) for x in v.args[:1]):
        return v.op
    if v.op in ('list', 'tuple', 'iter') and v.args:
        return reordered(v.args[0], depth + 1)
    return None


def compare_order(cmpn):
    """a repeated element is written in the order the object holds its items: the parser appends them as they come, so a composer
    that sorts (reverses, dedups) them gives other bytes than were parsed and another object than was composed"""
    for a, b in cmpn.pairs:
        if b.kind in ('repeat', 'array', 'narray') or a.kind in ('repeat', 'array', 'narray'):
            how = reordered(b.val)
            if how:
                cmpn.diffs.append(Diff('binding', 'the composer writes %s, the parser keeps the items in wire order: a sequence that is not in that '
                                       'order is not reproduced byte for byte, and does not come back from its own bytes' % show(b.val)[:60], a, b))


def compare_bindings(cmpn, presult, cls, model):
    compare_order(cmpn)
    binds = parse_bindings(presult, cls, model)
    for a, b in cmpn.pairs:
        if a.key is None or a.op is None or getattr(a.op, 'target', None) is None:
            continue
        if a.extra.get('expanded_from') is not None or b.extra.get('expanded_from') is not None:
            continue
        bl = binds.get((id(a.op.target), a.key))
        if not bl:
            dropped = parsed_then_dropped(presult, cls, model, b.val)
            if dropped and not single_valued(a.op, model):
                cmpn.diffs.append(Diff('binding', 'value parsed as %r reaches no argument of the constructed %s, so attribute %s keeps its default whatever '
                                       'was on the wire; the composer writes that attribute at this position' % (a.key, cls.name, dropped), a, b))
            continue
        roots = compose_root(b.val) if b.val is not None else set()
        if not roots:
            continue
        pattrs = {x[0] for x in bl}
        cattrs = {r[0] for r in roots}
        tr = translated_through_table(b.val)
        if tr is not None and (pattrs & cattrs):
            cmpn.diffs.append(Diff('binding', 'the composer does not write attribute %s as it is but looks it up in a table first (%s): the value parsed '
                                   'at this position is stored unchanged, so the two sides disagree for every key of the table' % (sorted(pattrs & cattrs), tr), a, b))
            continue
        if '*' in cattrs:
            continue
        if pattrs & cattrs:
            sub = substituted_constant(b.val)
            if sub is not None and stored_as_read(presult, a, sub[0]):
                cmpn.diffs.append(Diff('binding', 'the composer writes %s in place of attribute %s for some of its values (%s), the parser stores '
                                       'what it reads there unchanged: such an object does not come back from its own bytes' % (
                                           show(sub[1])[:60], sub[0], show(b.val)[:100]), a, b))
                continue
            # same root attribute; compare innermost names when both sides have one
            inner_p = {x[1] for x in bl if x[1] and x[0] in cattrs}
            inner_c = {r[1] for r in roots if r[0] in pattrs and r[1] != r[0]}
            if inner_p and inner_c and not (inner_p & inner_c) and all(isinstance(x, str) for x in inner_p):
                # names of nested constructor keywords vs attribute path tail: only report when both are
                # attribute names of the same params class
                cmpn.unknown.append('inner binding %s vs %s for %s' % (sorted(inner_p), sorted(inner_c), a.key))
            continue
        cmpn.diffs.append(Diff('binding', 'value parsed as %r is stored in attribute %s but the composer writes %s at that position' % (
            a.key, sorted(pattrs), sorted(cattrs)), a, b))


def compare_class(cls, ctx, strip_header=None):
    """``strip_header`` = (number of leading parser elements, byte width of the leading composer integers) of a header a
    dedicated rule decides: both are left out of the element-wise comparison"""
    cmpn = Comparison(cls)
    pc = ctx.canon(cls, 'parse')
    cc = ctx.canon(cls, 'compose')
    if pc is None or cc is None:
        cmpn.unknown.append('layout not derivable')
        return cmpn
    cmpn.pcanon, cmpn.ccanon = pc, cc
    m = Matcher(ctx, cmpn)
    pe, ce = list(pc.elements), list(cc.elements)
    if strip_header is not None:
        n, width = strip_header
        pe = pe[n:]
        w = 0
        while ce and ce[0].kind == 'u' and w < width:
            w += ce[0].w
            ce = ce[1:]
        if w != width:
            cmpn.diffs.append(Diff('shape', '%s: composer does not start with a %d byte header' % (cls.name, width), None, None))
    m.seq(pe, ce, cls.name)
    compare_links(cmpn, pc, cc, ctx)
    compare_bindings(cmpn, ctx.layout(cls, 'parse').result, cls, ctx.model)
    return cmpn
