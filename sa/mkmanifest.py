"""Writes /verif/MANIFEST.json from the table below (run: python3 -m sa.mkmanifest)."""
from __future__ import annotations

import importlib
import json
import os

VERIF = os.path.dirname(os.path.dirname(os.path.abspath(__file__)))

BASELINE_CMD = ('cd /repo && /venv/bin/python -m pytest -ra -q -p no:cacheprovider --timeout=900 '
                '--continue-on-collection-errors')

P = {
    'C01': ('layout / binding symmetry of parser and composer (abstract interpretation of the DSL), length links (affine, by window, tabulated), vector item-kind agreement, tabulated name=value and TXT composers, equality over the composed state, SCSV fold tabulated through the class defaults, small codecs evaluated against the wire format, defaults that read the clock, flag keyed optional parts, truth valued fields; a parsed field that reaches no constructor argument; a constant written in place of an attribute; sequences composed in the order held; timestamp / flag primitives and ECDSA points (shared tabulations); validators in the position of a default; adjacent optional text parts with the same introducer; SSH identification string and SPF network terms by tabulation (shared)',
            'Decides the reader/writer-agreement clause of the round trip for all field values: same element sequence, widths, byte order, '
            'text codecs, nesting, optional branches, repetition; every length field the parser uses is derived by the composer from the '
            'size of what it writes (a stored or cached number is a finding); attribute binding on both sides; the SSL 2.0 header by '
            'tabulation; vector parameter vs vector composer; exhaustiveness of directions and registries; and that every parsable class '
            'compares by value over all the state its composer writes; a composer adds no item the object does not hold; the signalling cipher suites survive the fold for every combination; a default that reads the clock survives compose / parse; an optional part keyed on a flag is keyed on the same flag on both sides. Value-level equality of converters is not decided.'),
    'C02': ('exception-escape analysis over the parse-reachable call graph, converter / validator discipline of constructed objects, per-call-site bounds of datetime conversions, tabulated flag conversion, value-constraining validators, decoded-document shape, data-table shape; recursion on the parse side; TypeError / AttributeError of the lazy ASN.1 decoder',
            'Decides that no undocumented exception escapes through explicit raises, unconverted converter errors and value-constraining attrs validators (repository and library '
            'converters, by argument kind), validators that do not accept what the parse primitive produces, undefined parser keys, risky '
            'operations on input-derived values, lazily decoded ASN.1 and certificate objects (any member read outside a ValueError handler), JSON documents of an unexpected shape, absent directives or nullable '
            'data-table columns, on any path from a parse entry point. TypeError from wrong argument types deep inside library internals '
            'is not decided.'),
    'C03': ('entry-point contract, input ownership, return-length forms, size-sign intervals, frame containment, nested-length use, sized-array and declared windows, SSL 2.0 length tabulated, entry points and parse_parsable evaluated from their own statements (AST / paths / DSL IR); byte level primitives evaluated with the real struct module; banner terminator (shared with C07); sized-array windows followed through helper chains; frames of constant size pinned to that size; decoder strictness flag',
            'Decides the shape of the three entry points, that no parser mutates the caller buffer, that reported lengths have a sound form '
            '(library re-encodings only as load(input).dump()), that sizes handed to primitives cannot be negative, that framing units and '
            'sized arrays parse inside the declared length, that the length a nested parse reports is used, and the SSL 2.0 RECORD-LENGTH '
            'for every header value.'),
    'C04': ('guard / payload agreement at every NotEnoughData site, completeness gates on every path, header constants, propagation of NotEnoughData through handlers, LDAP short-input pattern (bridge evaluated on a model of the library), SSL 2.0 length tabulated, consumed length of framing units; handshake fields contained in the declared payload (shared with C03.R5)',
            'Decides that every missing-byte count is needed-minus-available under a strict guard, that every path of a framing unit that '
            'returns a frame passes a completeness gate on the declared length, that header constants do not exceed the minimal frame, that '
            'no handler on a binary path swallows NotEnoughData, that the LDAP bridge recognises the decoder\'s short-input message for '
            'every byte count, the SSL 2.0 length arithmetic, and that the length a framing unit reports is the number of bytes it occupied. The reader-loop induction over fragmentations is an argument, not '
            'machine checked.'),
    'C05': ('parse-range within compose-domain on the DSL IR, zone normalisation, SCSV fold/unfold, None-preserving converters, tabulated name=value / TXT / SPF network composers, URL projection, composer purity, timestamp and flag primitives tabulated, text dates tabulated over a model of dateutil, JSON number members, IDNA names with the real codec (accepted means composable), DNSKEY RSA / DSA key fields as a parse-compose-parse pipeline; numeric presence by truth value; ECDSA points (shared); no local-time API between bytes and object; identification string composer evaluated',
            'Decides structural necessary conditions of canonical-form stability: everything the parser accepts can be composed; absent '
            'optional components stay absent; empty and absent values are written differently; URLs are rebuilt from all parts; TXT data '
            'is chunked without loss; compose leaves the object as it was; a timestamp that is accepted is written back as the same bytes; dates in text form, JSON seconds, DNS / SNI names and DNSKEY key fields that are accepted can be composed and read back equal. Idempotence itself is value level.'),
    'C06': ('extracted parser and composer layouts compared with RFC layouts transcribed independently (sa/specs/tls.json), SSL 2.0 header tabulated over all header bytes on both sides, variant order, rejection table, timestamp primitives tabulated; extension dispatch tables against the side (client / server) the specification sends a structure in; SCSV fold tabulated with an extension list; attributes composed as stored (no constant or clamp in place of an attribute)',
            'Decides for every supported SSL/TLS structure that both extracted layouts equal the RFC layout (order, widths, endianness, exact '
            'vector floor/ceiling and prefix width, length fields computed from the written data, attribute and registry bindings), that '
            'the numeric registries equal the RFC/IANA numbers, that variant lists can decline, that parsers reject only what the '
            'specification tells them to, and the timestamp primitives behind gmt_unix_time and SCTs.'),
    'C07': ('layouts vs sa/specs/ssh.json, tabulated padding arithmetic, mpint pipeline tabulated against RFC 4251, software-version, banner terminator and name-list scanners tabulated from their own statements, rejection table, timestamp primitives; attributes handed to primitives as stored; registry names matched exactly (shared with C10)',
            'Decides SSH layouts against the RFC tables, the padding rule for all payload lengths, mpint encoding for boundary bit lengths at '
            'any offset (thorough: every bit length up to 4129), banner grammar (version, software, comment, terminator, 255 byte limit) evaluated on a table of identification lines, name-list splitting, certificate validity '
            'timestamps, rejections against the specification table, the curve of EdDSA keys, the SEC1 point of ECDSA keys for coordinates with leading zero octets; canonical form of negative mpints is outside the quantifier.'),
    'C08': ('layouts vs sa/specs/dns.json, key tag tabulated against RFC 4034 Appendix B, RSA exponent length form and modulus width, per-algorithm key sizes, TXT chunking, complete consumption of key bytes, key material per algorithm evaluated, DSA key fields (T and the common field width) as a pipeline, shared integer / timestamp / flag tabulations; DNSKEY records evaluated per algorithm of the registry (incl. a DSA prime just above a power of two); length demanded up front against the shortest RDATA of the specification',
            'Decides DNSSEC RDATA layouts and per-algorithm key sizes against the RFC tables, the key tag over RDATA samples on both sides of '
            'every carry boundary (even and odd lengths), the RFC 3110 exponent length forms and modulus width, that no key bytes are left '
            'unread, TXT character-strings, and the primitives behind RRSIG timestamps and DNSKEY flags.'),
    'C09': ('layouts / registries / bindings vs sa/specs/opp.json, return-class fidelity, tag discrimination (LDAP request name included), NUL-terminated string primitive tabulated, rejection table, LDAP bridge evaluated, no class level container in parse results, 3 byte integers tabulated with the real struct; flag keyed optional parts and flag / timestamp tabulation on the opportunistic-TLS modules; no module or class level memo between wire word and value; reported lengths of the messages',
            'Decides MySQL/RDP/OpenVPN/PostgreSQL layouts and byte orders, which registry each flag field is decoded through, LDAP schema '
            'tables, that a _parse returns its own class, that every message class checks the tag (or request name) it read, and the '
            'string<NUL> primitive on empty / offset / unterminated inputs, that no mutable object created at class or module level becomes part of a '
            'parsed message, and the 3 byte length fields for every boundary value.'),
    'C10': ('alias-freeness of all enum tables, equality-search shape of decoders, width agreement, preserve-or-reject, GREASE decision tabulated over all codes, strict decoding, variant order, exact name matching of string registries, integer widths tabulated; factories that override the generic decoder evaluated with the real enumeration; a decoded code point reaches the attribute the composer writes; no table that outlives the call between a code and its member',
            'Discharges the whole code space without enumeration: decoding is an equality search over an alias-free table with width-matched '
            'fallback, GREASE classification equals RFC 8701 for all 256 / 65536 codes, wire text is decoded strictly, no variant shadows '
            'the ones behind it, a name index is keyed and queried by the exact wire name, unsigned decoding of every width. Contents of the dependency tables being the IANA values is decided only for the registries in sa/specs.'),
    'C11': ('struct format table, per-byte-order branch evaluation, narrowing and masking rules, who-may-call rule for local-time APIs, flag / timestamp primitives and mpint pipelines tabulated; timestamp fields receive the stored attribute (no constant in place of None); flag tabulation with repeated members; local-time functions handed on as values, astimezone without a zone test; the primitives keep nothing between calls',
            'Decides the primitive-level clauses; flags, timestamps (4 and 8 bytes, seconds and milliseconds, any UTC offset, values beyond '
            '2^32, the sentinel) and SSH / fixed-length mpints are tabulated against their definitions, including refusal instead of '
            'truncation and no truncating mask in front of a width-limited write. Exactness of struct itself is trusted.'),
    'C12': ('typestate / ownership rules on ArrayBase: check-before-mutate, bound check shape, field ownership, slice kinds, prefix source, atomic bulk edits, item-size agreement, protocol bounds, edit interface tabulated as a transition system, construction tabulated; None items and positions a list refuses in the edit tabulation; width booked per item equals width written (shared with C10.R3); state kept next to the item list is rewritten by every mutator; per-kind item sizes against composer layouts; prefix rule through compose helpers',
            'With R1-R8 the invariant "_items_size == encoded body size, within the protocol\'s bounds" is inductive over the sequence '
            'interface, and a refused edit changes nothing; R9 decides the same by running every edit from every small state; R10 that a new vector '
            'owns its item list.'),
    'C13': ('effect analysis of observers by abstract interpretation, shared mutable defaults (with the vector-constructor premise), input-alias taint, returned internals, provenance of class / module level containers and cached objects, in-place effects through aliases and helpers; mutable class level containers as fallbacks of instance attributes; mutable parameter defaults',
            'Decides purity of every observer (writes to self / class state; a sufficient condition; swap-and-restore accepted only on a '
            'class named in the source), absence of shared mutable attrs defaults, of aliasing of the input buffer, and of observers '
            'handing out the object\'s own mutable containers, and that nothing mutable kept at class or module level is handed out in a parse result.'),
    'C14': ('ordered-iteration, no-shared-state, total-dispatch, literal-template, foreign-object, strict-codec and serialiser-purity rules; timedelta and hex rendering tabulated; ordered mapping fields; finite floats; Markdown functions return text (def-use); list concatenation with loosely validated fields; equal leaf values render equal (evaluated with the real datetime type); native values of OPTIONAL ASN.1 fields tested before use; modulus / prime of parsed keys positive (key size is their logarithm); text of parameter objects against null table fields; rendering decodes nothing; plain classes have a rendering; optional parts of a URL tested before use',
            'Decides the determinism and dispatch clauses, that rendering stores nothing into the rendered object, that no float field can hold NaN / '
            'infinities, that as_markdown hands back text, that equal instants render equal; success for every value of every type is not decided.'),
    'C15': ('ja3 tabulated over abstract hellos against the published definition (syntactic fallback), def-use agreement with compose, GREASE decision tabulated, no class state and no extra rejections between the wire and ja3, extension model following the class fields and properties, composer adds no items; code point decoders (generic and overriding) hand out the member whose code is on the wire; hello attributes composed as stored',
            'Decides the JA3 string for every shape of hello the tabulation covers, that exactly the RFC 8701 values are ignored, that nothing '
            'on the way from bytes to ja3 keeps state between messages, and that extension parsers do not silently drop out of the '
            'sections by rejecting allowed content; equality with a reference implementation on bytes is value level.'),
    'C16': ('hassh text and digest rendering tabulated over name-list shapes, fingerprint code tabulated, key_bytes exhaustiveness, key blob layouts vs specification, name-list scanner tabulated, validity timestamps tabulated, nested key blobs consumed completely, ECDSA point width; structures of keys and certificates composed as held (order, no substituted constants); KEXINIT bindings; length prefixes derived from the composed body',
            'Decides HASSH (text, separators, digest rendering incl. leading zero nibbles) on all shapes of the four lists including empty '
            'ones, the fingerprint computations, and that the hashed blob is the specified encoding; digest implementations are trusted.'),
    'C17': ('partial evaluation of all six comparison operators over the finite version table; order axioms on the decision matrix; foreign-operand guard (concrete evaluation of the comparison methods where the abstract run does not fold them)',
            'The whole property is decided on the finite table: irreflexive, asymmetric, total, transitive, equal to the specified chain, '
            'every operator in the MRO consistent with (<, ==); eq/hash contract structurally; comparison with a non-version neighbour of a '
            'parsed list answers NotImplemented.'),
    'C18': ('name matching tabulated over case patterns, whitespace runs and list scanner tabulated from their own statements, component matcher tabulated, separator runs, header line spellings (SP / HTAB on both sides), SPF term spellings, terminator sibling agreement, media type case, case-insensitive token enumerations (reviewed table); media type and token enumeration case; quoted components evaluated through compose and _parse with the real base64 codec; SPF terms of other mechanisms are declined, not refused',
            'Decides letter case of directive, mechanism and modifier names, optional whitespace around separators and around header field '
            'values, empty list elements, trailing spaces of SPF records, by-name matching, unknown directives, absent / empty values and '
            'the field terminator; invariance over the full grammar of every header is not decided (DESIGN 11.11).'),
    'C19': ('recursion / containment graph acyclicity (registries that cannot be evaluated are over-approximated), declared-count guards and idle paths, loop progress, no rescans, no state between parses, no element-wise searches or walks over the accumulating list in parse loops, separator scan and parser construction as step counts independent of the surrounding input; functions of the parse side that reach themselves; string array work tabulated over growing item counts, separator runs and blank runs (step increments must not grow); no function changes a module level container; a buffer parsed in a loop shrinks from the front',
            'Decides structural clauses bounding recursion depth and iteration counts and that the cost of a parse does not depend on '
            'earlier parses; the global linear step bound is not proven. R2 also reports a field that is read and handed to nothing, a constant substituted for an attribute the parser stores as read, and items written sorted / reversed.'),
}

TRUST = ('Python ast; this analyser (sa/*); hand-transcribed spec tables under sa/specs; behaviour summaries of stdlib/six/attrs/'
         'dateutil/asn1crypto/cryptodatahub in sa/external.json; attrs semantics as modelled in sa/model.py. Static necessary-'
         'condition rules: a report is a violation of the behaviour, silence is not a proof of it beyond the clauses named.')


# rules added in the seventh seeded round (DESIGN 11.22), appended to the technique text of the property that reports them
ROUND7 = {
    'C01': 'variant tables: up-front size demand of a member against the shortest sibling',
    'C02': 'factories that answer with several classes against instance_of validators; partial enum tables subscripted with run-time keys; attributes of the timestamp sentinel',
    'C03': 'whole-buffer length compared only in tests that raise NotEnoughData / TooMuchData',
    'C04': 'missing-byte counts subtract a measure of the available input',
    'C05': 'no strip / case mapping / replace in the composer primitives; JSON valued fields evaluated; replace(tzinfo=) only on tested values',
    'C06': 'attrs validator methods are rejection sites of the table',
    'C07': 'language subtag setters evaluated against RFC 3066',
    'C08': 'compose_bytes / compose_string evaluated around the largest length the prefix holds',
    'C11': 'transparent string / byte primitives; length-prefixed strings at the largest length; replace(tzinfo=) only on tested values',
    'C12': 'no vector class redefines the sequence interface or its construction',
    'C14': 'explicit __eq__ / __hash__ compare attributes as held',
    'C15': 'vectors read by ja3 keep the order given (no redefinition of construction or sequence methods)',
    'C16': 'length-prefixed strings decoded unchanged by the primitives; known_hosts evaluated',
    'C17': 'subclasses of the version class with generated or own __eq__ / __hash__',
    'C18': 'JSON valued fields: composer evaluated for members that hold false / 0',
    'C19': 'no loop re-assigns a growing value through a property setter that walks it',
}


# rules added in the eighth seeded round (DESIGN 11.24)
ROUND8 = {
    'C01': 'lower bound a parser puts on a length field against the value composed for empty data',
    'C02': 'plain numbers stored in fields that admit enumeration members only',
    'C08': 'TXT parser evaluated over RDATA with empty character-strings; string primitives convert with the codec they are given',
    'C09': 'LDAP result code map evaluated against the enumeration; lower bounds on length fields admit the value composed for empty data',
    'C10': 'no table over range(min(E), max(E)); no parsed sequence rebuilt from a mapping keyed by its items',
    'C11': 'string primitives convert with the codec they are given; packed writes (value | sibling << k) need a bounded low part',
    'C13': 'no shallow copy.copy',
    'C14': 'hand written renderings evaluated on objects built with the constructor defaults',
    'C16': 'hassh list read by evaluation',
    'C18': 'name=value elements read by NameValuePair; no parsed sequence rebuilt from a mapping keyed by names as spelled',
}


ROUND9 = {
    'C06': 'no case folding in TLS decoders and their helpers; code point wrappers tabulated over every code of the width (an escaping exception is a finding); no quiet return while a positive number of octets of an optional trailing block is unread',
    'C07': 'no de-duplication (set / mapping round trip, membership-guarded append) in SSH composers',
    'C09': 'OpenVPN parse_header evaluated for the eight key ids of every opcode and for the sibling opcodes; flag collections followed back to the attribute',
    'C10': 'no de-duplication on the writing side; GREASE wrapper tabulation reports codes it cannot be built for',
    'C11': 'collection handed to compose_numeric_flags followed back through locals and helpers: nothing added on the way',
    'C14': 'no de-duplication in renderings',
    'C15': 'extension block read whenever anything is left of the hello body',
    'C16': 'no de-duplication on the way to HASSH / fingerprints',
    'C18': 'every parse_string_array call of the header / policy record modules passes skip_empty=True',
}


def built():
    out = []
    for pid in sorted(P):
        try:
            importlib.import_module('sa.props.%s' % pid.lower())
            out.append(pid)
        except ImportError:
            pass
    return out


def main():
    have = built()
    checks = []
    for pid in have:
        tech, text = P[pid]
        if pid in ROUND7:
            tech = tech + '; ' + ROUND7[pid]
        if pid in ROUND8:
            tech = tech + '; ' + ROUND8[pid]
        if pid in ROUND9:
            tech = tech + '; ' + ROUND9[pid]
        checks.append({
            'property_id': pid,
            'quick_cmd': 'python3 -m sa.check %s --tier quick' % pid,
            'thorough_cmd': 'python3 -m sa.check %s --tier thorough' % pid,
            'evidence_file': 'evidence/%s.json' % pid,
            'replay_cmd_template': 'python3 -m sa.check %s --tier quick --replay {path}' % pid,
            'engine': 'sa',
            'level_claimed': {'category': 'other', 'text': text, 'design_ref': 'DESIGN.md section 4, %s' % pid},
            'level_note': TRUST,
            'technique': 'static analysis: ' + tech,
        })
    na = [{'property_id': pid, 'reason': 'checker not built yet in this session (design in DESIGN.md section 4); will be claimed once sa/props/%s.py exists' % pid.lower()}
          for pid in sorted(P) if pid not in have]
    man = {
        'version': 1,
        'setup_cmd': 'python3 -m sa.selfcheck',
        'hooks': {
            'guard': 'CRYPTOPARSER_VERIF',
            'enable': 'no hooks: the checks read the source of /repo and never import or run it',
            'baseline_off_cmd': BASELINE_CMD,
            'source_commits': [],
            'add_only': True,
        },
        'engines': [{'name': 'sa', 'path': 'sa/', 'serves_properties': have,
                     'kind_free_text': 'repository-specific static analyser: resolved class model, abstract interpreter of the '
                                       'parser/composer DSL, wire-layout IR, CFG/effect/escape rules, spec tables'}],
        'checks': checks,
        'not_applicable': na,
        'notes': 'All checks are pure-stdlib python3, read /repo (VERIF_REPO overrides) on every run, exit 0/1/2 = holds/violation/analysis-error.',
    }
    with open(os.path.join(VERIF, 'MANIFEST.json'), 'w') as f:
        json.dump(man, f, indent=1)
    print('MANIFEST.json: %d checks, %d not applicable' % (len(checks), len(na)))


if __name__ == '__main__':
    main()
