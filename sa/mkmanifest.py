"""Writes /verif/MANIFEST.json from the table below (run: python3 -m sa.mkmanifest)."""
from __future__ import annotations

import importlib
import json
import os

VERIF = os.path.dirname(os.path.dirname(os.path.abspath(__file__)))

BASELINE_CMD = ('cd /repo && /venv/bin/python -m pytest -ra -q -p no:cacheprovider --timeout=900 '
                '--continue-on-collection-errors')

P = {
    'C01': ('layout/binding symmetry of parser and composer (abstract interpretation of the DSL, AST level)',
            'Decides the reader/writer-agreement clause of the round trip for all field values: same element sequence, '
            'widths, byte order, nesting, optional branches, repetition, length-prefix linkage and attribute binding on '
            'both sides, plus exhaustiveness of directions and registries. Value-level equality of converters is not decided.'),
    'C02': ('exception-escape analysis over the parse-reachable call graph + converter/raise discipline rules',
            'Decides that no undocumented exception escapes through explicit raises, unconverted converter errors, '
            'undefined parser keys or risky operations on input-derived values, on any path from a parse entry point. '
            'AttributeError/TypeError from data-table shape and library internals are not decided.'),
    'C03': ('entry-point contract, input ownership, return-length idioms, size-sign intervals, frame containment (AST/CFG + DSL IR)',
            'Decides the shape of the three entry points, that no parser mutates the caller buffer, that reported lengths '
            'have a sound form, that sizes handed to primitives cannot be negative, and that framing units parse their '
            'body inside the declared length. Equality of the object under arbitrary suffixes is its structural cause only.'),
    'C04': ('guard/payload agreement at every NotEnoughData site, completeness gates on framing units, header constants',
            'Decides that every missing-byte count is needed-minus-available under a strict guard, that framing units '
            'reach a completeness gate before anything can mis-classify a short buffer, and that header constants do not '
            'exceed the minimal frame. The reader-loop induction over fragmentations is an argument, not machine checked.'),
    'C05': ('parse-range within compose-domain on the DSL IR, zone normalisation before literal GMT, SCSV fold/unfold def-use',
            'Decides three structural necessary conditions of canonical-form stability; idempotence itself is value level.'),
    'C06': ('extracted parser and composer layouts compared with RFC layouts transcribed independently (sa/specs/tls.json)',
            'Decides for every supported SSL/TLS structure that both extracted layouts equal the RFC layout (order, widths, '
            'endianness, vector floor/ceiling and prefix width) and that the numeric registries equal the RFC/IANA numbers.'),
    'C07': ('layouts vs sa/specs/ssh.json, congruence analysis of the padding arithmetic, truth table of the mpint sign decision',
            'Decides SSH layouts against the RFC tables, the padding rule for all payload lengths by residues mod 8, and the '
            'mpint sign-byte decision; minimality of magnitude bytes for all integers is not decided.'),
    'C08': ('layouts vs sa/specs/dns.json, key tag as a linear form over byte weights',
            'Decides DNSSEC RDATA layouts and per-algorithm key sizes against the RFC tables and that key_tag is the RFC 4034 '
            'App. B linear form including the odd trailing byte; fixed-length mpint arithmetic for all integers is not decided.'),
    'C09': ('layouts/registries vs sa/specs/opp.json, return-class fidelity, tag discrimination (must-pass-through)',
            'Decides MySQL/RDP/OpenVPN/PostgreSQL layouts and byte orders, LDAP schema tables, that a _parse returns its own '
            'class and that every message class checks the tag it read.'),
    'C10': ('alias-freeness of all enum tables, equality-search shape of decoders, width agreement, preserve-or-reject',
            'Discharges the whole code space without enumeration: decoding is an equality search over an alias-free table '
            'with width-matched fallback. Contents of the dependency tables being the IANA values is not decided.'),
    'C11': ('struct format table, narrowing-without-check rule, who-may-call rule for local-time APIs, flag/sentinel symmetry',
            'Decides the primitive-level structural clauses; exactness of struct and mpint arithmetic for all integers is not decided.'),
    'C12': ('typestate/ownership rules on ArrayBase: check-before-mutate, bound check shape, field ownership, slice kinds, prefix source',
            'With R1-R5 the invariant _items_size == sum(item sizes) within bounds is inductive over the sequence interface.'),
    'C13': ('effect analysis of observers by abstract interpretation, shared mutable defaults, input-alias taint',
            'Decides purity of every observer (writes to self/class state), absence of shared mutable attrs defaults and of '
            'aliasing of the input buffer.'),
    'C14': ('ordered-iteration, restored-state and total-dispatch rules on the serialiser',
            'Decides the determinism and dispatch clauses; success for every value of every type is not decided.'),
    'C15': ('section structure of ja3 vs the published definition, sibling agreement of GREASE filters, def-use agreement with compose',
            'Decides the structure of the JA3 computation; equality with a reference implementation on bytes is value level.'),
    'C16': ('attribute order/joins/digests of hassh and fingerprints vs definition, key_bytes exhaustiveness',
            'Decides the structure of HASSH and fingerprint computations; digest implementations are trusted.'),
    'C17': ('partial evaluation of the comparator over the finite version table; order axioms on the decision matrix',
            'The whole property is decided on the finite table: irreflexive, asymmetric, total, transitive, equal to the '
            'specified chain; eq/hash contract structurally.'),
    'C18': ('case-rule tables vs resolved name matching, separator/terminator sibling agreement, order-free matching',
            'Decides table/constant parts; invariance over the full grammar of spellings is not decided.'),
    'C19': ('recursion/containment graph acyclicity, declared-count guards, loop progress (min item size >= 1), no rescans',
            'Decides structural clauses bounding recursion depth and iteration counts; the global linear step bound is not proven.'),
}

TRUST = ('Python ast; this analyser (sa/*); hand-transcribed spec tables under sa/specs; behaviour summaries of stdlib/six/attrs/'
         'dateutil/asn1crypto/cryptodatahub in sa/external.json; attrs semantics as modelled in sa/model.py. Static necessary-'
         'condition rules: a report is a violation of the behaviour, silence is not a proof of it beyond the clauses named.')


def built():
    out = []
    for pid in sorted(P):
        try:
            importlib.import_module('sa.props.%s' % pid.lower())
            out.append(pid)
        except ImportError:
            pass
    return out


def main():
    have = built()
    checks = []
    for pid in have:
        tech, text = P[pid]
        checks.append({
            'property_id': pid,
            'quick_cmd': 'python3 -m sa.check %s --tier quick' % pid,
            'thorough_cmd': 'python3 -m sa.check %s --tier thorough' % pid,
            'evidence_file': 'evidence/%s.json' % pid,
            'replay_cmd_template': 'python3 -m sa.check %s --tier quick --replay {path}' % pid,
            'engine': 'sa',
            'level_claimed': {'category': 'other', 'text': text, 'design_ref': 'DESIGN.md section 4, %s' % pid},
            'level_note': TRUST,
            'technique': 'static analysis: ' + tech,
        })
    na = [{'property_id': pid, 'reason': 'checker not built yet in this session (design in DESIGN.md section 4); will be claimed once sa/props/%s.py exists' % pid.lower()}
          for pid in sorted(P) if pid not in have]
    man = {
        'version': 1,
        'setup_cmd': 'python3 -m sa.selfcheck',
        'hooks': {
            'guard': 'CRYPTOPARSER_VERIF',
            'enable': 'no hooks: the checks read the source of /repo and never import or run it',
            'baseline_off_cmd': BASELINE_CMD,
            'source_commits': [],
            'add_only': True,
        },
        'engines': [{'name': 'sa', 'path': 'sa/', 'serves_properties': have,
                     'kind_free_text': 'repository-specific static analyser: resolved class model, abstract interpreter of the '
                                       'parser/composer DSL, wire-layout IR, CFG/effect/escape rules, spec tables'}],
        'checks': checks,
        'not_applicable': na,
        'notes': 'All checks are pure-stdlib python3, read /repo (VERIF_REPO overrides) on every run, exit 0/1/2 = holds/violation/analysis-error.',
    }
    with open(os.path.join(VERIF, 'MANIFEST.json'), 'w') as f:
        json.dump(man, f, indent=1)
    print('MANIFEST.json: %d checks, %d not applicable' % (len(checks), len(na)))


if __name__ == '__main__':
    main()
