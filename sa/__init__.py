"""Static analysis machinery for cryptoparser (see /verif/DESIGN.md).

Nothing under this package imports or executes code from /repo: every check
parses the working tree with ``ast`` and reasons over the resulting model.
"""
