"""A model of ParserBinary over real bytes for rules that evaluate *callers* of the primitives (generic vector / enum decoders):
the public primitives with the semantics of cryptoparser/common/parse.py - whose own statements are decided by the tabulations of
C03.R4 / C11 - network byte order unless told otherwise."""
from __future__ import annotations

from .miniexec import Native, NativeError, Unsupported


class NotEnoughData(NativeError):
    pass


class InvalidValue(NativeError):
    pass


class BinaryParser(Native):
    def __init__(self, data, byte_order=None):
        self.data, self.pos, self.values = bytes(data), 0, {}
        self.byte_order = byte_order

    def __getitem__(self, k):
        return self.values[k]

    def __delitem__(self, k):
        del self.values[k]

    @property
    def parsed_length(self):
        return self.pos

    @property
    def unparsed_length(self):
        return len(self.data) - self.pos

    @property
    def unparsed(self):
        return self.data[self.pos:]

    def _take(self, n):
        if not isinstance(n, int) or n < 0:
            raise Unsupported('read of %r octets' % (n,))
        if self.unparsed_length < n:
            raise NotEnoughData(n - self.unparsed_length)
        raw = self.data[self.pos:self.pos + n]
        self.pos += n
        return raw

    def _order(self):
        name = getattr(self.byte_order, 'name', None)
        return 'little' if name == 'LITTLE_ENDIAN' else 'big'

    def _convert(self, converter, v):
        if converter is None or converter is int:
            return v
        try:
            return converter(v)
        except ValueError:
            raise InvalidValue(v)

    def parse_numeric(self, name, size, converter=int):
        self.values[name] = self._convert(converter, int.from_bytes(self._take(size), self._order()))

    def parse_numeric_array(self, name, item_num, item_size, converter=int):
        if not isinstance(item_num, int) or item_num < 0:
            raise Unsupported('array of %r items' % (item_num,))
        raw = self._take(item_num * item_size)
        self.values[name] = [self._convert(converter, int.from_bytes(raw[i:i + item_size], self._order())) for i in range(0, len(raw), item_size)]

    def parse_raw(self, name, size, converter=bytearray):
        self.values[name] = self._convert(converter, bytearray(self._take(size)))

    def parse_bytes(self, name, size, converter=bytearray):
        start = self.pos
        n = int.from_bytes(self._take(size), self._order())
        try:
            raw = self._take(n)
        except NotEnoughData:
            self.pos = start
            raise
        self.values[name] = self._convert(converter, bytearray(raw))

    def parse_string(self, name, item_size, encoding, converter=str):
        start = self.pos
        n = int.from_bytes(self._take(item_size), self._order())
        try:
            raw = self._take(n)
        except NotEnoughData:
            self.pos = start
            raise
        try:
            text = raw.decode(encoding)
        except UnicodeError:
            raise InvalidValue(raw)
        self.values[name] = self._convert(converter if converter is not str else None, text)

    def parse_mpint(self, name, mpint_length):
        self.values[name] = int.from_bytes(self._take(mpint_length), 'big')
