"""E6: specification tables (sa/specs/*.json) as canonical layouts, and their comparison with extracted layouts.

Item vocabulary of a spec layout (all written from the RFC / protocol documents, keyed by the class that implements
the structure):

  {"u": w [, "order": "be"|"le"] [, "name": ..]}      unsigned integer
  {"flags": w, "order": .., "shift": n}               flag word
  {"raw": n | "*"}                                    opaque bytes (fixed n, or governed by a length / rest)
  {"text": enc} {"strz": enc} {"mpint": n|"*"} {"sshmpint": 1} {"ts": w, "ms": bool} {"const": n}
  {"lp": w, "body": [...], "adj": k, "order": ..}     length prefix of w bytes: value == bytes(body) + k
  {"len": w, "of": [names], "adj": k, "unit": "bytes"|"count"}   a length field governing later named items
  {"vector": {"floor": f, "ceiling": c, "item": {...}}}   TLS vector: prefix width from the ceiling
  {"array": {...item...}}                             run of fixed width items (governed by a length)
  {"struct": "ClassName" | [names]}                   nested structure specified under its own key
  {"repeat": [...]} {"opt": [...]} {"alt": [[...], [...]]}
"""
from __future__ import annotations

import json
import math
import os

from .canon import Canon, _index, canonical
from .compare import Comparison, Diff, Matcher, compare_links
from .layout import El
from .model import EnumMember

HERE = os.path.dirname(os.path.abspath(__file__))


class OrderTag:
    def __init__(self, name):
        self.name = name


BE = OrderTag('BIG_ENDIAN')
LE = OrderTag('LITTLE_ENDIAN')


def load_spec(name):
    with open(os.path.join(HERE, 'specs', name)) as f:
        return json.load(f)


def prefix_width(ceiling):
    """TLS presentation language: the length prefix is as wide as needed to hold the ceiling."""
    return int(math.log(ceiling, 2) / 8) + 1 if ceiling > 0 else 1


def order_of(item, default):
    o = item.get('order')
    if o == 'le':
        return LE
    if o == 'be':
        return BE
    return default


def build(items, default_order=BE, named=None, pending=None):
    """spec items -> list of El ; ``named`` collects name -> El ; ``pending`` collects (len El, names, adj, unit)"""
    named = named if named is not None else {}
    pending = pending if pending is not None else []
    out = []
    for it in items:
        els = build_one(it, default_order, named, pending)
        out.extend(els)
    return out


def build_one(it, default_order, named, pending):
    order = order_of(it, default_order)
    name = it.get('name')

    def reg(e):
        if name:
            named[name] = e
        e.extra['spec'] = it
        return e
    if 'u' in it:
        return [reg(El('u', w=it['u'], order=order))]
    if 'flags' in it:
        return [reg(El('flags', w=it['flags'], order=order, shift=it.get('shift', 0)))]
    if 'raw' in it:
        sz = it['raw']
        return [reg(El('raw', size=sz if isinstance(sz, int) else None))]
    if 'const' in it:
        return [reg(El('const', w=it['const']))]
    if 'text' in it:
        return [reg(El('text', enc=it['text']))]
    if 'strz' in it:
        return [reg(El('strz', enc=it['strz']))]
    if 'mpint' in it:
        return [reg(El('mpint', size=it['mpint'] if isinstance(it['mpint'], int) else None))]
    if 'sshmpint' in it:
        return [reg(El('sshmpint'))]
    if 'ts' in it:
        # 'forever': does the specification read the all-ones value as "no limit" (OpenSSH certificates) or as an instant?
        return [reg(El('ts', w=it['ts'], order=order, ms=it.get('ms', False), forever=bool(it.get('forever', False)), from_spec=True))]
    if 'struct' in it:
        names = it['struct'] if isinstance(it['struct'], list) else [it['struct']]
        e = El('nested', cls=None)
        e.extra['names'] = names
        return [reg(e)]
    if 'array' in it:
        item = build_one(it['array'], default_order, {}, [])[0]
        return [reg(El('array', body=[item], unit='count'))]
    if 'lp' in it:
        u = El('u', w=it['lp'], order=order)
        body = build(it['body'], default_order, named, pending)
        u.link = (it.get('unit', 'bytes'), it.get('adj', 0), list(body))
        u.extra['lp_body'] = body
        u.extra['spec'] = it
        if name:
            named[name] = u
        return [u] + body
    if 'len' in it:
        u = reg(El('u', w=it['len'], order=order))
        pending.append((u, it.get('of', []), it.get('adj', 0), it.get('unit', 'bytes')))
        return [u]
    if 'vector' in it:
        v = it['vector']
        w = prefix_width(v['ceiling'])
        u = El('u', w=w, order=BE)
        item = v['item']
        if 'u' in item:
            body = [El('array', body=[El('u', w=item['u'], order=order_of(item, BE))], unit='count')]
        elif 'raw' in item and item['raw'] == 1:
            body = [El('raw')]
        else:
            body = [El('repeat', body=build([item], default_order, {}, []))]
        u.link = ('bytes', 0, list(body))
        u.extra['lp_body'] = body
        u.extra['spec'] = it
        u.extra['vector'] = v
        if name:
            named[name] = u
        return [u] + body
    if 'repeat' in it:
        return [reg(El('repeat', body=build(it['repeat'], default_order, named, pending)))]
    if 'opt' in it:
        return [reg(El('alt', a=build(it['opt'], default_order, named, pending), b=[]))]
    if 'alt' in it:
        a = build(it['alt'][0], default_order, named, pending)
        b = build(it['alt'][1], default_order, named, pending) if len(it['alt']) > 1 else []
        return [reg(El('alt', a=a, b=b))]
    raise ValueError('unknown spec item %r' % (it,))


def spec_canon(entry):
    named, pending = {}, []
    default = LE if entry.get('order') == 'le' else BE
    els = build(entry['layout'], default, named, pending)
    for u, names, adj, unit in pending:
        targets = []
        for n in names:
            if n not in named:
                raise ValueError('spec: length refers to unknown item %r' % n)
            targets.append(named[n])
        u.link = (unit, adj, targets)
    c = Canon(els, 'spec')
    _index(els, c.flat)
    return c


def compare_with_spec(cls, side, ctx, table, entry):
    """compare the canonical layout of ``cls`` on ``side`` with its specification entry"""
    cmpn = Comparison(cls)
    code = ctx.canon(cls, side)
    if code is None:
        cmpn.unknown.append('layout not derivable')
        return cmpn
    try:
        spec = spec_canon(entry)
    except (ValueError, KeyError) as e:
        cmpn.diffs.append(Diff('spec', 'specification entry is malformed: %s' % e))
        return cmpn

    def expand_b(b):
        from .compare import _descendants
        names = b.extra.get('names') or []
        outer = (b.extra.get('spec') or {}).get('attr') or b.extra.get('outer_attr')
        for n in names:
            sub = table.get(n)
            c2 = None
            if sub is not None and 'layout' in sub:
                c2 = spec_canon(sub)
            elif sub is not None and 'vector' in sub:
                c2 = spec_canon({'layout': [{'vector': sub['vector']}]})
            if c2 is not None:
                if outer:
                    # the attribute the enclosing specification item names: carried by everything it expands to
                    for x in _descendants(c2.elements):
                        x.extra['outer_attr'] = outer
                return c2.elements
        return None
    m = Matcher(ctx, cmpn, side_a=side, side_b='spec', expand_b=expand_b)
    m.seq(code.elements, spec.elements, cls.name)
    compare_links(cmpn, code, spec, ctx)
    cmpn.code, cmpn.spec = code, spec
    return cmpn


def draft(cls, ctx):
    """A specification item list in the above vocabulary drafted from the parse layout (used once to bootstrap the
    tables, every entry is then reviewed against the RFC text; not used by any check)."""
    from .compare import leaves
    cn = ctx.canon(cls, 'parse')
    names = {}

    def conv(els):
        out = []
        skip = set()
        for e in els:
            if id(e) in skip:
                continue
            k = e.kind
            if k == 'u':
                link = getattr(e, 'link', None)
                if 'lp_body' in e.extra:
                    body = e.extra['lp_body']
                    for b in body:
                        skip.add(id(b))
                    out.append({'lp': e.w, 'body': conv(body), **order_kw(e)})
                elif link:
                    out.append({'len': e.w, 'of': [t.key or t.sig() for t in link[2]], 'adj': link[1], 'unit': link[0], 'name': e.key, **order_kw(e)})
                else:
                    out.append({'u': e.w, 'name': e.key, **order_kw(e)})
            elif k == 'flags':
                out.append({'flags': e.w, 'shift': e.extra.get('shift', 0), 'name': e.key, **order_kw(e)})
            elif k == 'raw':
                out.append({'raw': e.size if isinstance(e.size, int) else '*', 'name': e.key})
                if 'subbody' in e.extra:
                    out[-1] = {'sub': conv(e.extra['subbody'])}
            elif k == 'nested':
                c = e.cls.cls if hasattr(e.cls, 'cls') else e.cls
                out.append({'struct': getattr(c, 'name', str(c)), 'name': e.key})
            elif k == 'array':
                out.append({'array': {'u': e.body[0].w, **order_kw(e.body[0])}, 'name': e.key})
            elif k == 'narray':
                out.append({'repeat': [{'struct': [getattr(getattr(x, 'cls', x), 'name', str(x)) for x in e.cls]}], 'name': e.key})
            elif k in ('alt', 'tryalt'):
                out.append({'alt': [conv(e.a), conv(e.b)]})
            elif k == 'repeat':
                out.append({'repeat': conv(e.body)})
            elif k == 'text':
                out.append({'text': e.extra.get('enc')})
            elif k == 'strz':
                out.append({'strz': e.extra.get('enc')})
            elif k == 'mpint':
                out.append({'mpint': e.size if isinstance(e.size, int) else '*', 'name': e.key})
            elif k == 'sshmpint':
                out.append({'sshmpint': 1, 'name': e.key})
            elif k == 'ts':
                out.append({'ts': e.w, 'ms': bool(e.extra.get('ms')), 'name': e.key})
            elif k == 'const':
                out.append({'const': e.w})
            else:
                out.append({'other': e.sig()})
        return out

    def order_kw(e):
        from .layout import order_tag
        t = order_tag(e.order, e.w or 2)
        return {'order': 'le'} if t == 'le' else {}
    return conv(cn.elements)
