"""Tabulation of the text list machinery of /repo (ParserText._parse_string_array and the helpers it calls:
_parse_string_until_separator, _apply_item_class, _check_separators) by evaluating their own statements with sa.miniexec
on small inputs, and comparison with the list the grammar defines.  Used by C18.R2 (HTTP / TXT lists: optional
whitespace, empty elements), C07 / C16 (SSH name-lists: order, unknown names preserved one by one) and C10."""
from __future__ import annotations

import ast

from .miniexec import Evaluator, Native, NativeError, Raised, Unsupported, class_call_hook


class InvalidValue(NativeError):
    pass


class ParserState(Native):
    """the instance state of a ParserText the evaluated methods read and write"""

    def __init__(self, data, encoding='ascii'):
        self._parsable = bytes(data)
        self._encoding = encoding
        self._parsed_length = 0
        self._parsed_values = {}

    @property
    def unparsed_length(self):
        return len(self._parsable) - self._parsed_length

    @property
    def unparsed(self):
        return self._parsable[self._parsed_length:]


class EnumClass(Native):
    """a coded enum class of the data tables: from_code(name) returns the member or raises InvalidValue"""

    def __init__(self, known):
        self.known = set(known)

    def from_code(self, code):
        if code not in self.known:
            raise InvalidValue(code)
        return ('member', code)


def run_string_array(ctx, data, separator, item_class=str, fallback_class=None, separator_spaces='', skip_empty=False, max_item_num=None):
    """items ParserText._parse_string_array stores for ``data`` and the final cursor; raises Raised / Unsupported"""
    pt = ctx.model.cls('ParserText')
    f = pt.resolve('_parse_string_array')

    def extra(n, ev):
        d = ast.unparse(n.func)
        if d == 'six.ensure_binary':
            v = ev.ev(n.args[0])
            return v.encode('ascii') if isinstance(v, str) else bytes(v)
        if d in ('six.ensure_text', 'six.ensure_str'):
            v = ev.ev(n.args[0])
            return v if isinstance(v, str) else bytes(v).decode('ascii')
        if d == 'six.int2byte':
            return bytes([ev.ev(n.args[0])])
        if d == 'six.iterbytes':
            return list(bytes(ev.ev(n.args[0])))
        if d == 'six.raise_from':
            raise Raised(ast.unparse(n.args[0]))
        if d == 'isinstance' and len(n.args) == 2:
            v, t = ev.ev(n.args[0]), ast.unparse(n.args[1])
            if t == 'type':
                return isinstance(v, (EnumClass, type))
            raise Unsupported('isinstance against %s' % t)
        if d == 'issubclass' and len(n.args) == 2:
            v, t = ev.ev(n.args[0]), ast.unparse(n.args[1])
            if isinstance(v, EnumClass):
                return t == 'CryptoDataEnumCodedBase'
            if v is str:
                return 'string_types' in t
            return False
        if d == 'type':
            return 'type'
        if d == 'fallback_class' or d == 'item_class':
            c = ev.ev(n.func)
            if c is str:
                return str(*[ev.ev(a) for a in n.args])
        return NotImplemented

    def names(name):
        if name == 'str':
            return str
        raise Unsupported('free name %s' % name)
    me = ParserState(data)
    params = [a.arg for a in f.node.args.args if a.arg != 'self']
    env = {'self': me}
    values = {'name': 'items', 'separator': separator, 'max_item_num': max_item_num, 'item_class': item_class, 'fallback_class': fallback_class,
              'separator_spaces': separator_spaces, 'skip_empty': skip_empty}
    for p in params:
        env[p] = values[p]
    hook = class_call_hook(pt, extra, ctx.model)
    ev = Evaluator(env, hook, hook.name_hook_for(pt.module, names))
    ev.function(f.node)
    return me._parsed_values.get('items'), me._parsed_length


def expected_items(text, separator, spaces, skip_empty, known):
    """what the grammar says: split at the separator, strip optional whitespace, drop empty elements when allowed; a
    known name becomes its member, any other name stays the text itself"""
    out = []
    for raw in text.split(separator):
        item = raw.strip(spaces) if spaces else raw
        if item == '':
            if skip_empty:
                continue
            return None
        out.append(('member', item) if (known is not None and item in known) else item)
    return out


def string_array_table(ctx, report, rule, style):
    """tabulate the list scanner on the shapes of one family and report disagreements with the grammar"""
    pt = ctx.model.try_cls('ParserText')
    if pt is None or '_parse_string_array' not in pt.methods:
        report.error('%s: ParserText._parse_string_array vanished' % rule)
        return
    for name in ('_parse_string_array', '_parse_string_until_separator', '_apply_item_class', '_check_separators'):
        if name in pt.methods:
            report.touch(pt.methods[name])
    f = pt.resolve('_parse_string_array')
    if style == 'ssh':
        known = {'a', 'bb', 'curve25519-sha256', 'aes128-ctr'}
        sep, spaces, skip = ',', '', False
        inputs = ['a', 'unk', 'a,bb', 'a,unk,bb', 'unk,a,bb', 'a,bb,unk', 'unk1,unk2,a', 'a,unk1,unk2', 'x@example.com,curve25519-sha256,y,aes128-ctr,z',
                  'curve25519-sha256,curve25519-sha256@libssh.org,bb',
                  # an empty name is not a name (RFC 4251 5): refused, wherever it stands - never dropped in silence
                  'a,bb,', ',a', 'a,,bb', 'unk,']

        def kw():
            return dict(item_class=EnumClass(known), fallback_class=str)
    else:
        known = None
        sep, spaces, skip = ';', ' \t', True
        inputs = ['a', 'a;b', 'a; b', 'a ;b', 'a \t;\t b', 'a;;b', 'a; ;b', ';a;b', 'a;b;', ' a;b ', 'a=1; b="x y"; c', 'a;\t;\t;b ; c=\t']

        def kw():
            return dict(item_class=str, separator_spaces=spaces, skip_empty=skip)
    for text in inputs:
        report.count(rule)
        want = expected_items(text, sep, spaces, skip, known)
        try:
            got, cursor = run_string_array(ctx, text.encode('ascii'), sep, **kw())
        except Raised as e:
            if want is not None:
                report.add(rule, '%s@list[%s]' % (f.construct, shape_of(text, sep, known)),
                           'the conformant list %r is refused (%s)' % (text, e.what[:50]))
            continue
        except Unsupported as e:
            report.add(rule, f.construct + '@tabulation', 'the list scanner left the subset the tabulation understands: %s' % e)
            return
        if want is None:
            if not skip:
                report.add(rule, '%s@list[empty-name]' % f.construct, 'the list %r holds an empty name and is accepted as %r: the empty name is dropped in silence, so the '
                           'list is written back (and hashed) as another text than was received' % (text, got))
            continue
        if got != want or cursor != len(text):
            report.add(rule, '%s@list[%s]' % (f.construct, shape_of(text, sep, known)),
                       'the list %r is split into %r (cursor %d of %d); the grammar says %r' % (text, got, cursor, len(text), want))
    report.sample({'rule': rule, 'style': style, 'inputs': len(inputs), 'separator': sep, 'optional_whitespace': spaces, 'skip_empty': skip})


def shape_of(text, sep, known):
    if known is None:
        if sep * 2 in text or text.startswith(sep) or text.endswith(sep):
            return 'empty-elements'
        if ' ' in text or '\t' in text:
            return 'whitespace'
        return 'plain'
    items = text.split(sep)
    unk = [i for i, x in enumerate(items) if x not in known]
    if not unk:
        return 'known-only'
    if unk == [len(items) - 1]:
        return 'unknown-last'
    return 'unknown-not-last'
