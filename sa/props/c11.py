"""C11 -- integer, flag, mpint and timestamp primitives are exact and never truncate."""
from __future__ import annotations

import ast
import struct

from ..model import ClassInfo, EnumMember, dotted
from ..interp_expr import truth
from ..values import ClassV, DictV, ObjV, show

META = {
    'explanation': (
        'Structural rules on common/parse.py. R1: the width->struct-code table maps every width to a code at least that '
        'wide and ByteOrder has exactly the four struct prefixes; for a width whose code is wider (3 -> I) the parser pads '
        'and the composer cuts on the same end for each byte order, and the composer range-checks the value before bytes '
        'are cut off (narrowing without check is reported). R2: struct.pack sits inside a handler that converts '
        'struct.error into InvalidValue. R3 (who-may-call): no function of the package calls a local-time API '
        '(time.mktime/localtime/timezone/altzone, naive datetime.fromtimestamp/now/today, .timetuple() fed to mktime); '
        'the timestamp composer goes through calendar.timegm/utctimetuple. R4: flags are decoded by intersecting with each '
        'member and encoded by OR-ing, with mirrored shifts. R5: the "forever" sentinel has the width of the field on both sides.'
        ' R1 evaluates the per-byte-order test for each of the four ByteOrder members. R3 requires calendar.timegm(value.utctimetuple()). R6: SSH and fixed-length mpint composer and parser are evaluated statement by statement over boundary bit lengths and both signs and compared with RFC 4251 / big-endian fixed width, including refusal instead of truncation.'),
    'assumptions': ['struct packs/unpacks standard sizes exactly for the prefixes = < > !'],
    'trusted_base': ['python ast', 'struct.calcsize for the table check'],
    'exhaustive': True,
}

META['explanation'] += ' ' + 'R5 samples 8 byte fields beyond 2^32 and instants with non-zero UTC offsets. R7: no truncating mask in front of a width-limited write (bit splits whose other half is written are accepted).'

META['explanation'] += ' ' + 'R8: timestamp fields receive the stored attribute (a constant in place of None never writes the sentinel).'

META['explanation'] += ' ' + 'R3 also: a local-time function handed on as a value (converter), astimezone on a value whose zone was not tested. R10 / R11: the primitives keep nothing between calls. R12: no stripping, case mapping or replacement inside the shared string / byte primitives. R13: compose_bytes / compose_string evaluated around the largest length the prefix holds. R14: the string primitives convert with the encoding they are given.'
META['explanation'] += ' ' + 'R15: the collection handed to compose_numeric_flags followed back through locals and helper returns: copies and selections pass, additions do not.'

LOCAL_TIME = {'time.mktime', 'time.localtime', 'time.timezone', 'time.altzone', 'time.daylight', 'time.tzname', 'time.ctime',
              'time.asctime', 'time.strftime'}


def method(model, cls, name, report):
    c = model.cls(cls)
    f = c.methods.get(name)
    if f is None:
        report.error('C11: %s.%s vanished' % (cls, name))
    else:
        report.touch(f)
    return f



def flag_sets_written_as_held(ctx, report, RULE='C11.R15', title=None):
    """A flag word is the OR of the members the object holds.  The collection handed to ``compose_numeric_flags`` is followed
    back (through locals of the composer and through helper methods reached as ``self.helper()`` / ``cls.helper(...)``, two calls
    deep): it may be the attribute, a copy, or a selection of its members (a filtering comprehension - the MySQL capability
    halves - , ``&``, ``-``); a member put in on the way (``add`` / ``update`` / ``|`` / ``union`` / a display or concatenation naming members)
    makes the word something else than the OR of the members held, and parse -> compose no longer reproduces a word without it."""
    report.rule(RULE, title or 'flag words are the OR of the members held: nothing is added to the collection on its way to compose_numeric_flags')

    def growth(fnode, name):
        """texts of the statements of fnode that put something into the local ``name``"""
        out = []
        for x in ast.walk(fnode):
            if isinstance(x, ast.Call) and isinstance(x.func, ast.Attribute) and x.func.attr in ('add', 'update', 'append', 'extend', 'insert') and \
                    isinstance(x.func.value, ast.Name) and x.func.value.id == name:
                out.append(ast.unparse(x)[:70])
            if isinstance(x, ast.AugAssign) and isinstance(x.target, ast.Name) and x.target.id == name and isinstance(x.op, (ast.BitOr, ast.Add)):
                out.append(ast.unparse(x)[:70])
        return out

    def expr_adds(e, f, depth, seen):
        """reasons why the value of expression e (in function f) can hold a member the object does not"""
        if isinstance(e, ast.BinOp) and isinstance(e.op, (ast.BitOr, ast.Add)):
            return ['%s joins two collections' % ast.unparse(e)[:70]]
        if isinstance(e, ast.Call) and isinstance(e.func, ast.Attribute) and e.func.attr == 'union':
            return ['%s joins two collections' % ast.unparse(e)[:70]]
        if isinstance(e, (ast.Set, ast.List, ast.Tuple)) and e.elts:
            return ['%s names members itself' % ast.unparse(e)[:70]]
        if isinstance(e, ast.Call) and isinstance(e.func, ast.Name) and e.func.id in ('set', 'list', 'tuple', 'frozenset', 'sorted') and e.args:
            return expr_adds(e.args[0], f, depth, seen)
        if isinstance(e, ast.Name):
            out = list(growth(f.node, e.id))
            for st in ast.walk(f.node):
                if isinstance(st, ast.Assign) and any(isinstance(t, ast.Name) and t.id == e.id for t in st.targets) and (id(st), e.id) not in seen:
                    seen.add((id(st), e.id))
                    out.extend(expr_adds(st.value, f, depth, seen))
            return out
        if isinstance(e, ast.Call) and isinstance(e.func, ast.Attribute) and isinstance(e.func.value, ast.Name) and e.func.value.id in ('self', 'cls') and \
                f.cls is not None and depth < 2:
            g = f.cls.resolve(e.func.attr)
            if g is not None and not g.module.external and getattr(g, 'node', None) is not None:
                out = []
                for r in ast.walk(g.node):
                    if isinstance(r, ast.Return) and r.value is not None:
                        out.extend('%s: %s' % (g.name, t) for t in expr_adds(r.value, g, depth + 1, seen))
                return out
        return []
    sample = ast.parse("def _p(self):\n    p = set(self.protocol)\n    if X.A in p:\n        p.add(X.B)\n    return p\n").body[0]

    class _F:
        node, cls = sample, None
    if not expr_adds(ast.parse('p').body[0].value, _F, 0, set()):
        report.error('%s: the rule does not recognise its own sample' % RULE)
        return
    n = 0
    for f in ctx.model.functions():
        if f.module.external:
            continue
        for x in ast.walk(f.node):
            if isinstance(x, ast.Call) and isinstance(x.func, ast.Attribute) and x.func.attr == 'compose_numeric_flags' and x.args:
                n += 1
                why = expr_adds(x.args[0], f, 0, set())
                if why:
                    report.add(RULE, '%s@flags[%s]' % (f.construct, ast.unparse(x.args[0])[:40]),
                               'the collection handed to compose_numeric_flags can hold a member the object does not: %s' % '; '.join(why)[:200])
    report.count(RULE, n)
    report.floor(RULE, 5, 'compose_numeric_flags calls of the package')

def check(ctx, report):
    model, it = ctx.model, ctx.interp
    report.rule('C11.R1', 'width table, byte orders, 3-byte padding symmetric, composer range check before cutting bytes')
    report.rule('C11.R2', 'struct.error converted around struct.pack')
    report.rule('C11.R3', 'no local-time API anywhere in the package; timestamp composer via timegm/utctimetuple')
    report.rule('C11.R4', 'flags: intersect on parse, OR on compose, mirrored shifts')
    report.rule('C11.R5', 'timestamp sentinel has the field width on both sides')
    fields_written_as_stored(ctx, report)
    flag_sets_written_as_held(ctx, report)
    report.floor('C11.R8', 20, 'timestamp fields')
    # the primitives are functions of their arguments: nothing is remembered between two calls (a memo keyed by the wire word alone
    # answers a shifted word with the members of the unshifted one); rules shared with C19.R5 / R10
    from .c19 import module_level_state, stateless_parsing
    module_level_state(ctx, report, RULE='C11.R10', title='the primitives keep nothing between calls: no function changes a module level container')
    stateless_parsing(ctx, report, RULE='C11.R11', allow_memo=True, modules=('cryptoparser/common/parse.py',),
                      title='no primitive writes class level state')
    octets_unchanged(ctx, report)
    length_prefixed_bytes(ctx, report)
    codec_as_named(ctx, report)
    pm = model.modules.get('cryptoparser.common.parse')
    if pm is None:
        report.error('C11: cryptoparser/common/parse.py vanished')
        return
    # ---- R1 table
    tb = model.resolve_name(pm, '_SIZE_TO_FORMAT')
    table = it.eval_var(tb) if tb is not None else None
    if not isinstance(table, DictV):
        report.error('C11.R1: _SIZE_TO_FORMAT is not a literal dict')
        return
    wide = []
    for k, v in table.pairs:
        report.count('C11.R1')
        if not isinstance(k, int) or not isinstance(v, str):
            report.add('C11.R1', pm.relpath + ':_SIZE_TO_FORMAT@entry[%s]' % show(k), 'entry is not width -> struct code')
            continue
        try:
            sz = struct.calcsize('>' + v)
        except struct.error:
            report.add('C11.R1', pm.relpath + ':_SIZE_TO_FORMAT@entry[%d]' % k, 'unknown struct code %r' % v)
            continue
        if v.lower() == v:
            report.add('C11.R1', pm.relpath + ':_SIZE_TO_FORMAT@entry[%d]' % k, 'struct code %r is signed: values >= 2^(8w-1) cannot be packed' % v)
        if sz < k:
            report.add('C11.R1', pm.relpath + ':_SIZE_TO_FORMAT@entry[%d]' % k, 'struct code %r holds %d bytes for a %d byte field (truncation)' % (v, sz, k))
        elif sz > k:
            wide.append((k, sz))
        report.sample({'rule': 'C11.R1', 'width': k, 'code': v, 'struct_size': sz})
    bo = model.cls('ByteOrder')
    vals = sorted(str(it.enum_value(EnumMember(bo, n))) for n in bo.enum_members)
    report.count('C11.R1')
    if vals != sorted(['=', '<', '>', '!']):
        report.add('C11.R1', bo.construct + '@values', 'byte order prefixes are %s' % vals)
    pf = method(model, 'ParserBinary', '_parse_numeric_array', report)
    cf = method(model, 'ComposerBinary', '_compose_numeric_array', report)
    if pf is None or cf is None:
        return
    tabulated = numeric_array_tabulation(ctx, report, pf, cf, {k: v for k, v in table.pairs if isinstance(k, int) and isinstance(v, str)})
    for k, sz in wide:
        if tabulated:
            break       # decided for every width and byte order by evaluating both primitives
        report.count('C11.R1', 3)
        padding_symmetry(ctx, report, pf, cf, k, sz)
        if not range_guard(cf, k):
            report.add('C11.R1', cf.construct + '@narrowing[%d]' % k,
                       'values are packed into %d bytes and cut to %d without a range check: a value >= 2^%d loses its high byte '
                       'silently instead of raising InvalidValue' % (sz, k, 8 * k))
    # ---- R2
    report.count('C11.R2')
    packs = [n for n in ast.walk(cf.node) if isinstance(n, ast.Call) and dotted(n.func) == 'struct.pack']
    if tabulated:
        # the tabulation above let struct.pack raise struct.error for every value its code cannot hold and saw InvalidValue
        # come out: the conversion exists wherever the call sits (helper method or not)
        packs = []
        report.sample({'rule': 'C11.R2', 'verdict': 'decided by the tabulation of _compose_numeric_array (out-of-range values raise InvalidValue)'})
    elif not packs:
        report.add('C11.R2', cf.construct + '@pack', 'struct.pack call not found')
    for p in packs:
        ok = False
        for t in ast.walk(cf.node):
            if isinstance(t, ast.Try) and any(x is p for b in t.body for x in ast.walk(b)):
                for h in t.handlers:
                    if h.type is not None and 'struct.error' in ast.unparse(h.type) and \
                            any('InvalidValue' in ast.unparse(x) for x in ast.walk(h) if isinstance(x, (ast.Raise, ast.Call))):
                        ok = True
        if not ok:
            report.add('C11.R2', cf.construct + '@struct.error', 'struct.pack is not inside a handler converting struct.error into InvalidValue')
    # ---- R3
    local_time_apis(ctx, report)
    report.count('C11.R3', len(list(model.functions())), nontrivial=0)
    ct = method(model, 'ComposerBinary', 'compose_timestamp', report)
    pt = method(model, 'ParserBinary', 'parse_timestamp', report)
    if ct is not None:
        report.count('C11.R3')
        problem = epoch_conversion(ct)
        if problem:
            report.add('C11.R3', ct.construct + '@epoch', problem)
    # ---- R4 / R5: flags and timestamps, tabulated (statements of the four primitives evaluated by sa.miniexec)
    flags_and_timestamps(ctx, report)
    masked_writes(ctx, report)
    report.rule('C11.R6', 'SSH mpint composer and parser tabulated against RFC 4251 over boundary bit lengths, both signs')
    mpint_pipeline(ctx, report)
    report.floor('C11.R1', 8, 'table/padding obligations')
    report.floor('C11.R6', 700, 'mpint sample values')


def epoch_conversion(ct):
    """the seconds since the epoch must be calendar.timegm(<value>.utctimetuple()) (or timegm of the time tuple of the
    value converted to UTC with astimezone): timetuple() keeps the local wall clock fields of an aware value, and
    time.mktime / naive .timestamp() interpret them in the zone of the machine"""
    # the method and the helper methods of its class it calls (``self._get_timestamp(value, milliseconds)``), whatever their names
    nodes, seen, work = [], set(), [ct]
    while work:
        g = work.pop()
        if id(g) in seen:
            continue
        seen.add(id(g))
        nodes.append(g.node)
        for n in ast.walk(g.node):
            if isinstance(n, ast.Call) and isinstance(n.func, ast.Attribute) and isinstance(n.func.value, ast.Name) and g.cls is not None and \
                    n.func.value.id in ('self', 'cls', g.cls.name):
                h = g.cls.resolve(n.func.attr)
                if h is not None and not h.module.external and len(seen) < 12:
                    work.append(h)
    calls = [n for node in nodes for n in ast.walk(node) if isinstance(n, ast.Call) and (dotted(n.func) or '').endswith('timegm')]
    if not calls:
        return 'seconds since the epoch are not computed through calendar.timegm(value.utctimetuple())'
    for n in calls:
        if len(n.args) != 1:
            return 'calendar.timegm is not applied to one time tuple'
        a = n.args[0]
        ok = isinstance(a, ast.Call) and isinstance(a.func, ast.Attribute) and (
            a.func.attr == 'utctimetuple' or
            (a.func.attr == 'timetuple' and isinstance(a.func.value, ast.Call) and isinstance(a.func.value.func, ast.Attribute)
             and a.func.value.func.attr == 'astimezone' and a.func.value.args and 'utc' in ast.unparse(a.func.value.args[0]).lower()))
        if not ok:
            return 'calendar.timegm is applied to %s: the fields of a time zone aware value are not converted to UTC first (utctimetuple())' % ast.unparse(a)
    return None


def local_time_apis(ctx, report, RULE='C11.R3', only=None):
    """Nothing in the package asks the machine for its time zone: no local-time function is called *or handed on as a value* (a
    converter argument ``datetime.datetime.fromtimestamp`` is called later without a zone), ``fromtimestamp`` always gets a zone, and
    ``astimezone`` - which reads a datetime without zone as local time - is applied only where the same value was tested for
    having a zone (``x.tzinfo is None`` / ``is not None`` in an enclosing or preceding test of the function)."""
    model = ctx.model
    for f in model.functions():
        if only is not None and not only(f):
            continue
        called = {id(n.func) for n in ast.walk(f.node) if isinstance(n, ast.Call)}
        zone_tested = set()
        for n in ast.walk(f.node):
            if isinstance(n, ast.Compare) and isinstance(n.left, ast.Attribute) and n.left.attr == 'tzinfo' and \
                    any(isinstance(c, ast.Constant) and c.value is None for c in n.comparators):
                zone_tested.add(ast.unparse(n.left.value))
            # truthiness form of the same test: ``... if value.tzinfo else ...``, ``if not value.tzinfo:``, ``value.tzinfo and ...``
            tests = []
            if isinstance(n, (ast.If, ast.IfExp, ast.While, ast.Assert)):
                tests.append(n.test)
            elif isinstance(n, ast.BoolOp):
                tests.extend(n.values[:-1])
            for t in tests:
                for m in ast.walk(t):
                    if isinstance(m, ast.Attribute) and m.attr == 'tzinfo':
                        zone_tested.add(ast.unparse(m.value))
        for n in ast.walk(f.node):
            d = None
            if isinstance(n, (ast.Attribute, ast.Name)):
                d = dotted(n)
            if d in LOCAL_TIME:
                report.count(RULE)
                report.add(RULE, f.construct + '@' + d, 'local-time API %s: the result depends on the TZ / DST rules of the machine' % d)
            if isinstance(n, ast.Attribute) and n.attr == 'fromtimestamp' and id(n) not in called and (d or '').startswith('datetime'):
                report.count(RULE)
                report.add(RULE, f.construct + '@fromtimestamp', 'datetime.fromtimestamp handed on as a value (a converter): it is called with the number alone '
                           'and yields local time')
            if isinstance(n, ast.Call):
                fd = dotted(n.func) or ''
                if fd.endswith('fromtimestamp') and not fd.endswith('utcfromtimestamp'):
                    report.count(RULE)
                    if len(n.args) < 2 and not any(k.arg == 'tz' for k in n.keywords):
                        report.add(RULE, f.construct + '@fromtimestamp', 'datetime.fromtimestamp without a tz argument yields local time')
                if fd in ('datetime.datetime.now', 'datetime.datetime.today', 'datetime.date.today') and not n.args and not n.keywords:
                    report.count(RULE)
                    report.add(RULE, f.construct + '@' + fd, 'naive local "now"')
                if isinstance(n.func, ast.Attribute) and n.func.attr == 'replace' and any(
                        k.arg == 'tzinfo' and not (isinstance(k.value, ast.Constant) and k.value.value is None) for k in n.keywords):
                    # replace(tzinfo=Z) keeps the wall clock and swaps the zone: right for a value without zone only
                    report.count(RULE)
                    recv = ast.unparse(n.func.value)
                    if recv not in zone_tested and not recv.endswith(')'):
                        report.add(RULE, f.construct + '@replace-tzinfo[%s]' % recv[:30],
                                   '%s.replace(tzinfo=...) without a test of %s.tzinfo: a value that already carries another zone keeps its wall clock '
                                   'and stands for another instant afterwards' % (recv, recv))
                if isinstance(n.func, ast.Attribute) and n.func.attr == 'astimezone':
                    report.count(RULE)
                    recv = ast.unparse(n.func.value)
                    if recv not in zone_tested and not recv.endswith(')'):
                        report.add(RULE, f.construct + '@astimezone[%s]' % recv[:30],
                                   '%s.astimezone(...) without a test of %s.tzinfo: a datetime without zone is read as local time there, the rest '
                                   'of the package reads it as UTC' % (recv, recv))


def length_prefixed_bytes(ctx, report, RULE='C11.R13',
                          title='length-prefixed byte strings: every length the prefix can hold is composed (prefix + data), the first one it cannot hold is refused'):
    """``compose_bytes`` / ``compose_string`` write ``len(data)`` in ``item_size`` octets and then the data.  Evaluated (sa.miniexec,
    the numeric primitive modelled with its documented contract: InvalidValue for a value the width cannot hold) for data of
    0, 1, 2^(8w)-2, 2^(8w)-1 octets - all must give prefix + data - and 2^(8w) octets - must be refused with InvalidValue - for
    w = 1, 2: a pre-check that is off by one (``>=`` for ``>``) refuses the longest legal string, e.g. a 255 octet TXT chunk."""
    from ..miniexec import Evaluator, ExcVal, Native, NativeError, Raised, Unsupported, class_call_hook
    model = ctx.model
    report.rule(RULE, title)
    cb = model.try_cls('ComposerBinary')
    if cb is None:
        report.error('%s: ComposerBinary not found' % RULE)
        return

    class Refused(NativeError):
        pass
    Refused.__name__ = 'InvalidValue'

    class State(Native):
        _repo_class = cb

        def __init__(self):
            self._composed = bytearray()

        def _compose_numeric_array(self, values, item_size):
            for v in values:
                if not 0 <= v < 2 ** (8 * item_size):
                    raise Refused(v)
                self._composed += int(v).to_bytes(item_size, 'big')
    hook = class_call_hook(cb, None, model)
    for prim, mk in (('compose_bytes', lambda n: b'x' * n), ('compose_string', lambda n: 'x' * n)):
        f = cb.resolve(prim)
        if f is None:
            continue
        report.touch(f)
        for w in (1, 2):
            top = 2 ** (8 * w) - 1
            for n in (0, 1, top - 1, top, top + 1):
                report.count(RULE)
                me = State()
                env = {'self': me, 'value': mk(n), 'item_size': w}
                if prim == 'compose_string':
                    env['encoding'] = 'ascii'
                else:
                    env['converter'] = bytearray
                try:
                    Evaluator(env, hook, hook.name_hook_for(f.module, None)).function(f.node)
                    outcome = bytes(me._composed)
                except Refused:
                    outcome = 'InvalidValue'
                except Raised as e:
                    outcome = 'InvalidValue' if 'InvalidValue' in str(e.what) else 'raise ' + str(e.what)[:40]
                except (Unsupported, AttributeError, TypeError) as e:
                    report.undecided.append('%s: %s not evaluable: %s' % (RULE, prim, e))
                    break
                want = 'InvalidValue' if n > top else n.to_bytes(w, 'big') + b'x' * n
                if outcome != want:
                    shown = outcome if isinstance(outcome, str) else '%d octets starting %s' % (len(outcome), outcome[:4].hex())
                    report.add(RULE, '%s@length[%s]' % (f.construct, 'max' if n == top else 'over' if n > top else 'below'),
                               '%s of %d octets with a %d octet prefix (largest length it holds: %d) gives %s, expected %s' % (
                                   prim, n, w, top, shown, want if isinstance(want, str) else 'the prefix and the data'))
                    break
    report.floor(RULE, 16, 'evaluated lengths')


def codec_as_named(ctx, report, RULE='C11.R14', classes=('ParserBase', 'ParserBinary', 'ParserText', 'ComposerBase', 'ComposerBinary', 'ComposerText'),
                   title='the string primitives convert with the encoding they are told to use (no literal codec on the way)'):
    """A primitive that takes an ``encoding`` (or whose object holds ``self._encoding``) converts between octets and text with that
    codec, always: a literal codec in its place - an "ASCII fast path" (``value.decode('ascii')``) in front of the named codec -
    gives another text for every codec that is not a superset of the literal one (``idna`` turns the ASCII octets ``xn--...``
    into other characters).  In every method of the primitive classes that has an ``encoding`` parameter or reads
    ``self._encoding``, each ``decode`` / ``encode`` / ``six.ensure_text`` / ``six.ensure_binary`` / ``str(..., codec)`` call names
    its codec through that parameter or attribute; a string literal there is a finding (the codec of a *separator constant* the
    method itself spells out, and ``errors=`` arguments, are not codecs of data)."""
    model = ctx.model
    report.rule(RULE, title)
    n = 0
    for name in classes:
        c = model.try_cls(name)
        if c is None:
            continue
        for f in c.methods.values():
            params = [a.arg for a in f.node.args.args + f.node.args.kwonlyargs]
            src = ast.unparse(f.node)
            if 'encoding' not in params and 'self._encoding' not in src:
                continue
            n += 1
            report.touch(f)
            for x in ast.walk(f.node):
                if not isinstance(x, ast.Call):
                    continue
                fn = ast.unparse(x.func)
                codec = None
                if isinstance(x.func, ast.Attribute) and x.func.attr in ('decode', 'encode') and x.args:
                    codec, subject = x.args[0], x.func.value
                elif fn in ('six.ensure_text', 'six.ensure_binary', 'six.ensure_str', 'str', 'bytes', 'bytearray', 'six.text_type') and len(x.args) >= 2:
                    codec, subject = x.args[1], x.args[0]
                else:
                    for k in x.keywords:
                        if k.arg == 'encoding':
                            codec, subject = k.value, (x.args[0] if x.args else None)
                if codec is None:
                    continue
                if isinstance(codec, ast.Constant) and isinstance(codec.value, str) and not isinstance(subject, ast.Constant):
                    report.add(RULE, '%s@codec[%s]' % (f.construct, codec.value),
                               '%s converts with the literal codec %r although the method is told which encoding to use: data of an encoding that is '
                               'not a superset of it (idna names, utf-16 text) is converted differently' % (ast.unparse(x)[:60], codec.value))
    report.count(RULE, n)
    report.floor(RULE, 10, 'methods of the primitive classes that take or hold an encoding')


NORMALISING_METHODS = ('strip', 'lstrip', 'rstrip', 'lower', 'upper', 'title', 'casefold', 'swapcase', 'capitalize', 'expandtabs', 'translate',
                       'removeprefix', 'removesuffix', 'replace', 'zfill', 'center', 'ljust', 'rjust')
# numeric codecs that cut zero octets by definition (the value, not text, decides): reviewed, one line each
NORMALISING_REVIEWED = {
    ('ComposerBinary._compose_mpint', 'lstrip'): "leading zero octets of the packed words are not part of an mpint (b'\\x00' only)",
    ('ComposerBinary._compose_mpint', 'rstrip'): "little-endian twin of the same cut (b'\\x00' only)",
}


def octets_unchanged(ctx, report, RULE='C11.R12', classes=('ParserBase', 'ParserBinary', 'ComposerBase', 'ComposerBinary'),
                     title='the shared string / byte primitives hand data on unchanged: no stripping, case folding or replacement of characters'):
    """The primitives every binary structure is read and written with are transparent: what ``parse_string`` decodes is what was on
    the wire and what ``compose_string_array`` joins is what the items hold.  A ``strip`` family call (a *set of characters*, not a
    suffix), a case mapping or a ``replace`` inside them changes data of every class built on them - a name that ends in the
    separator loses its tail, a blank at the end of a length-prefixed string disappears while the consumed length stays right.
    Every call of such a method with positional arguments or none (``datetime.replace`` takes keywords) in the methods of the
    primitive classes is a finding unless it is one of the reviewed numeric cuts."""
    model = ctx.model
    report.rule(RULE, title)
    n = 0
    for name in classes:
        c = model.try_cls(name)
        if c is None:
            continue
        for f in c.methods.values():
            n += 1
            report.touch(f)
            for x in ast.walk(f.node):
                if isinstance(x, ast.Call) and isinstance(x.func, ast.Attribute) and x.func.attr in NORMALISING_METHODS and \
                        not (x.func.attr == 'replace' and not x.args):
                    key = ('%s.%s' % (c.name, f.name), x.func.attr)
                    if key in NORMALISING_REVIEWED and all(isinstance(a, ast.Constant) and a.value == b'\x00' for a in x.args):
                        continue
                    report.add(RULE, '%s@%s[%s]' % (f.construct, x.func.attr, ast.unparse(x.func.value)[:30]),
                               '%s(%s) inside a primitive every structure is built on: the data handed on is not the data that was read / given '
                               '(strip takes a set of characters, not a suffix)' % (ast.unparse(x.func)[:50], ', '.join(ast.unparse(a)[:20] for a in x.args)))
    report.count(RULE, n)
    report.floor(RULE, 25, 'methods of the primitive classes')


def fields_written_as_stored(ctx, report, RULE='C11.R8', kinds=('ts',), modules=None, what=('in place of attribute',), links=False,
                             title='timestamp fields: the composer hands the stored attribute to the primitive, which alone decides the sentinel'):
    """The primitives are exact (R1, R5), a field is exact only if the value of the attribute is what reaches them: a composer that
    writes ``CONSTANT if self.attr is None else self.attr`` never writes the sentinel the parser turns back into None (or writes a
    constant for a value the parser stores as read).  The binding comparison of C01.R2 finds such positions; here the ones of the
    given element kinds / modules are reported."""
    from ..compare import compare_class
    from .c01 import classify, diff_key
    report.rule(RULE, title)
    n = 0
    for c in ctx.model.concrete_parsables():
        if modules is not None and c.module.name not in modules:
            continue
        if classify(ctx, c) not in ('binary', 'mixed'):
            continue
        try:
            cmpn = compare_class(c, ctx.canon)
        except Exception:      # pylint: disable=broad-except
            continue        # C01.R1 reports what it cannot derive
        n += sum(1 for a, b in cmpn.pairs if kinds is None or a.kind in kinds or b.kind in kinds)
        for d in cmpn.diffs:
            if d.kind == 'binding' and any(w in d.detail for w in what) and d.a is not None and d.b is not None and \
                    (kinds is None or d.a.kind in kinds or d.b.kind in kinds):
                report.add(RULE, '%s@%s' % (c.construct, diff_key(d)), d.detail)
        if links:
            # a length field the parser uses as the size of what follows, written from a stored number instead of the size of what is
            # written (C01.R1 reports the same): the composed blob is malformed as soon as the stored number is stale
            for u in cmpn.unknown:
                if u.startswith('length link of ') and 'composer value' in u:
                    report.add(RULE, '%s@link[%s]' % (c.construct, u.split(':')[0][len('length link of '):]),
                               'the parser uses this field as the length of the data after it, but the composer does not derive the value from the '
                               'size of the data it writes (%s)' % u.split(':', 1)[1].strip()[:120])
    report.count(RULE, n)
    return n


def numeric_array_tabulation(ctx, report, pf, cf, formats, RULE='C11.R1'):
    """_parse_numeric_array and _compose_numeric_array evaluated (sa.miniexec) for every width of the format table, the four
    byte orders and boundary values, with struct.pack / struct.unpack replaced by their documented meaning (prefix = byte
    order, code = width, struct.error for a value the code cannot hold or a buffer of another size).  Expected: the
    value's ``width`` bytes in the chosen order; a value that does not fit raises InvalidValue; parsing gives the value back
    and reports count * width bytes.  True when both functions stayed inside the evaluable subset (the syntactic padding /
    range rules are the fallback otherwise)."""
    from ..miniexec import Evaluator, Native, NativeError, Obj, Raised, Unsupported

    class error(NativeError):        # matches ``except struct.error`` by name
        pass
    orders = {'BIG_ENDIAN': '>', 'LITTLE_ENDIAN': '<', 'NETWORK': '!', 'NATIVE': '='}
    members = {n: Obj(name=n, value=p) for n, p in orders.items()}
    endian = {'>': 'big', '!': 'big', '<': 'little', '=': 'little'}

    def names(nm):
        if nm.startswith('ByteOrder.') and nm.split('.')[1] in members:
            return members[nm.split('.')[1]]
        if nm == '_SIZE_TO_FORMAT':
            return dict(formats)
        if nm == 'int':
            return int
        raise Unsupported('free name ' + nm)

    def hook(n, ev):
        # struct.pack / struct.unpack / struct.calcsize are the standard library's own (sa.miniexec): prefix = byte order,
        # code = width, struct.error for a value the code cannot hold or a buffer of another size
        return NotImplemented

    class Composer(Native):
        def __init__(self, order):
            self.byte_order, self._composed = order, bytearray()

    class Parser(Native):
        def __init__(self, order, data, pos):
            self.byte_order, self._parsable, self._parsed_length = order, data, pos

        @property
        def unparsed_length(self):
            return len(self._parsable) - self._parsed_length
    cparams = [a.arg for a in cf.node.args.args][1:]
    pparams = [a.arg for a in pf.node.args.args][1:]
    if len(cparams) != 2 or len(pparams) != 4:
        return False
    # helper methods of the two classes (a per-item packer, a padding helper ...) are evaluated from their own statements
    from ..miniexec import class_call_hook
    chook = class_call_hook(cf.cls, hook, ctx.model)
    phook = class_call_hook(pf.cls, hook, ctx.model)
    cnames, pnames = chook.name_hook_for(cf.module, names), phook.name_hook_for(pf.module, names)
    try:
        for oname, prefix in sorted(orders.items()):
            for width in sorted(formats):
                top = 1 << (8 * width)
                for v in sorted({0, 1, 0x7f, 0x80, 0xff, top >> 1, (top >> 1) - 1, top - 1, top - 2, int.from_bytes(bytes(range(1, width + 1)), 'big')} - {-1}):
                    if v >= top:
                        continue
                    report.count(RULE)
                    want = v.to_bytes(width, endian[prefix])
                    me = Composer(members[oname])
                    try:
                        Evaluator({'self': me, cparams[0]: [v], cparams[1]: width}, chook, cnames).function(cf.node)
                        got = bytes(me._composed)
                    except Raised as e:
                        got = 'raises ' + e.what[:40]
                    if got != want:
                        report.add(RULE, cf.construct + '@value[%d,%s]' % (width, oname),
                                   'ByteOrder.%s, width %d: %#x is composed as %s, expected %s' % (oname, width, v, got.hex() if isinstance(got, bytes) else got, want.hex()))
                        break
                    pr = Parser(members[oname], b'\xee' + want + want + b'\xdd', 1)
                    try:
                        res = Evaluator({'self': pr, pparams[0]: 'f', pparams[1]: 2, pparams[2]: width, pparams[3]: int}, phook, pnames).function(pf.node)
                    except Raised as e:
                        res = 'raises ' + e.what[:40]
                    if not (isinstance(res, tuple) and len(res) == 2 and list(res[0]) == [v, v] and res[1] == 2 * width):
                        report.add(RULE, pf.construct + '@value[%d,%s]' % (width, oname),
                                   'ByteOrder.%s, width %d: two items %s are parsed as %s, expected ([%#x, %#x], %d)' % (oname, width, want.hex(), res, v, v, 2 * width))
                        break
                # refusal instead of truncation
                for v in (top, top + 1, -1, top * 256 + 5):
                    report.count(RULE)
                    me = Composer(members[oname])
                    try:
                        Evaluator({'self': me, cparams[0]: [v], cparams[1]: width}, chook, cnames).function(cf.node)
                        report.add(RULE, cf.construct + '@narrowing[%d]' % width,
                                   'ByteOrder.%s: the value %#x does not fit %d byte(s) and is composed as %s instead of raising InvalidValue' % (oname, v, width, bytes(me._composed).hex()))
                        break
                    except Raised as e:
                        if 'InvalidValue' not in e.what:
                            report.add(RULE, cf.construct + '@narrowing[%d]' % width, 'a value that does not fit raises %s, not InvalidValue' % e.what[:50])
                            break
                # a short buffer is reported with the number of missing bytes
                report.count(RULE)
                pr = Parser(members[oname], b'\x00' * (2 * width - 1), 0)
                try:
                    Evaluator({'self': pr, pparams[0]: 'f', pparams[1]: 2, pparams[2]: width, pparams[3]: int}, phook, pnames).function(pf.node)
                    report.add(RULE, pf.construct + '@short[%d]' % width, 'two %d byte items are parsed from %d bytes' % (width, 2 * width - 1))
                except Raised as e:
                    if 'NotEnoughData' not in e.what:
                        report.add(RULE, pf.construct + '@short[%d]' % width, 'a short buffer raises %s, not NotEnoughData' % e.what[:50])
    except Unsupported as e:
        report.sample({'rule': RULE, 'tabulation': 'not applicable (%s): syntactic padding / range rules used instead' % e})
        return False
    return True


def numeric_widths_shared(ctx, report, RULE, title):
    """the width / byte order tabulation of the numeric primitives under another property's rule id (the fixed width integers
    of that property's messages are written and read by these two functions)"""
    model = ctx.model
    report.rule(RULE, title)
    pf = method(model, 'ParserBinary', '_parse_numeric_array', report)
    cf = method(model, 'ComposerBinary', '_compose_numeric_array', report)
    table = ctx.interp.eval_var(model.resolve_name(model.modules['cryptoparser.common.parse'], '_SIZE_TO_FORMAT')) \
        if 'cryptoparser.common.parse' in model.modules else None
    if pf is None or cf is None or not hasattr(table, 'pairs'):
        report.undecided.append('%s: numeric primitives / format table not found' % RULE)
        return
    if not numeric_array_tabulation(ctx, report, pf, cf, {k: v for k, v in table.pairs if isinstance(k, int) and isinstance(v, str)}, RULE=RULE):
        report.undecided.append('%s: the numeric primitives left the subset the tabulation understands (C11.R1 reads their shape)' % RULE)


def branch_for_order(ctx, f, width):
    """{byte order member: statements executed for it} of the ``if item_size == <width>`` block; the per-order test is
    folded with the analyser's constant propagator for each of the four members (None = not decidable)"""
    model, it = ctx.model, ctx.interp
    bo = model.cls('ByteOrder')
    for n in ast.walk(f.node):
        if isinstance(n, ast.If) and isinstance(n.test, ast.Compare) and ast.unparse(n.test.left) == 'item_size' and \
                isinstance(n.test.comparators[0], ast.Constant) and n.test.comparators[0].value == width:
            for m in n.body:
                if isinstance(m, ast.If) and 'byte_order' in ast.unparse(m.test):
                    out = {}
                    for name in bo.enum_members:
                        fr = it.new_frame(None, f.module, recv=ClassV(f.cls), defcls=f.cls)
                        fr.quiet = True
                        fr.env['self'] = ObjV(f.cls, {'byte_order': EnumMember(bo, name)})
                        out[name] = stmts_for(it, m, fr)
                    return out
    return None


def stmts_for(it, node, fr):
    """statements an if / elif chain executes under the constant environment of ``fr``"""
    t = truth(it.eval(node.test, fr))
    if t is None:
        return None
    branch = node.body if t else node.orelse
    if len(branch) == 1 and isinstance(branch[0], ast.If) and 'byte_order' in ast.unparse(branch[0].test):
        return stmts_for(it, branch[0], fr)
    return branch


# struct semantics of the four prefixes: '>' and '!' are big-endian; '<' is little-endian; '=' is the byte order of the
# host, which the analysis takes to be little-endian (the assumption the repository itself makes; stated in the evidence)
ORDER_KIND = {'BIG_ENDIAN': 'big', 'NETWORK': 'big', 'LITTLE_ENDIAN': 'little', 'NATIVE': 'little'}


def padding_symmetry(ctx, report, pf, cf, k, sz):
    pb = branch_for_order(ctx, pf, k)
    cb = branch_for_order(ctx, cf, k)
    if pb is None or cb is None:
        report.add('C11.R1', pf.construct + '@padding[%d]' % k, 'width %d uses a %d byte struct code but no per-byte-order padding branch was found on both sides' % (k, sz))
        return

    def pad_side(stmts):
        for st in stmts:
            for n in ast.walk(st):
                if isinstance(n, ast.BinOp) and isinstance(n.op, ast.Add):
                    l, r = n.left, n.right
                    if isinstance(l, ast.Constant) and isinstance(l.value, bytes) and set(l.value) == {0} and len(l.value) == sz - k:
                        return 'front'
                    if isinstance(r, ast.Constant) and isinstance(r.value, bytes) and set(r.value) == {0} and len(r.value) == sz - k:
                        return 'back'
        return None

    def cut_side(stmts):
        for st in stmts:
            for n in ast.walk(st):
                if isinstance(n, ast.Subscript) and isinstance(n.slice, ast.Slice):
                    lo, hi = n.slice.lower, n.slice.upper
                    if lo is not None and isinstance(lo, ast.Constant) and lo.value == sz - k and hi is None:
                        return 'front'
                    if hi is not None and isinstance(hi, ast.Constant) and hi.value == k and (lo is None or (isinstance(lo, ast.Constant) and lo.value == 0)):
                        return 'back'
        return None
    want = {'big': 'front', 'little': 'back'}
    for side, f, table, fn in (('parse', pf, pb, pad_side), ('compose', cf, cb, cut_side)):
        for member in sorted(table):
            report.count('C11.R1')
            kind = ORDER_KIND.get(member)
            if kind is None:
                report.add('C11.R1', f.construct + '@padding[%d,%s]' % (k, member), 'byte order %s is not one of the four struct prefixes the rule knows' % member)
                continue
            stmts = table[member]
            got = fn(stmts) if stmts is not None else 'an undecidable branch'
            if got != want[kind]:
                report.add('C11.R1', f.construct + '@padding[%d,%s]' % (k, member),
                           'ByteOrder.%s (%s-endian) %d byte integers: the %s must %s %d zero byte(s) at the %s, found %s' % (
                               member, kind, k, side + 'r', 'add' if side == 'parse' else 'drop', sz - k, want[kind], got))


def range_guard(cf, k):
    """a raise of InvalidValue guarded by a comparison of the value with 2**(8*k) (any spelling) in the k-byte path"""
    for n in ast.walk(cf.node):
        if isinstance(n, ast.If) and any(isinstance(x, ast.Raise) or (isinstance(x, ast.Expr) and 'raise_from' in ast.unparse(x)) for x in n.body):
            t = ast.unparse(n.test)
            if 'value' in t and ('item_size' in t or str(2 ** (8 * k)) in t or hex(2 ** (8 * k)) in t or '2 ** 24' in t or '1 << 24' in t
                                 or str(2 ** (8 * k) - 1) in t or '0xffffff' in t.lower()):
                return True
    return False


# ---- R6: SSH mpint pipeline ---------------------------------------------------------------------------

def rfc4251_mpint(v):
    """RFC 4251 section 5: two's complement, big-endian, minimal, uint32 length prefix"""
    if v == 0:
        body = b''
    else:
        n = (v.bit_length() + 8) // 8 if v > 0 else ((v + 1).bit_length() + 8) // 8
        body = v.to_bytes(n, 'big', signed=True)
    return len(body).to_bytes(4, 'big') + body


def mpint_samples(thorough=False):
    out = {0}
    bits = range(1, 4130) if thorough else list(range(1, 140)) + list(range(248, 264)) + list(range(1016, 1034)) + list(range(2040, 2058)) + list(range(4088, 4106))
    for b in bits:
        out.add(1 << (b - 1))            # smallest value with bit length b
        out.add((1 << b) - 1)            # largest value with bit length b
        out.add(-(1 << (b - 1)))
        out.add(-((1 << b) - 1))
    return sorted(out)


_MODEL = {}


def _binary_models():
    """model objects for ComposerBinary / ParserBinary instances: only the lowest primitives (_compose_numeric_array,
    _parse_numeric_array: big-endian words, range and availability checks - decided by R1) are modelled; every other method
    (compose_numeric, compose_raw, compose_bytes, compose_numeric_array, parse_numeric_array ...) is evaluated from the
    repository's own statements through the static MRO (``_repo_class``)"""
    if 'Composer' in _MODEL:
        return _MODEL
    from ..miniexec import Native, NativeError, Obj

    class InvalidValue(NativeError):
        pass

    class NotEnoughData(NativeError):
        pass
    orders = {n: Obj(name=n, value=p) for n, p in (('BIG_ENDIAN', '>'), ('LITTLE_ENDIAN', '<'), ('NETWORK', '!'), ('NATIVE', '='))}

    class Composer(Native):
        _repo_class = None

        def __init__(self, order=None):
            self.byte_order = order or orders['NETWORK']
            self._composed = bytearray()

        def _compose_numeric_array(self, values, item_size):
            out = bytearray()
            for v in values:
                if not isinstance(v, int) or isinstance(v, bool) or not 0 <= v < (1 << (8 * item_size)):
                    raise InvalidValue(v)
                out += int(v).to_bytes(item_size, 'big' if self.byte_order.value in '>!' else 'little')
            self._composed += out

        @property
        def composed_bytes(self):
            return bytes(self._composed)

        composed = composed_bytes

        @property
        def composed_length(self):
            return len(self._composed)

    class Parser(Native):
        _repo_class = None

        def __init__(self, data, order=None, pos=0):
            self._parsable, self._parsed_length, self._parsed_values = bytes(data), pos, {}
            self.byte_order = order or orders['NETWORK']

        @property
        def unparsed_length(self):
            return len(self._parsable) - self._parsed_length

        @property
        def parsed_length(self):
            return self._parsed_length

        def __getitem__(self, k):
            return self._parsed_values[k]

        def _parse_numeric_array(self, name, item_num, item_size, cls_):
            need = item_num * item_size
            if self._parsed_length + need > len(self._parsable):
                raise NotEnoughData(need - self.unparsed_length)
            o = self._parsed_length
            return [int.from_bytes(self._parsable[o + i * item_size:o + (i + 1) * item_size], 'big' if self.byte_order.value in '>!' else 'little')
                    for i in range(item_num)], need
    _MODEL.update(Composer=Composer, Parser=Parser, orders=orders)
    return _MODEL


def _mpint_env(model, cls, kind):
    from ..miniexec import Unsupported, class_call_hook
    m = _binary_models()
    m['Composer']._repo_class = model.cls('ComposerBinary')
    m['Parser']._repo_class = model.cls('ParserBinary')

    def names(nm):
        if nm.startswith('ByteOrder.') and nm.split('.')[1] in m['orders']:
            return m['orders'][nm.split('.')[1]]
        if nm == 'int':
            return int
        raise Unsupported('free name ' + nm)

    def extra(n, ev):
        d = ast.unparse(n.func)
        if d in ('ComposerBinary', 'ParserBinary'):
            args = [ev.ev(a) for a in n.args]
            kw = {k.arg: ev.ev(k.value) for k in n.keywords}
            if d == 'ComposerBinary':
                return m['Composer'](kw.get('byte_order', args[0] if args else None))
            return m['Parser'](args[0], kw.get('byte_order', args[1] if len(args) > 1 else None))
        if d == 'six.int2byte':
            return bytes([ev.ev(n.args[0])])
        if d == 'six.indexbytes':
            return ev.ev(n.args[0])[ev.ev(n.args[1])]
        return NotImplemented
    hook = class_call_hook(cls, extra, model)
    return hook, hook.name_hook_for(cls.module, names)


def compose_mpint_by_ast(cb, value, method='compose_ssh_mpint', extra=None, model=None):
    """bytes ``method`` emits for ``value`` under network byte order, obtained by evaluating the statements of the method and
    of everything it calls on the composer (sa.miniexec); only the 4 byte word packing is the model's (decided by R1)"""
    from ..miniexec import Evaluator
    model = model or _MODEL.get('model')
    hook, names = _mpint_env(model, cb, 'compose')
    me = _binary_models()['Composer']()
    Evaluator(dict({'self': me, 'value': value}, **(extra or {})), hook, names).function(cb.methods[method].node)
    return bytes(me._composed)


def parse_mpint_by_ast(pb, data, method='parse_ssh_mpint', extra=None, prefix=b'', model=None):
    """(value, cursor advance) ``method`` produces for the encoding ``data`` found behind ``prefix`` in the buffer"""
    from ..miniexec import Evaluator
    model = model or _MODEL.get('model')
    hook, names = _mpint_env(model, pb, 'parse')
    me = _binary_models()['Parser'](bytes(prefix) + bytes(data), None, len(prefix))
    Evaluator(dict({'self': me, 'name': 'v'}, **(extra or {})), hook, names).function(pb.methods[method].node)
    return me._parsed_values.get('v'), me._parsed_length - len(prefix)


def mpint_pipeline(ctx, report, rule='C11.R6', signs=(1, -1), quiet_fallback=False):
    """returns True when both directions were evaluated for every sample (False: the code left the evaluable subset; with
    ``quiet_fallback`` nothing is reported then and the caller applies its syntactic reading instead)"""
    from ..miniexec import Raised, Unsupported
    model = ctx.model
    _MODEL['model'] = model
    cb, pb = model.cls('ComposerBinary'), model.cls('ParserBinary')
    need = [(cb, 'compose_ssh_mpint'), (cb, '_compose_mpint'), (pb, 'parse_ssh_mpint'), (pb, '_parse_mpint')]
    for c, n in need:
        if n not in c.methods:
            report.error('%s: %s.%s vanished' % (rule, c.name, n))
            return
        report.touch(c.methods[n])
    cf, pf = cb.resolve('compose_ssh_mpint'), pb.resolve('parse_ssh_mpint')
    bad_c = bad_p = 0
    samples = mpint_samples(ctx.thorough)
    for v in samples:
        if (v < 0 and -1 not in signs) or (v >= 0 and 1 not in signs):
            continue
        report.count(rule)
        want = rfc4251_mpint(v)
        try:
            got = compose_mpint_by_ast(cb, v)
        except Raised as e:
            report.add(rule, cf.construct + '@value[raises]', 'composing the %d bit integer %s.. raises %s' % (abs(v).bit_length(), hex(v)[:14], e.what[:50]))
            return
        except Unsupported as e:
            if not quiet_fallback:
                report.add(rule, cf.construct + '@tabulation', 'the mpint composer left the integer subset the tabulation understands: %s' % e)
            return False
        body = got[4:]
        decoded = int.from_bytes(body, 'big', signed=True) if body else 0
        if got[:4] != len(body).to_bytes(4, 'big') or decoded != v:
            bad_c += 1
            if bad_c <= 3:
                sign = 'negative' if v < 0 else 'non-negative'
                report.add(rule, cf.construct + '@value[%s,bits=%d mod 32]' % (sign, abs(v).bit_length() % 32),
                           'the %d bit %s integer %s.. is composed as %s.. which decodes to a different value (RFC 4251: %s..)' % (
                               abs(v).bit_length(), sign, hex(v)[:14], got.hex()[:24], want.hex()[:24]))
        elif v >= 0 and got != want:
            bad_c += 1
            if bad_c <= 3:
                report.add(rule, cf.construct + '@minimal[bits=%d mod 8]' % (v.bit_length() % 8),
                           'the %d bit integer is composed as %s.., RFC 4251 demands the minimal form %s..' % (v.bit_length(), got.hex()[:24], want.hex()[:24]))
        try:
            pv, adv = parse_mpint_by_ast(pb, want)
            if pv == v and adv == len(want) and abs(v).bit_length() % 7 == 3:
                # the same encoding behind other data: every read must be relative to the cursor, not to the buffer start
                for prefix in (b'\xff\x00\x80\x01\x7f', b'\x00\x00\x00\x00\xff\xff'):
                    report.count(rule)
                    pv2, adv2 = parse_mpint_by_ast(pb, want, prefix=prefix)
                    if pv2 != v or adv2 != len(want):
                        pv, adv = pv2, adv2
                        break
        except Raised as e:
            pv, adv = 'raises %s' % e.what[:40], None
        except Unsupported as e:
            if not quiet_fallback:
                report.add(rule, pf.construct + '@tabulation', 'the mpint parser left the integer subset the tabulation understands: %s' % e)
            return False
        if pv != v or adv != len(want):
            bad_p += 1
            if bad_p <= 3:
                report.add(rule, pf.construct + '@value[%s,len=%d mod 4]' % ('negative' if v < 0 else 'non-negative', (len(want) - 4) % 4),
                           'the RFC 4251 encoding %s.. of %s.. is parsed as %s.. (cursor advance %s, encoding has %d bytes)' % (
                               want.hex()[:24], hex(v)[:14], hex(pv)[:14] if isinstance(pv, int) else pv, adv, len(want)))
    if rule == 'C11.R6':
        fixed_mpint(ctx, report, cb, pb, rule)
    ret_ok = True
    report.sample({'rule': rule, 'values': len(samples), 'bit_lengths': ('every bit length 1..4129' if ctx.thorough else '1..139, 248..263, 1016..1033, 2040..2057, 4088..4105') + '; min and max value of each bit length, both signs'})
    return ret_ok


def fixed_mpint(ctx, report, cb, pb, rule, negatives=True):
    """compose_mpint(value, length) / parse_mpint(name, length): big-endian, exactly ``length`` bytes, zero padded in
    front; a value that needs more bytes is refused with InvalidValue"""
    from ..miniexec import Raised, Unsupported
    _MODEL['model'] = ctx.model
    if 'compose_mpint' not in cb.methods or 'parse_mpint' not in pb.methods:
        report.error('%s: compose_mpint / parse_mpint vanished' % rule)
        return
    cf, pf = cb.resolve('compose_mpint'), pb.resolve('parse_mpint')
    report.touch(cf)
    report.touch(pf)
    bits = list(range(1, 4130)) if ctx.thorough else list(range(1, 80)) + [127, 128, 129, 1023, 1024, 1025, 2047, 2048, 2049, 4095, 4096]
    try:
        for b in bits:
            for v in ((1 << (b - 1)), (1 << b) - 1):
                need = (b + 7) // 8
                for length in (need, need + 1, need + 3):
                    report.count(rule)
                    want = v.to_bytes(length, 'big')
                    try:
                        got = compose_mpint_by_ast(cb, v, 'compose_mpint', {'length': length})
                    except Raised as e:
                        report.add(rule, cf.construct + '@refused[pad=%d]' % (length - need), 'a %d bit integer is refused for a %d byte field (%s)' % (b, length, e.what[:60]))
                        return
                    if got != want:
                        report.add(rule, cf.construct + '@value[bits=%d mod 8,pad=%d]' % (b % 8, length - need),
                                   'the %d bit integer composed into %d bytes is %s.., expected %s..' % (b, length, got.hex()[:24], want.hex()[:24]))
                        return
                    pv, adv = parse_mpint_by_ast(pb, want, 'parse_mpint', {'mpint_length': length})
                    if pv != v or adv != length:
                        report.add(rule, pf.construct + '@value[bits=%d mod 8,pad=%d]' % (b % 8, length - need),
                                   '%d bytes %s.. are parsed as %s (cursor advance %s), expected the %d bit integer' % (length, want.hex()[:24], hex(pv)[:18] if isinstance(pv, int) else pv, adv, b))
                        return
                for short in sorted({need - 1, need // 2, need // 4, (need - 1) // 4, 1} - {0}):
                    if short >= need:
                        continue
                    report.count(rule)
                    try:
                        got = compose_mpint_by_ast(cb, v, 'compose_mpint', {'length': short})
                        report.add(rule, cf.construct + '@truncation', 'a %d bit integer is composed into %d byte(s) (%s..) instead of being refused' % (b, short, got.hex()[:24]))
                        return
                    except Raised as e:
                        if 'InvalidValue' not in e.what:
                            report.add(rule, cf.construct + '@truncation', 'a value too wide for the field raises %s, not InvalidValue' % e.what)
                            return
        # negative values: the fixed-length form has no sign octet, the parser reads it as unsigned
        for v, length in ((-1, 4), (-1024, 10), (-0x7fff, 2)) if negatives else ():
            report.count(rule)
            try:
                wire = compose_mpint_by_ast(cb, v, 'compose_mpint', {'length': length})
            except Raised:
                continue            # refusing a negative value is a consistent answer for an unsigned field
            pv, adv = parse_mpint_by_ast(pb, wire, 'parse_mpint', {'mpint_length': length})
            if pv != v:
                report.add(rule, pf.construct + '@negative-fixed',
                           'compose_mpint(%d, %d) writes %s, which parse_mpint reads back as %s: negative fixed-length integers do not round trip' % (
                               v, length, wire.hex(), hex(pv) if isinstance(pv, int) else pv))
                break
    except Unsupported as e:
        report.add(rule, cf.construct + '@tabulation', 'the fixed length mpint code left the subset the tabulation understands: %s' % e)


# ---- R4 / R5 -------------------------------------------------------------------------------------------------------------

def flags_and_timestamps(ctx, report, R4='C11.R4', R5='C11.R5'):
    import itertools
    from ..miniexec import Evaluator, Native, Obj, Raised, Unsupported
    model = ctx.model
    pb, cb = model.cls('ParserBinary'), model.cls('ComposerBinary')
    need = [(pb, 'parse_numeric_flags'), (cb, 'compose_numeric_flags'), (pb, 'parse_timestamp'), (cb, 'compose_timestamp')]
    for c, n in need:
        if n not in c.methods:
            report.error(R4 + ': %s.%s vanished' % (c.name, n))
            return
        report.touch(c.methods[n])
    pfl, cfl, pts, cts = (c.methods[n] for c, n in need)

    class Flags(Native):
        """an IntEnum-like class: iterable over its members, callable on a member value"""

        def __init__(self, members):
            self.members = list(members)

        def __iter__(self):
            return iter(self.members)

        def __call__(self, v):
            if v not in self.members:
                raise ValueError(v)
            return v

    class State(Native):
        def __init__(self, wire=None):
            self._parsed_length, self._parsed_values, self.wire, self.out = 0, {}, wire, []

        def _parse_numeric_array(self, name, item_num, item_size, cls_):
            return [self.wire], item_size

        def _compose_numeric_array(self, values, item_size):
            self.out.append((list(values), item_size))
    members = [0x1, 0x2, 0x8, 0x100, 0x8000, 0x10000, 0x20000, 0x800000]

    from ..miniexec import class_call_hook
    # helper methods the primitives may delegate to are evaluated from their own statements through the MRO
    pbh, cbh = class_call_hook(pb, None, model), class_call_hook(cb, None, model)

    def free(name):
        raise Unsupported('free name ' + name)

    def run_parse(f, me, env):
        Evaluator(dict({'self': me}, **env), pbh, pbh.name_hook_for(pb.module, free)).function(f.node)
    try:
        for size, shift in ((2, 0), (2, 16), (4, 0), (1, 0)):
            window = [m for m in members if (m >> shift) and (m >> shift) < (1 << (8 * size))]
            # sets of members, and - the flag fields admit any iterable - lists that name a member twice: the encoding is the OR
            repeated = [(window[0], window[0]), (window[0], window[-1], window[0])] if window else []
            for k in range(0, min(len(window), 3) + 1):
                for subset in list(itertools.combinations(window, k)) + (repeated if k == 2 else []):
                    report.count(R4)
                    me = State()
                    Evaluator({'self': me, 'values': list(subset), 'item_size': size, 'shift_right': shift}, cbh, cbh.name_hook_for(cb.module, free)).function(cfl.node)
                    want = 0
                    for m in subset:
                        want |= m >> shift
                    if me.out != [([want], size)]:
                        report.add(R4, cfl.construct + '@encode[shift=%d]' % shift, 'the flag set %s is composed as %s, expected the OR of the members >> %d = %#x in %d byte(s)' % (
                            [hex(m) for m in subset], me.out, shift, want, size))
                        raise StopIteration
                    junk = 0x4 >> 0 if shift == 0 and size > 1 else 0      # a bit no member owns
                    rd = State(want | junk)
                    run_parse(pfl, rd, {'name': 'f', 'size': size, 'flags_class': Flags(members), 'shift_left': shift})
                    got = rd._parsed_values.get('f')
                    if got != set(subset) or rd._parsed_length != size:
                        report.add(R4, pfl.construct + '@decode[shift=%d]' % shift, 'wire value %#x (%d bytes, shift %d) is decoded as %s with the cursor at %s; expected the members %s' % (
                            want | junk, size, shift, sorted(got) if isinstance(got, set) else got, rd._parsed_length, sorted(subset)))
                        raise StopIteration
    except StopIteration:
        pass
    except (Unsupported, Raised) as e:
        report.add(R4, pfl.construct + '@tabulation', 'the flag primitives left the subset the tabulation understands: %s' % e)
    # ---- timestamps
    UTC = Obj(name='UTC')

    class Instant(Native):
        """an aware datetime: ``seconds`` since the epoch (UTC), shown on a wall clock ``offset`` seconds ahead of UTC"""

        def __init__(self, seconds, millis=0, offset=0):
            self.seconds, self.millis, self.offset = seconds, millis, offset
            self.microsecond = millis * 1000
            self.tzinfo = UTC if offset == 0 else Obj(name='+%d' % offset)

        def utctimetuple(self):
            return ('utc-tuple', self.seconds)

        def timetuple(self):
            return ('utc-tuple', self.seconds + self.offset)      # wall clock fields, which timegm reads as if they were UTC

        def astimezone(self, tz):
            if tz is not UTC:
                raise Unsupported('astimezone to something else than UTC')
            return Instant(self.seconds, self.millis, 0)

        def __add__(self, other):
            return Instant(self.seconds, self.millis + other.millis, self.offset)

    def hook(n, ev):
        d = ast.unparse(n.func)
        if d == 'calendar.timegm':
            t = ev.ev(n.args[0])
            if not (isinstance(t, tuple) and t[0] == 'utc-tuple'):
                raise Unsupported('timegm of something that is not the UTC tuple')
            return t[1]
        if d in ('datetime.datetime.fromtimestamp', 'datetime.datetime.utcfromtimestamp'):
            secs = ev.ev(n.args[0])
            if isinstance(secs, (int, float)) and secs > 253402300799:
                raise ValueError('year %d is out of range' % (1970 + int(secs // 31556952)))      # datetime ends with the year 9999
            return Instant(secs)
        if d == 'datetime.timedelta':
            kw = {k.arg: ev.ev(k.value) for k in n.keywords}
            return Obj(millis=kw.get('milliseconds', 0) + 1000 * kw.get('seconds', 0))
        return NotImplemented

    def names(name):
        if name == 'int':
            return int
        if name == 'dateutil.tz.UTC':
            return UTC
        raise Unsupported('free name ' + name)
    chook, phook = class_call_hook(cb, hook, model), class_call_hook(pb, hook, model)
    cnames, pnames = chook.name_hook_for(cb.module, names), phook.name_hook_for(pb.module, names)
    try:
        for size, ms in ((4, False), (8, False), (8, True)):
            sentinel = (1 << (8 * size)) - 1
            for seconds, millis in ((0, 0), (1, 0), (86399, 999), (1710000000, 123), (0x7fffffff, 1), (0xfffffffe, 999)) + \
                    (((0xffffffff, 0), (0x100000005, 7), (0x3ffffffff, 500)) if size == 8 else ()):   # 8 byte fields reach past 2106
                report.count(R5)
                inst = Instant(seconds, millis if ms else 0, offset=(0, 7200, -19800)[(seconds + size) % 3])
                me = State()
                Evaluator({'self': me, 'value': inst, 'milliseconds': ms, 'item_size': size}, chook, cnames).function(cts.node)
                want = seconds * 1000 + millis if ms else seconds
                if me.out != [([want], size)]:
                    report.add(R5, cts.construct + '@value[%s]' % ('ms' if ms else 's'), 'the instant %d s + %d ms is composed as %s in a %d byte field, expected %d' % (seconds, millis if ms else 0, me.out, size, want))
                    break
                rd = State(want)
                Evaluator({'self': rd, 'name': 't', 'milliseconds': ms, 'item_size': size}, phook, pnames).function(pts.node)
                got = rd._parsed_values.get('t')
                if not isinstance(got, Instant) or (got.seconds, got.millis) != (seconds, millis if ms else 0) or rd._parsed_length != size:
                    report.add(R5, pts.construct + '@value[%s]' % ('ms' if ms else 's'), 'the %d byte wire value %d is parsed as %s, expected %d s + %d ms' % (
                        size, want, (getattr(got, 'seconds', got), getattr(got, 'millis', None)), seconds, millis if ms else 0))
                    break
            # wire values beyond the year 9999 that are not the all-ones value: they cannot be represented, and they are not
            # "forever" either - composing None back writes all ones, i.e. other bytes than were parsed
            for wire in ((253402300800 * (1000 if ms else 1), (1 << 63) - 1, sentinel - 1) if size == 8 else ()):
                report.count(R5)
                rd = State(wire)
                try:
                    Evaluator({'self': rd, 'name': 't', 'milliseconds': ms, 'item_size': size}, phook, pnames).function(pts.node)
                    got = rd._parsed_values.get('t', 'missing')
                    if got is None:
                        report.add(R5, pts.construct + '@beyond-range', 'the %d byte wire value %d (after the year 9999, not the all-ones value) is parsed as None: the '
                                   'object composes back as %#x, other bytes than it was parsed from' % (size, wire, sentinel))
                        break
                except Raised as e:
                    if 'InvalidValue' not in e.what:
                        report.add(R5, pts.construct + '@beyond-range', 'the %d byte wire value %d raises %s' % (size, wire, e.what[:60]))
                        break
            report.count(R5)
            me = State()
            Evaluator({'self': me, 'value': None, 'milliseconds': ms, 'item_size': size}, chook, cnames).function(cts.node)
            if me.out != [([sentinel], size)]:
                report.add(R5, cts.construct + '@sentinel', 'None ("forever") is composed as %s in a %d byte field, expected the all-ones value %#x' % (me.out, size, sentinel))
            rd = State(sentinel)
            Evaluator({'self': rd, 'name': 't', 'milliseconds': ms, 'item_size': size}, phook, pnames).function(pts.node)
            if rd._parsed_values.get('t', 'missing') is not None:
                report.add(R5, pts.construct + '@sentinel', 'the all-ones value of a %d byte field is parsed as %r, expected None' % (size, rd._parsed_values.get('t')))
    except (Unsupported, Raised) as e:
        report.add(R5, cts.construct + '@tabulation', 'the timestamp primitives left the subset the tabulation understands: %s' % e)


# ---- R7: no truncating mask in front of a width-limited write ------------------------------------------------------------

def has_shift_of(v, operand_text):
    """does the value contain ``<operand> >> k`` (the other half of a bit split)?"""
    from ..values import Sym, show
    if not isinstance(v, Sym):
        return False
    if v.op in ('rshift', 'floordiv') and operand_text in show(v.args[0]):
        return True
    return any(has_shift_of(a, operand_text) for a in v.args)


def masked_writes(ctx, report):
    """a composer that writes ``value & (2**(8w) - 1)`` (or ``value % 2**(8w)``) into a w byte field reduces an out-of-range
    value modulo the field instead of letting the primitive refuse it. A mask is accepted when it is one half of a bit
    split (a sibling element writes the bits the mask removes, ``(value & hi) >> s``)."""
    from ..compare import _descendants
    from ..values import Sym, show
    report.rule('C11.R7', 'composers do not mask a value to the field width before writing it (truncation instead of refusal)')
    n = 0
    for c in ctx.model.concrete_parsables():
        f = c.methods.get('compose')
        if f is None:
            continue
        try:
            cn = ctx.canon.canon(c, 'compose')
        except Exception:      # pylint: disable=broad-except
            continue
        if cn is None:
            continue
        els = [e for e in _descendants(cn.elements) if e.kind == 'u' and isinstance(e.w, int)]
        for e in els:
            n += 1
            v = e.val
            full = (1 << (8 * e.w)) - 1
            operand = None
            if isinstance(v, Sym) and v.op == 'and' and full in v.args:
                operand = [a for a in v.args if a != full]
            elif isinstance(v, Sym) and v.op == 'mod' and len(v.args) == 2 and v.args[1] == full + 1:
                operand = [v.args[0]]
            if not operand or isinstance(operand[0], int):
                continue
            x = show(operand[0])
            split = any(o is not e and has_shift_of(o.val, x) for o in els)
            if not split and isinstance(operand[0], Sym) and operand[0].op == 'rshift' and operand[0].args:
                # ``(code >> 8) & 0xff`` next to ``code & 0xff``: the other spelling of the same split (``(code & 0xff00) >> 8``)
                inner = show(operand[0].args[0])
                split = any(o is not e and inner in show(o.val) for o in els)
            if split:
                continue
            report.add('C11.R7', '%s@masked[%s]' % (f.construct, x[:50]),
                       '%s is reduced to %d byte(s) with %s before it is written: a value that does not fit is truncated instead of refused' % (
                           x[:60], e.w, 'a mask' if v.op == 'and' else 'a modulus'))
    # two fields packed into one write (``len(body) | number << 24`` into 4 octets): the primitive checks the word, not the part - a low
    # part that outgrows its bits runs into the high part instead of being refused.  The low part has to be masked, a constant, or an
    # enum code; a length or an attribute of the object is a finding
    for c in ctx.model.concrete_parsables():
        f = c.methods.get('compose')
        if f is None:
            continue
        try:
            cn = ctx.canon.canon(c, 'compose')
        except Exception:      # pylint: disable=broad-except
            continue
        if cn is None:
            continue
        for e in [e for e in _descendants(cn.elements) if e.kind == 'u' and isinstance(e.w, int)]:
            v = e.val
            if not (isinstance(v, Sym) and v.op in ('or', 'add') and len(v.args) == 2):
                continue
            shifted = [a for a in v.args if isinstance(a, Sym) and a.op == 'lshift' and len(a.args) == 2 and isinstance(a.args[1], int)]
            low = [a for a in v.args if not (isinstance(a, Sym) and a.op == 'lshift')]
            if len(shifted) != 1 or len(low) != 1 or isinstance(low[0], (int, bool)):
                continue
            lo = low[0]
            if isinstance(lo, Sym) and lo.op in ('and', 'mod'):
                continue        # cut to its bits explicitly
            report.add('C11.R7', '%s@packed[%s]' % (f.construct, show(lo)[:40]),
                       '%s is written into the low %d bits of a %d octet word next to %s: nothing refuses a value that needs more bits, it runs into '
                       'the other field' % (show(lo)[:60], shifted[0].args[1], e.w, show(shifted[0])[:50]))
    report.count('C11.R7', n)
    report.floor('C11.R7', 120, 'fixed-width integer writes')
