"""C11 -- integer, flag, mpint and timestamp primitives are exact and never truncate."""
from __future__ import annotations

import ast
import struct

from ..model import ClassInfo, EnumMember, dotted
from ..values import DictV, show

META = {
    'explanation': (
        'Structural rules on common/parse.py. R1: the width->struct-code table maps every width to a code at least that '
        'wide and ByteOrder has exactly the four struct prefixes; for a width whose code is wider (3 -> I) the parser pads '
        'and the composer cuts on the same end for each byte order, and the composer range-checks the value before bytes '
        'are cut off (narrowing without check is reported). R2: struct.pack sits inside a handler that converts '
        'struct.error into InvalidValue. R3 (who-may-call): no function of the package calls a local-time API '
        '(time.mktime/localtime/timezone/altzone, naive datetime.fromtimestamp/now/today, .timetuple() fed to mktime); '
        'the timestamp composer goes through calendar.timegm/utctimetuple. R4: flags are decoded by intersecting with each '
        'member and encoded by OR-ing, with mirrored shifts. R5: the "forever" sentinel has the width of the field on both sides.'),
    'assumptions': ['struct packs/unpacks standard sizes exactly for the prefixes = < > !'],
    'trusted_base': ['python ast', 'struct.calcsize for the table check'],
    'exhaustive': True,
}

LOCAL_TIME = {'time.mktime', 'time.localtime', 'time.timezone', 'time.altzone', 'time.daylight', 'time.tzname', 'time.ctime',
              'time.asctime', 'time.strftime'}


def method(model, cls, name, report):
    c = model.cls(cls)
    f = c.methods.get(name)
    if f is None:
        report.error('C11: %s.%s vanished' % (cls, name))
    else:
        report.touch(f)
    return f


def check(ctx, report):
    model, it = ctx.model, ctx.interp
    report.rule('C11.R1', 'width table, byte orders, 3-byte padding symmetric, composer range check before cutting bytes')
    report.rule('C11.R2', 'struct.error converted around struct.pack')
    report.rule('C11.R3', 'no local-time API anywhere in the package; timestamp composer via timegm/utctimetuple')
    report.rule('C11.R4', 'flags: intersect on parse, OR on compose, mirrored shifts')
    report.rule('C11.R5', 'timestamp sentinel has the field width on both sides')
    pm = model.modules.get('cryptoparser.common.parse')
    if pm is None:
        report.error('C11: cryptoparser/common/parse.py vanished')
        return
    # ---- R1 table
    tb = model.resolve_name(pm, '_SIZE_TO_FORMAT')
    table = it.eval_var(tb) if tb is not None else None
    if not isinstance(table, DictV):
        report.error('C11.R1: _SIZE_TO_FORMAT is not a literal dict')
        return
    wide = []
    for k, v in table.pairs:
        report.count('C11.R1')
        if not isinstance(k, int) or not isinstance(v, str):
            report.add('C11.R1', pm.relpath + ':_SIZE_TO_FORMAT@entry[%s]' % show(k), 'entry is not width -> struct code')
            continue
        try:
            sz = struct.calcsize('>' + v)
        except struct.error:
            report.add('C11.R1', pm.relpath + ':_SIZE_TO_FORMAT@entry[%d]' % k, 'unknown struct code %r' % v)
            continue
        if v.lower() == v:
            report.add('C11.R1', pm.relpath + ':_SIZE_TO_FORMAT@entry[%d]' % k, 'struct code %r is signed: values >= 2^(8w-1) cannot be packed' % v)
        if sz < k:
            report.add('C11.R1', pm.relpath + ':_SIZE_TO_FORMAT@entry[%d]' % k, 'struct code %r holds %d bytes for a %d byte field (truncation)' % (v, sz, k))
        elif sz > k:
            wide.append((k, sz))
        report.sample({'rule': 'C11.R1', 'width': k, 'code': v, 'struct_size': sz})
    bo = model.cls('ByteOrder')
    vals = sorted(str(it.enum_value(EnumMember(bo, n))) for n in bo.enum_members)
    report.count('C11.R1')
    if vals != sorted(['=', '<', '>', '!']):
        report.add('C11.R1', bo.construct + '@values', 'byte order prefixes are %s' % vals)
    pf = method(model, 'ParserBinary', '_parse_numeric_array', report)
    cf = method(model, 'ComposerBinary', '_compose_numeric_array', report)
    if pf is None or cf is None:
        return
    for k, sz in wide:
        report.count('C11.R1', 3)
        padding_symmetry(report, pf, cf, k, sz)
        if not range_guard(cf, k):
            report.add('C11.R1', cf.construct + '@narrowing[%d]' % k,
                       'values are packed into %d bytes and cut to %d without a range check: a value >= 2^%d loses its high byte '
                       'silently instead of raising InvalidValue' % (sz, k, 8 * k))
    # ---- R2
    report.count('C11.R2')
    packs = [n for n in ast.walk(cf.node) if isinstance(n, ast.Call) and dotted(n.func) == 'struct.pack']
    if not packs:
        report.add('C11.R2', cf.construct + '@pack', 'struct.pack call not found')
    for p in packs:
        ok = False
        for t in ast.walk(cf.node):
            if isinstance(t, ast.Try) and any(x is p for b in t.body for x in ast.walk(b)):
                for h in t.handlers:
                    if h.type is not None and 'struct.error' in ast.unparse(h.type) and \
                            any('InvalidValue' in ast.unparse(x) for x in ast.walk(h) if isinstance(x, (ast.Raise, ast.Call))):
                        ok = True
        if not ok:
            report.add('C11.R2', cf.construct + '@struct.error', 'struct.pack is not inside a handler converting struct.error into InvalidValue')
    # ---- R3
    for f in model.functions():
        for n in ast.walk(f.node):
            d = None
            if isinstance(n, (ast.Attribute, ast.Name)):
                d = dotted(n)
            if d in LOCAL_TIME:
                report.count('C11.R3')
                report.add('C11.R3', f.construct + '@' + d, 'local-time API %s: the result depends on the TZ / DST rules of the machine' % d)
            if isinstance(n, ast.Call):
                fd = dotted(n.func) or ''
                if fd.endswith('fromtimestamp') and not fd.endswith('utcfromtimestamp'):
                    report.count('C11.R3')
                    if len(n.args) < 2 and not any(k.arg == 'tz' for k in n.keywords):
                        report.add('C11.R3', f.construct + '@fromtimestamp', 'datetime.fromtimestamp without a tz argument yields local time')
                if fd in ('datetime.datetime.now', 'datetime.datetime.today', 'datetime.date.today') and not n.args and not n.keywords:
                    report.count('C11.R3')
                    report.add('C11.R3', f.construct + '@' + fd, 'naive local "now"')
    report.count('C11.R3', len(list(model.functions())), nontrivial=0)
    ct = method(model, 'ComposerBinary', 'compose_timestamp', report)
    pt = method(model, 'ParserBinary', 'parse_timestamp', report)
    if ct is not None:
        report.count('C11.R3')
        src = ast.unparse(ct.node)
        if not ('timegm' in src or 'utctimetuple' in src or 'timestamp()' in src):
            report.add('C11.R3', ct.construct + '@epoch', 'seconds since the epoch are not computed through calendar.timegm/utctimetuple (or an aware .timestamp())')
    # ---- R4
    pfl = method(model, 'ParserBinary', 'parse_numeric_flags', report)
    cfl = method(model, 'ComposerBinary', 'compose_numeric_flags', report)
    if pfl is not None and cfl is not None:
        report.count('C11.R4', 2)
        p_ops = [type(n.op).__name__ for n in ast.walk(pfl.node) if isinstance(n, ast.BinOp)]
        c_ops = [type(n.op).__name__ for n in ast.walk(cfl.node) if isinstance(n, (ast.BinOp, ast.AugAssign))]
        p_shift = [ast.unparse(n.right) for n in ast.walk(pfl.node) if isinstance(n, ast.BinOp) and isinstance(n.op, ast.LShift)]
        c_shift = [ast.unparse(n.right) for n in ast.walk(cfl.node) if isinstance(n, ast.BinOp) and isinstance(n.op, ast.RShift)]
        if 'BitAnd' not in p_ops or 'LShift' not in p_ops or 'RShift' in p_ops or set(p_shift) != {'shift_left'}:
            report.add('C11.R4', pfl.construct + '@decode', 'flags must be decoded as member & (value << shift_left)')
        if 'BitOr' not in c_ops or 'RShift' not in c_ops or 'LShift' in c_ops or set(c_shift) != {'shift_right'}:
            report.add('C11.R4', cfl.construct + '@encode', 'flags must be encoded as OR of (member >> shift_right)')
        # the member (not the raw intersection) must be what is kept, and only when the intersection is non-zero
        comps = [n for n in ast.walk(pfl.node) if isinstance(n, (ast.SetComp, ast.ListComp))]
        if not comps or not comps[0].generators[0].ifs:
            report.add('C11.R4', pfl.construct + '@filter', 'members must be kept only when they intersect the value')
    # ---- R5
    if ct is not None and pt is not None:
        report.count('C11.R5', 2)
        p_sent = [n for n in ast.walk(pt.node) if isinstance(n, ast.Compare) and 'item_size' in ast.unparse(n)]
        c_sent = None
        for n in ast.walk(ct.node):
            if isinstance(n, ast.If) and 'is None' in ast.unparse(n.test):
                for st in n.body:
                    if isinstance(st, ast.Assign):
                        c_sent = st.value
        if not p_sent:
            report.add('C11.R5', pt.construct + '@sentinel', 'parser sentinel does not depend on item_size')
        if c_sent is None or 'item_size' not in ast.unparse(c_sent):
            report.add('C11.R5', ct.construct + '@sentinel',
                       'the value emitted for None is %s whatever item_size is: a %s-byte field cannot compose the None its own parser produces' % (
                           ast.unparse(c_sent) if c_sent is not None else '?', 'narrower'))
        elif p_sent:
            ps = ast.unparse(p_sent[0].comparators[0]).replace(' ', '').strip('()')
            cs = ast.unparse(c_sent).replace(' ', '').strip('()')
            if ps != cs:
                report.add('C11.R5', ct.construct + '@sentinel', 'parser tests %s, composer emits %s' % (ps, cs))
    report.floor('C11.R1', 8, 'table/padding obligations')


def branch_for_order(f, width):
    """(big-endian statements, other statements) of the ``if item_size == <width>`` block"""
    for n in ast.walk(f.node):
        if isinstance(n, ast.If) and isinstance(n.test, ast.Compare) and ast.unparse(n.test.left) == 'item_size' and \
                isinstance(n.test.comparators[0], ast.Constant) and n.test.comparators[0].value == width:
            for m in n.body:
                if isinstance(m, ast.If) and 'byte_order' in ast.unparse(m.test):
                    t = ast.unparse(m.test)
                    big_first = 'BIG_ENDIAN' in t or 'NETWORK' in t
                    if isinstance(m.test, ast.Compare) and isinstance(m.test.ops[0], (ast.NotIn, ast.NotEq)):
                        big_first = not big_first
                    return (m.body, m.orelse) if big_first else (m.orelse, m.body)
    return None


def padding_symmetry(report, pf, cf, k, sz):
    pb = branch_for_order(pf, k)
    cb = branch_for_order(cf, k)
    if pb is None or cb is None:
        report.add('C11.R1', pf.construct + '@padding[%d]' % k, 'width %d uses a %d byte struct code but no per-byte-order padding branch was found on both sides' % (k, sz))
        return

    def pad_side(stmts):
        for st in stmts:
            for n in ast.walk(st):
                if isinstance(n, ast.BinOp) and isinstance(n.op, ast.Add):
                    l, r = n.left, n.right
                    if isinstance(l, ast.Constant) and isinstance(l.value, bytes) and set(l.value) == {0} and len(l.value) == sz - k:
                        return 'front'
                    if isinstance(r, ast.Constant) and isinstance(r.value, bytes) and set(r.value) == {0} and len(r.value) == sz - k:
                        return 'back'
        return None

    def cut_side(stmts):
        for st in stmts:
            for n in ast.walk(st):
                if isinstance(n, ast.Subscript) and isinstance(n.slice, ast.Slice):
                    lo, hi = n.slice.lower, n.slice.upper
                    if lo is not None and isinstance(lo, ast.Constant) and lo.value == sz - k and hi is None:
                        return 'front'
                    if hi is not None and isinstance(hi, ast.Constant) and hi.value == k and (lo is None or (isinstance(lo, ast.Constant) and lo.value == 0)):
                        return 'back'
        return None
    want = {'big': 'front', 'little': 'back'}
    got = {'parse': {'big': pad_side(pb[0]), 'little': pad_side(pb[1])}, 'compose': {'big': cut_side(cb[0]), 'little': cut_side(cb[1])}}
    for side, f in (('parse', pf), ('compose', cf)):
        for order in ('big', 'little'):
            if got[side][order] != want[order]:
                report.add('C11.R1', f.construct + '@padding[%d,%s]' % (k, order),
                           '%s-endian %d byte integers: the %s must %s %d zero byte(s) at the %s, found %s' % (
                               order, k, side + 'r', 'add' if side == 'parse' else 'drop', sz - k, want[order], got[side][order]))


def range_guard(cf, k):
    """a raise of InvalidValue guarded by a comparison of the value with 2**(8*k) (any spelling) in the k-byte path"""
    for n in ast.walk(cf.node):
        if isinstance(n, ast.If) and any(isinstance(x, ast.Raise) or (isinstance(x, ast.Expr) and 'raise_from' in ast.unparse(x)) for x in n.body):
            t = ast.unparse(n.test)
            if 'value' in t and ('item_size' in t or str(2 ** (8 * k)) in t or hex(2 ** (8 * k)) in t or '2 ** 24' in t or '1 << 24' in t
                                 or str(2 ** (8 * k) - 1) in t or '0xffffff' in t.lower()):
                return True
    return False
