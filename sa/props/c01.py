"""C01 -- compose o parse round trip: reader/writer agreement clauses (DESIGN.md section 4, C01)."""
from __future__ import annotations

import ast

import json
import os

from ..codecs import EVALUATED_CODECS
from ..compare import compare_class, parse_bindings, compose_root, collect_fields
from ..model import ClassInfo
from ..values import ClassV, DictV, ObjV, SelfV, Sym, show
from ..trace import Op, walk

META = {
    'explanation': (
        'Static reader/writer agreement. The bodies of _parse and compose of every concrete parsable class are '
        'abstractly interpreted (helpers inlined through the statically computed MRO, constant classmethods '
        'folded) into wire layouts; R1 compares the two layouts element by element (kind, width, byte order, '
        'nested class, optional branches, repetition, which length prefix governs which body and with what '
        'offset); R2 compares which attribute each wire position is bound to; R5 checks that every concrete '
        'class has both directions and that every variant registry maps a tag to a class carrying that tag. '
        'Decides the layout/binding clause of the round trip for all field values; value-level equality of '
        'converters (IDNA, dates, mpint arithmetic) is not decided.'
        ' R1h / R6 / R7 and the link fallback: the SSL 2.0 record header of both sides is tabulated over all header bytes; the item kind a vector parameter describes must be the kind its composer handles; the name[=value] composers are evaluated over absent / empty / plain / quoted values; a length field whose relation to its data is not affine on one or both sides is composed for n data bytes and fed back to the parser\'s size expression.'),
    'assumptions': [
        'the DSL primitives of common/parse.py behave as their names and signatures say (their own bodies are '
        'checked by C11/C03/C04 rules, not here)',
        'classes listed in sa/reviewed.json under C01.R1 were compared by hand; the listed difference set is '
        're-derived on every run and any change of it is reported',
    ],
    'trusted_base': ['python ast', 'sa.model (validated against the runtime MRO/attrs order during development)',
                     'sa.interp/sa.layout/sa.canon/sa.compare', 'sa/reviewed.json', 'sa/nondsl.json'],
    'exhaustive': True,
}

META['explanation'] += ' ' + 'R2t: text classes, every attribute the parser fills is written by the composer and back. R8: DnsRecordTxt.compose evaluated over text lengths around every multiple of 255 (chunks of at most 255 octets whose concatenation is the text). R9: equality - the class providing __eq__ (explicit, or attrs generated), the names it compares, against the instance state the class chain stores and the composer reads; classes without any value equality. Length links: a length field the parser uses must be derived by the composer from the size of the data it writes (affine link, sub-parser window, tabulated clamp / condition); a stored or cached number is a finding.'
META['explanation'] += ' ' + 'R10: SCSV fold tabulated through the class defaults. R11: a default that reads the clock is evaluated through default factory, composer and parser and must come back equal. R12: an optional part keyed on a flag by one side is keyed on the same flag by the other (element-wise after splitting optional groups). R13: a field the parser fills with parse_numeric(..., bool) has a bool converter or validator.'

META['explanation'] += ' ' + 'R2 also: a parsed field that reaches no argument of the constructed object, a constant written in place of an attribute the parser stores as read, items written sorted / reversed. R14: numeric presence by truth value. R15: flag words and timestamps (shared with C11.R4/R5). R16: ECDSA points (shared with C07.R12). R17: validators in the position of a default. R18: adjacent optional text parts with the same introducer.'

META['explanation'] += ' ' + 'R19: SSH identification string (shared with C07.R6). R20: SPF network terms (shared with C18.R7). R21: no member of a variant table demands more bytes up front than a complete message of a sibling has. R22: the lower bound a parser puts on a length field admits the smallest value the composer writes.'

HERE = os.path.dirname(os.path.dirname(os.path.abspath(__file__)))


def load_json(name):
    with open(os.path.join(HERE, name)) as f:
        return json.load(f)


from ..speccheck import canonical_sig


def diff_key(d):
    a, b = d.a, d.b
    what = None
    if a is not None and a.key is not None:
        what = str(a.key)
    elif a is not None:
        what = a.sig()
    elif b is not None:
        what = b.sig()
    return '%s[%s]' % (d.kind, canonical_sig(what) if isinstance(what, str) else what)


def classify(ctx, c):
    """'binary' | 'text' | 'variant' | 'list' | 'none' -- which rule applies to the class."""
    if c.is_subclass_of('VariantParsableBase'):
        return 'variant'
    if c.is_subclass_of('ListParsable'):
        return 'list'
    lay = ctx.canon.layout(c, 'parse')
    cl = ctx.canon.layout(c, 'compose')
    kinds = {p.kind for p in lay.result.parsers} | {x.kind for x in cl.result.composers}
    if 'text' in kinds and 'binary' in kinds:
        return 'mixed'
    if 'text' in kinds:
        return 'text'
    if not kinds:
        return 'none'
    return 'binary'


# length fields whose composer side is a formula decided by another rule (SSH padding: C07.R2/R3 tabulate it)
LINKS_DECIDED_ELSEWHERE = {'length link of padding_length'}


def check(ctx, report):
    model = ctx.model
    reviewed = load_json('reviewed.json').get('C01.R1', {})
    nondsl = load_json('nondsl.json')
    report.rule('C01.R1', 'parse layout == compose layout (kinds, widths, byte order, nesting, length links)')
    report.rule('C01.R2', 'wire position bound to the same attribute on both sides')
    report.rule('C01.R2t', 'text classes: every attribute filled by the parser is written by the composer and back')
    report.rule('C01.R5', 'both directions concrete; registry tag == class tag')
    classes = model.concrete_parsables()
    seen_reviewed = set()
    for c in classes:
        report.touch(c.resolve('_parse'))
        report.touch(c.resolve('compose'))
        kind = classify(ctx, c)
        cons = c.construct
        if c.name in nondsl:
            report.count('C01.R1', 1, nontrivial=0)
            report.undecided.append('%s: %s' % (c.name, nondsl[c.name]))
            continue
        if kind == 'mixed':
            # a binary frame around a text body (uint32 length + name-list): text bindings for the body, layout comparison for the frame
            text_bindings(ctx, c, report)
        if kind in ('binary', 'mixed'):
            hdr = reviewed.get(c.name, {}).get('strip_header')
            cmpn = compare_class(c, ctx.canon, strip_header=tuple(hdr) if hdr else None)
            if c.name in EVALUATED_CODECS and (cmpn.diffs or c.name in reviewed):
                # the two layouts differ in shape (a loop that reads its terminator against one that writes it afterwards, one
                # wide word split arithmetically against two fields): both functions are evaluated from their own statements
                # against the wire format the specification gives (sa/codecs.py).  The symbolic comparison stays the judge when
                # it finds no difference, and when the functions cannot be evaluated
                ev = EVALUATED_CODECS[c.name](ctx)
                if ev['evaluated']:
                    report.count('C01.R1', ev['runs'])
                    for side, text in sorted(ev['problems'].items()):
                        report.add('C01.R1', '%s@codec[%s]' % (cons, side), text)
                    if not ev['problems']:
                        report.sample({'rule': 'C01.R1', 'class': c.name, 'verdict': 'codec evaluated against the wire format', 'runs': ev['runs']}, 40)
                    seen_reviewed.add(c.name)
                    continue
                report.undecided.append('%s: codec not evaluable (%s): layout comparison decides' % (c.name, ev['why']))
            n_el = len(cmpn.pairs)
            report.count('C01.R1', 1, nontrivial=1 if n_el >= 2 else 0)
            report.count('C01.R2', sum(1 for a, b in cmpn.pairs if a.key is not None and b.val is not None))
            for u in cmpn.unknown:
                if u.startswith('length link of ') and 'composer value' in u and u.split(':')[0] not in LINKS_DECIDED_ELSEWHERE:
                    # the parser takes this field as the size of what follows, the composer writes something that is not derived
                    # from the size of what it composes (a cached or stored number): not a pass, the two can drift apart
                    report.add('C01.R1', '%s@link[%s]' % (cons, u.split(':')[0][len('length link of '):]),
                               'the parser uses this field as the length of the data after it, but the composer does not derive the '
                               'value from the size of the data it writes (%s)' % u.split(':', 1)[1].strip()[:120])
                    continue
                report.undecided.append('%s: %s' % (c.name, u))
            keys = sorted(diff_key(d) for d in cmpn.diffs)
            if c.name in reviewed:
                seen_reviewed.add(c.name)
                want = sorted(reviewed[c.name]['expect'])
                if keys != want:
                    report.add('C01.R1', cons + '@reviewed', 'reviewed difference set changed: expected %s, derived %s' % (want, keys))
                else:
                    report.sample({'rule': 'C01.R1', 'class': c.name, 'verdict': 'reviewed equivalence',
                                   'reason': reviewed[c.name]['reason'], 'differences': keys}, 40)
                continue
            # items the composer adds to a list it writes: an object constructed inside compose() that is put into the sequence of an
            # attribute (a padding extension appended "for interoperability") is on the wire but not in the object - parsing the
            # bytes back gives another object.  Signalling *constants* appended under a flag are the business of R10
            for e in cmpn.ccanon.flat:
                if e.kind in ('repeat', 'array') and e.val is not None:
                    extra = added_objects(e.val)
                    if extra:
                        report.add('C01.R2', '%s@added-item[%s]' % (cons, extra[0].cls.name),
                                   'the composer writes the items of %s plus a %s it constructs itself: the composed message holds an item the object '
                                   'does not have, parsing it back gives a different object' % (show(_first_splat(e.val))[:60], extra[0].cls.name))
            for d in cmpn.diffs:
                rule = 'C01.R2' if d.kind == 'binding' else 'C01.R1'
                report.add(rule, '%s@%s' % (cons, diff_key(d)), d.detail)
            if not cmpn.diffs and n_el >= 3:
                report.sample({'rule': 'C01.R1', 'class': c.name, 'verdict': 'agree',
                               'parse': [e.sig() + ('@%s' % e.key if e.key else '') for e in cmpn.pcanon.elements][:12],
                               'compose': [e.sig() for e in cmpn.ccanon.elements][:12]})
        elif kind == 'text':
            text_bindings(ctx, c, report)
        else:
            report.count('C01.R1', 1, nontrivial=0)
    # vectors: the kind of item the parameter object describes (what the parser produces) is the kind the composer handles
    from .c12 import item_size_agreement
    item_size_agreement(ctx, report, model.cls('ArrayBase'), RULE='C01.R6',
                        title='vector parameter (item kind produced by the parser) and vector composer (item kind consumed) agree')
    # text side: the name[=value] composers write the four value kinds the parser distinguishes (shared with C18.R4)
    from .c18 import name_value_composers
    name_value_composers(ctx, report, rule='C01.R7')
    from .c08 import txt_chunks
    txt_chunks(ctx, report, rule='C01.R8')
    # the client hello folds two signalling cipher suites into flags: parse and compose evaluated over every short suite sequence
    # (shared with C05.R3) - what the parser turns into a flag is what the composer writes for that flag, defaults included
    report.rule('C01.R10', 'client hello: signalling cipher suites folded by the parser are the ones the composer unfolds (flags, defaults, order)')
    from .c05 import scsv_tabulation
    hello = model.try_cls('TlsHandshakeClientHello')
    if hello is not None and hello.methods.get('_parse') is not None and hello.methods.get('compose') is not None:
        if not scsv_tabulation(ctx, report, hello, hello.resolve('_parse'), hello.resolve('compose'), RULE='C01.R10'):
            report.undecided.append('C01.R10: the client hello left the subset the tabulation understands (C05.R3 reads its shape)')
    equality(ctx, report)
    clock_defaults(ctx, report)
    flag_keyed_optionals(ctx, report)
    truth_valued_fields(ctx, report)
    number_presence_by_truth_value(ctx, report)
    # value level: the shared flag / timestamp primitives (what is written for an instant is read back as that instant, milliseconds
    # included; tabulation shared with C11.R4 / R5) and the SEC1 point of ECDSA host keys (coordinates keep their width, C07.R12)
    from .c11 import flags_and_timestamps
    report.rule('C01.R15', 'flag words and timestamps (seconds and milliseconds): the value composed is the value parsed back')
    flags_and_timestamps(ctx, report, R4='C01.R15', R5='C01.R15')
    report.floor('C01.R15', 100, 'tabulated flag words and instants')
    from .c07 import ecdsa_points
    ecdsa_points(ctx, report, RULE='C01.R16')
    defaults_are_values(ctx, report)
    indistinguishable_optionals(ctx, report)
    # the SSH identification string and the SPF network terms are decided by tabulation (C07.R6, C18.R7): what is composed is read
    # back as the same fields (comment blanks kept, prefix lengths not dropped)
    from .c07 import banner
    banner(ctx, report, RULE='C01.R19')
    from .c18 import spf_network_composer
    spf_network_composer(ctx, report, rule='C01.R20')
    variant_siblings_reachable(ctx, report)
    guards_admit_smallest(ctx, report)
    if 'SslRecord' in reviewed and reviewed['SslRecord'].get('strip_header'):
        # the header left out of the element-wise comparison above
        from .c06 import ssl2_header
        ssl2_header(ctx, report, RULE='C01.R1h')
    for name in reviewed:
        if name not in seen_reviewed:
            report.error('C01.R1: reviewed class %s no longer analysed (anchor vanished)' % name)
    exhaustiveness(ctx, report)
    report.floor('C01.R1', 150, 'binary DSL classes')
    report.floor('C01.R2t', 100, 'text DSL classes')
    report.floor('C01.R5', 300, 'class/registry obligations')


def indistinguishable_optionals(ctx, report, RULE='C01.R18', only=None):
    """Two optional parts of a text value that follow each other, are written under conditions on two different attributes and
    begin with the same literal (``/`` length ``/`` length): when only the second is present the composer writes exactly what it
    writes when only the first is present, so the parser - which reads left to right - hands the value to the first.  Decided on
    the composer layout of every class written in the text DSL: adjacent optional alternatives with equal shape and equal leading
    constants."""
    report.rule(RULE, 'text values: two adjacent optional parts are told apart by what introduces them')
    n = 0

    def lead(arm):
        out = []
        for e in arm:
            if e.kind in ('t:separator', 't:string') and isinstance(e.val, str):
                out.append((e.kind, e.val))
            else:
                break
        return out

    def attrs_of(v):
        return {r[0] for r in compose_root(v)} - {'*'} if v is not None else set()

    def scan(els, c):
        nonlocal n
        for x, y in zip(els, els[1:]):
            if x.kind == 'alt' and y.kind == 'alt':
                for (xa, xb), (ya, yb) in (((x.a, x.b), (y.a, y.b)),):
                    if xa and ya and not xb and not yb:
                        n += 1
                        if [e.sig() for e in xa] == [e.sig() for e in ya] and lead(xa) and lead(xa) == lead(ya) and \
                                attrs_of(x.val) and attrs_of(y.val) and not (attrs_of(x.val) & attrs_of(y.val)):
                            first, second = sorted(attrs_of(x.val))[0], sorted(attrs_of(y.val))[0]
                            report.add(RULE, '%s@optional[%s,%s]' % (c.construct, first, second),
                                       'the optional parts for %s and %s are both written as %s followed by %s: a value with only %s set is composed as '
                                       'the bytes of a value with only %s set, and is parsed back as that one' % (
                                           first, second, ' '.join(repr(v) for _, v in lead(xa)), ' '.join(e.sig() for e in xa[len(lead(xa)):]) or 'nothing',
                                           second, first))
        for e in els:
            if e.kind == 'alt':
                scan(e.a, c)
                scan(e.b, c)
            elif e.kind in ('repeat', 'array') and getattr(e, 'body', None):
                scan(e.body, c)
    for c in ctx.model.concrete_parsables():
        if only is not None and not only(c):
            continue
        if classify(ctx, c) not in ('text', 'mixed'):
            continue
        try:
            cc = ctx.canon.canon(c, 'compose')
        except Exception:      # pylint: disable=broad-except
            continue
        if cc is None:
            continue
        scan(list(cc.elements), c)
    report.count(RULE, n)
    report.floor(RULE, 3, 'pairs of adjacent optional parts')


def defaults_are_values(ctx, report, RULE='C01.R17'):
    """The first positional argument of ``attr.ib`` is the *default* of the field.  A validator written there is never applied, and
    an object built without that argument holds the validator object as its value: the library lets the caller construct it, and it
    cannot be composed.  Every field declaration of the package is read: the positional argument, where there is one, is not a
    call into ``attr.validators`` (nor a converter / ``attr.Factory`` misplaced the same way is accepted as a value)."""
    report.rule(RULE, 'field declarations: what stands in the position of the default is a value, not a validator; a container default is of the kind the parser stores')
    n = 0
    for c in ctx.model.repo_classes():
        for fld in c.own_fields:
            n += 1
            if not fld.call.args:
                continue
            a = fld.call.args[0]
            text = ast.unparse(a.func) if isinstance(a, ast.Call) else ''
            if text.startswith(('attr.validators.', 'validators.', 'attrs.validators.')):
                report.add(RULE, '%s@field[%s]' % (c.construct, fld.name),
                           '%s.%s = attr.ib(%s): the validator is in the position of the default - it is never applied, and %s() built without '
                           'this argument holds the validator object as %s (composing it fails)' % (c.name, fld.name, ast.unparse(a)[:60], c.name, fld.name))
    # a container default of another kind than what the parser stores: ``states = attr.ib(default=attr.Factory(dict))`` while
    # parse_numeric_flags yields a set - the object built with the default is not equal to its own parse(compose()) ({} != set()),
    # and renders as {} where the parsed one renders as []
    KINDS = {'dict': 'dict', 'list': 'list', 'tuple': 'tuple', 'set': 'set', 'frozenset': 'set', 'collections.OrderedDict': 'dict', 'OrderedDict': 'dict'}
    for c in ctx.model.repo_classes():
        if not c.has_attrs():
            continue
        flag_keys = set()
        for k in c.mro:
            if not isinstance(k, ClassInfo):
                continue
            for g in k.methods.values():
                if 'parse' not in g.name:
                    continue
                for x in ast.walk(g.node):
                    if isinstance(x, ast.Call) and isinstance(x.func, ast.Attribute) and x.func.attr == 'parse_numeric_flags' and x.args and \
                            isinstance(x.args[0], ast.Constant) and isinstance(x.args[0].value, str):
                        flag_keys.add(x.args[0].value)
        for fld in c.attrs_fields():
            d = fld.default_node
            if d is None or fld.name not in flag_keys:
                continue
            kind = None
            if isinstance(d, ast.Call) and ast.unparse(d.func) in ('attr.Factory', 'Factory') and d.args:
                kind = KINDS.get(ast.unparse(d.args[0]))
            elif isinstance(d, ast.Dict):
                kind = 'dict'
            elif isinstance(d, (ast.List, ast.Tuple)):
                kind = 'list' if isinstance(d, ast.List) else 'tuple'
            elif isinstance(d, ast.Set) or (isinstance(d, ast.Call) and ast.unparse(d.func) in ('set', 'frozenset')):
                kind = 'set'
            n += 1
            if kind is not None and kind != 'set' and fld.converter_node is None:
                report.add(RULE, '%s@default-kind[%s]' % (c.construct, fld.name),
                           '%s.%s defaults to an empty %s, the parser stores the set parse_numeric_flags yields: an object built with the default is '
                           'not equal to its own parse(compose()) (%s != set()) and renders differently' % (
                               c.name, fld.name, kind, {'dict': '{}', 'list': '[]', 'tuple': '()'}[kind]))
    report.count(RULE, n)
    report.floor(RULE, 300, 'field declarations')


def text_bindings(ctx, c, report):
    """R2t: set level binding agreement for classes written in the text DSL."""
    model = ctx.model
    pres = ctx.canon.layout(c, 'parse').result
    cres = ctx.canon.layout(c, 'compose').result
    binds = parse_bindings(pres, c, model)
    attrs_parsed = set()
    for lst in binds.values():
        for attr, _ in lst:
            if isinstance(attr, str):
                attrs_parsed.add(attr)
    attrs_composed = set()
    for n in walk(cres.block):
        if isinstance(n, Op) and n.side == 'compose':
            for v in n.args.values():
                for root, _ in compose_root(v):
                    attrs_composed.add(root)
    for root, _ in compose_root(cres.value):
        attrs_composed.add(root)
    # conditions also read attributes
    from ..trace import Alt
    cond_attrs = set()
    for n in walk(cres.block):
        if isinstance(n, Alt):
            for root, _ in compose_root(n.cond):
                cond_attrs.add(root)
    fields = {f.ctor_name for f in c.attrs_fields() if f.init} if c.has_attrs() else set()
    report.count('C01.R2t', 1, nontrivial=1 if attrs_parsed else 0)
    if not fields or not attrs_parsed or '*' in attrs_composed:
        return
    for a in sorted(attrs_parsed & fields):
        if a not in attrs_composed and a not in cond_attrs:
            report.add('C01.R2t', '%s@attr[%s]' % (c.construct, a),
                       'attribute %s is filled from parsed input but never read by compose' % a)


def tag_of(ctx, cls, names):
    for n in names:
        f = cls.resolve(n)
        if f is not None and not f.abstract:
            return n, ctx.interp.const_call(cls, n)
    return None, None


TAG_METHODS = ('get_handshake_type', 'get_extension_type', 'get_message_code', 'get_op_code', 'get_message_type',
               'get_extension_name', '_get_type')


def exhaustiveness(ctx, report):
    model = ctx.model
    for c in model.repo_classes():
        if not model.is_parsable(c) or c.abstract_methods:
            continue
        p, q = c.resolve('_parse'), c.resolve('compose')
        report.count('C01.R5')
        if p is None or q is None or p.abstract != q.abstract:
            # enum factories are parse-only by design (compose lives on the enum member): abstract compose + concrete _parse
            if c.is_subclass_of('NByteEnumParsable') or c.is_subclass_of('OpaqueEnumParsable'):
                continue
            report.add('C01.R5', c.construct + '@directions', 'class defines only one of _parse/compose concretely')
    # registries
    for c in model.repo_classes():
        if not c.is_subclass_of('VariantParsableBase') or c.abstract_methods or c.resolve('_get_variants') is None:
            continue
        v = ctx.interp.const_call(c, '_get_variants')
        if not isinstance(v, DictV):
            report.undecided.append('%s: variant registry not statically evaluable' % c.name)
            continue
        for tag, lst in v.pairs:
            items = ctx.interp.iter_items(lst) or []
            for item in items:
                report.count('C01.R5')
                if not (isinstance(item, ClassV) and isinstance(item.cls, ClassInfo)):
                    continue
                ic = item.cls
                if ic.abstract_methods or ic.resolve('_parse') is None or ic.resolve('_parse').abstract:
                    report.add('C01.R5', '%s@registry[%s]' % (c.construct, ic.name), 'registered class %s is not concrete' % ic.name)
                    continue
                mname, own = tag_of(ctx, ic, TAG_METHODS)
                if mname is None or isinstance(own, (Sym,)) or own is None:
                    continue
                if type(own) is type(tag) and own != tag and ic.name != 'TlsExtensionUnparsed':
                    report.add('C01.R5', '%s@registry[%s]' % (c.construct, ic.name),
                               'registered under %s but the class reports %s' % (show(tag), show(own)))
    for cname, attr in (('TlsSubprotocolMessageParser', '_SUBPROTOCOL_PARSERS'), ('SslSubprotocolMessageParser', '_SUBPROTOCOL_PARSERS')):
        c = model.cls(cname)
        v = c.resolve_var(attr)
        if v is None:
            report.error('C01.R5: %s.%s vanished' % (cname, attr))
            continue
        d = ctx.interp.eval_var(v)
        if isinstance(d, DictV):
            for tag, item in d.pairs:
                report.count('C01.R5')
                if isinstance(item, ClassV) and isinstance(item.cls, ClassInfo):
                    mname, own = tag_of(ctx, item.cls, ('get_message_type',))
                    if mname and type(own) is type(tag) and own != tag:
                        report.add('C01.R5', '%s@registry[%s]' % (c.construct, item.cls.name),
                                   'registered under %s but the class reports %s' % (show(tag), show(own)))


# ---- R9: equality is defined over the state that reaches the wire ----------------------------------------------------

def composer_added_items(ctx, report, RULE, classes):
    """the same obligation under another property's rule id, for the named classes"""
    from ..compare import compare_class
    for c in classes:
        cmpn = compare_class(c, ctx.canon)
        report.count(RULE)
        for e in cmpn.ccanon.flat:
            if e.kind in ('repeat', 'array') and e.val is not None:
                extra = added_objects(e.val)
                if extra:
                    report.add(RULE, '%s@added-item[%s]' % (c.construct, extra[0].cls.name),
                               'the composer writes the items of %s plus a %s it constructs itself: the composed message holds an item the object '
                               'does not have, parsing it back gives a different object' % (show(_first_splat(e.val))[:60], extra[0].cls.name))


def added_objects(v, depth=0):
    """objects constructed by the composer that sit, as explicit items, in a list value next to the spliced items of an attribute"""
    from ..values import ListV, ObjV, Sym
    out = []
    if depth > 6:
        return out
    if isinstance(v, ListV):
        has_splat = any(isinstance(x, Sym) and x.op == 'splat' for x in v.items)
        for x in v.items:
            if isinstance(x, ObjV) and has_splat:
                out.append(x)
            elif isinstance(x, Sym) and x.op == 'splat':
                out.extend(added_objects(x.args[0], depth + 1))
    elif isinstance(v, Sym) and v.op in ('phi', 'list', 'tuple', 'sorted'):
        for a in v.args:
            out.extend(added_objects(a, depth + 1))
    return out


def _first_splat(v, depth=0):
    from ..values import ListV, Sym
    if depth > 6:
        return v
    if isinstance(v, ListV):
        for x in v.items:
            if isinstance(x, Sym) and x.op == 'splat':
                return _first_splat(x.args[0], depth + 1)
    if isinstance(v, Sym) and v.op in ('phi',):
        for a in v.args:
            r = _first_splat(a, depth + 1)
            if r is not a or not isinstance(a, (ListV,)):
                return r
    if isinstance(v, Sym) and v.op in ('list', 'tuple') and v.args:
        return v.args[0]
    return v


def equality(ctx, report, RULE='C01.R9'):
    """parse(compose(x)) == x needs an __eq__ that looks at x's fields.  For every concrete parsable class: the class that
    provides __eq__ (first in the MRO with an explicit __eq__ or an attrs decoration that generates one), the names it
    compares, and the instance attributes the class chain stores outside that set (plain ``self.x = ...`` in a hand written
    __init__, attr.ib of an undecorated subclass) that the composer reads."""
    import ast
    from ..model import ClassInfo
    model = ctx.model
    report.rule(RULE, 'every parsable class compares by value, over all the state its composer writes')

    def kw_false(k, names):
        for n in names:
            v = k.attrs_kw.get(n)
            if isinstance(v, ast.Constant) and v.value is False:
                return True
        return False

    def self_attrs(node, store=None):
        out = set()
        for n in ast.walk(node):
            if isinstance(n, ast.Attribute) and isinstance(n.value, ast.Name) and n.value.id == 'self':
                if store is None or isinstance(n.ctx, ast.Store) == store:
                    out.add(n.attr)
        return out
    for c in model.concrete_parsables():
        if c.enum_members is not None or c.is_subclass_of('builtins.Exception'):
            continue
        chain = [k for k in c.mro if isinstance(k, ClassInfo) and not k.external]
        report.count(RULE)
        provider, compared = None, None
        for k in chain:
            if '__eq__' in k.methods:
                provider = k
                body = k.resolve('__eq__').node
                txt = ast.unparse(body)
                compared = None if ('__dict__' in txt or '.compose()' in txt or 'attr.astuple' in txt or 'attr.asdict' in txt) else self_attrs(body)
                break
            if k.attrs_decorated and not kw_false(k, ('eq', 'cmp')):
                provider = k
                compared = set()
                for j in [x for x in k.mro if isinstance(x, ClassInfo)]:
                    if j.attrs_decorated:
                        for fld in j.own_fields:
                            eqv = fld.kw.get('eq', fld.kw.get('cmp'))
                            if not (isinstance(eqv, ast.Constant) and eqv.value is False):
                                compared.add(fld.name)
                break
        if provider is None:
            stateless = not any(k.own_fields or '__init__' in k.methods for k in chain)
            if stateless and model.all_subclasses(c):
                # a behaviour-only base / mixin (enum mixins, attrs based field containers): what is instantiated is a subclass,
                # which is examined on its own
                report.sample({'rule': RULE, 'class': c.name, 'verdict': 'stateless base of %d subclasses, examined through them' % len(model.all_subclasses(c))}, 20)
                continue
            report.add(RULE, '%s@equality[none]' % c.construct,
                       'no class in the chain defines __eq__ (no attrs decoration, no explicit method): objects compare by identity, so the object '
                       'parsed from compose(x) is never equal to x')
            continue
        if compared is None:
            continue
        # state outside the compared set
        stored = set()
        for k in chain:
            for mname in ('__init__', '__attrs_post_init__'):
                f = k.methods.get(mname)
                if f is not None:
                    stored |= self_attrs(f.node, store=True)
            stored |= {fld.name for fld in k.own_fields}      # declared fields: those switched off with eq=False are not in `compared`
        comp = c.resolve('compose')
        read = self_attrs(comp.node, store=False) if comp is not None else set()
        for k in chain:
            for mname, f in k.methods.items():
                if mname.startswith('_compose') and f is not None:
                    read |= self_attrs(f.node, store=False)
        norm = lambda n: n.lstrip('_')
        missing = sorted(x for x in stored if norm(x) not in {norm(y) for y in compared} and (x in read or norm(x) in {norm(r) for r in read}))
        for x in missing:
            report.add(RULE, '%s@equality[%s]' % (c.construct, x),
                       'the composer writes self.%s, but the __eq__ in force (%s of %s) does not look at it: two objects that differ '
                       'only there compare equal, so the round trip cannot be told from a lossy one' % (
                           x, 'attrs generated' if '__eq__' not in provider.methods else 'explicit', provider.name))
    report.floor(RULE, 250, 'parsable classes')


# ---- R11: defaults that read the clock ------------------------------------------------------------------------------------

def clock_defaults(ctx, report, RULE='C01.R11'):
    """an attrs default that reads the clock produces an instant with microseconds; the wire carries what the composer writes
    (whole seconds for gmt_unix_time).  Default factory, composer and parser of such a class are evaluated as a pipeline: the
    object the library builds by itself must come back equal"""
    import ast
    from ..miniexec import Evaluator, Native, Obj, Raised, Unsupported, class_call_hook
    model = ctx.model
    report.rule(RULE, 'a default that reads the clock is a value the wire can carry: default -> compose -> parse gives the default back')
    CLOCKS = ('datetime.datetime.utcnow', 'datetime.datetime.now', 'datetime.utcnow', 'datetime.now', 'time.time')
    found = []
    for c in model.all_classes:
        for fld in getattr(c, 'own_fields', []):
            m = getattr(fld, 'default_method', None)
            if m is not None and any(isinstance(n, ast.Call) and ast.unparse(n.func) in CLOCKS for n in ast.walk(m.node)):
                found.append((c, fld, m))

    class Instant(Native):
        def __init__(self, seconds, microsecond=0, tz=None):
            self.seconds, self.microsecond, self.tzinfo = seconds, microsecond, tz

        def utctimetuple(self):
            return ('tuple', self.seconds)

        timetuple = utctimetuple

        def timestamp(self):
            return self.seconds + self.microsecond / 1e6

        def replace(self, **kw):
            if set(kw) - {'microsecond', 'tzinfo'}:
                raise Unsupported('replace(%s)' % sorted(kw))
            return Instant(self.seconds, kw.get('microsecond', self.microsecond), kw.get('tzinfo', self.tzinfo))

        def same(self, other):
            return isinstance(other, Instant) and (self.seconds, self.microsecond) == (other.seconds, other.microsecond)

    class Parser(Native):
        def __init__(self, data):
            self.data, self.parsed_length, self.values = bytes(data), 0, {}

        def parse_numeric(self, name, size, converter=int):
            v = int.from_bytes(self.data[self.parsed_length:self.parsed_length + size], 'big')
            self.parsed_length += size
            self.values[name] = converter(v) if converter is not int else v

        def parse_timestamp(self, name, milliseconds=False, item_size=8):
            v = int.from_bytes(self.data[self.parsed_length:self.parsed_length + item_size], 'big')
            self.parsed_length += item_size
            self.values[name] = Instant(v // 1000, (v % 1000) * 1000) if milliseconds else Instant(v)

        def parse_parsable(self, name, cls_):
            self.values[name] = ('nested', bytes(self.data[self.parsed_length:self.parsed_length + 28]))
            self.parsed_length += 28

        def __getitem__(self, name):
            return self.values[name]

    class Composer(Native):
        def __init__(self):
            self.out = bytearray()

        def compose_numeric(self, value, size):
            self.out += int(value).to_bytes(size, 'big')

        def compose_timestamp(self, value, milliseconds=False, item_size=8):
            v = value.seconds * 1000 + value.microsecond // 1000 if milliseconds else value.seconds
            self.out += int(v).to_bytes(item_size, 'big')

        def compose_parsable(self, value):
            self.out += b'R' * 28

        @property
        def composed_bytes(self):
            return bytearray(self.out)

        composed = composed_bytes
    for c, fld, m in found:
        report.count(RULE)
        report.touch(m)
        fp, fc = c.resolve('_parse'), c.resolve('compose')
        if fp is None or fc is None:
            continue
        made = {}

        def extra(n, ev, c=c, made=made):
            d = ast.unparse(n.func)
            if d in CLOCKS:
                return Instant(1700000000, 654321)
            if d == 'calendar.timegm':
                t = ev.ev(n.args[0])
                return t[1]
            if d == 'ParserBinary':
                return Parser(ev.ev(n.args[0]))
            if d == 'ComposerBinary':
                return Composer()
            if d in (c.name, 'cls'):
                made['args'] = [ev.ev(a) for a in n.args]
                made['kw'] = {k.arg: ev.ev(k.value) for k in n.keywords if k.arg}
                return ('object',)
            return NotImplemented

        def names(name):
            if name in ('datetime.datetime.utcfromtimestamp', 'datetime.datetime.fromtimestamp'):
                return lambda s: Instant(s)
            if name == 'int':
                return int
            raise Unsupported('free name ' + name)
        hook = class_call_hook(c, extra, model)
        nh = hook.name_hook_for(c.module, names)
        try:
            default = Evaluator({'self': Obj()}, hook, nh).function(m.node)
            if not isinstance(default, Instant):
                raise Unsupported('the default is %r' % (default,))
            names_in_order = [f.name for f in c.attrs_fields()]
            me = Obj(**{n: ('nested', b'R' * 28) for n in names_in_order})
            setattr(me, fld.name, default)
            wire = Evaluator({'self': me}, hook, nh).function(fc.node)
            Evaluator({'cls': 'cls', 'parsable': bytes(wire)}, hook, nh).function(fp.node)
            got = made.get('kw', {}).get(fld.name)
            if got is None and names_in_order and fld.name in names_in_order and len(made.get('args', [])) > names_in_order.index(fld.name):
                got = made['args'][names_in_order.index(fld.name)]
            if not isinstance(got, Instant):
                raise Unsupported('the parser builds %r' % (made,))
            if not default.same(got):
                report.add(RULE, '%s@default[%s]' % (c.construct, fld.name),
                           'the default of %s.%s reads the clock with microseconds (%d.%06d); composed and parsed it comes back as %d.%06d: an object built '
                           'with defaults is not equal to its own round trip' % (c.name, fld.name, default.seconds, default.microsecond, got.seconds, got.microsecond))
            else:
                report.sample({'rule': RULE, 'class': c.name, 'field': fld.name, 'verdict': 'default survives compose / parse'})
        except (Unsupported, Raised) as e:
            report.add(RULE, '%s@default[%s]' % (c.construct, fld.name), 'default / compose / parse of %s left the subset the evaluation understands: %s' % (c.name, e))
    report.floor(RULE, 1, 'defaults that read the clock')


# ---- R12: optional parts keyed on a flag -----------------------------------------------------------------------------------

def flag_keyed_optionals(ctx, report, RULE='C01.R12', only=None):
    """an optional part of a message that one side reads / writes when a flag (an enum member in a flag set field) is set has to
    be keyed on the same flag on the other side.  A side that keys it on something else (the presence of the value itself)
    composes objects the parser cannot read - the value is set, the flag is not - and reads messages into objects that differ
    from what was composed - the flag is set, the value is absent."""
    from ..core import representatives
    from ..model import EnumMember
    from ..values import FieldV, SelfV, Sym, show
    report.rule(RULE, 'an optional part keyed on a flag by one side is keyed on the same flag by the other side')

    def members(v, out):
        if isinstance(v, Sym):
            for a in v.args:
                members(a, out)
        elif isinstance(v, (FieldV, SelfV)):
            out.append(v)

    def flag_sig(v):
        """(enum member, negated) for ``MEMBER in <expression over one flag set field>`` / its negation, else None"""
        neg = False
        while isinstance(v, Sym) and v.op == 'not':
            v, neg = v.args[0], not neg
        if isinstance(v, Sym) and v.op == 'cmp' and v.args[0] in ('in', 'not in') and isinstance(v.args[1], EnumMember):
            if v.args[0] == 'not in':
                neg = not neg
            return ('%s.%s' % (v.args[1].cls.name, v.args[1].name), neg)
        return None
    for c in representatives(ctx, '_parse'):
        if only is not None and c.name not in only:
            continue
        try:
            pe, ce = ctx.canon.canon(c, 'parse').elements, ctx.canon.canon(c, 'compose').elements
        except Exception:      # pylint: disable=broad-except
            continue
        def optional_parts(els):
            # an optional group and its elements made optional one by one under the same condition are the same bytes
            out = []
            for e in els:
                if e.kind == 'alt' and not e.b and len(e.a) > 1:
                    out.extend((e.val, x) for x in e.a)
                elif e.kind == 'alt':
                    out.append((e.val, (e.a or e.b or [e])[0]))
                else:
                    out.append((None, e))
            return out
        def flags_keyed(els, out):
            for e in els:
                if e.kind == 'alt':
                    sg = flag_sig(e.val) if e.val is not None else None
                    if sg is not None:
                        out.append((sg[0], e))
                    flags_keyed(e.a or [], out)
                    flags_keyed(e.b or [], out)
            return out
        raw_p, raw_c = pe, ce
        pe, ce = optional_parts(pe), optional_parts(ce)
        if len(pe) != len(ce):
            # the two sides group their elements differently (a reviewed shape difference): compared by the flags that key a part at
            # all - a flag one side branches on and the other does not
            fp, fc = flags_keyed(raw_p, []), flags_keyed(raw_c, [])
            if fp or fc:
                report.count(RULE)
            for mine, other, who, whom in ((fp, fc, 'parser', 'composer'), (fc, fp, 'composer', 'parser')):
                for flag, e in mine:
                    if flag not in {x for x, _ in other}:
                        report.add(RULE, '%s@optional[%s]' % (c.construct, flag.split('.')[-1]),
                                   'the %s chooses the layout `%s` by the flag %s, the %s by something else (%s): an object (or a message) on which the two '
                                   'conditions differ does not survive the round trip' % (who, e.sig()[:60], flag, whom, '; '.join(sorted({show(x.val)[:50] for _, x in other} | {show(x.val)[:50] for x in (raw_c if who == 'parser' else raw_p) if x.kind == 'alt' and x.val is not None})) or 'nothing'))
            continue
        for i, ((ca, a), (cb, b)) in enumerate(zip(pe, ce)):
            if ca is None or cb is None:
                continue
            sa_, sb_ = flag_sig(ca), flag_sig(cb)
            if sa_ is None and sb_ is None:
                continue
            report.count(RULE)
            if sa_ == sb_:
                continue
            what = a
            name = getattr(what, 'key', None) or what.sig()
            report.add(RULE, '%s@optional[%s]' % (c.construct, name),
                       'the parser reads %s when `%s`, the composer writes it when `%s`: an object (or a message) on which the two conditions differ '
                       'does not survive the round trip' % (name, show(ca)[:90], show(cb)[:90]))
    report.floor(RULE, 2 if only is None else 1, 'flag keyed optional parts')


# ---- R13: truth values ------------------------------------------------------------------------------------------------------

def truth_valued_fields(ctx, report, RULE='C01.R13'):
    """a wire octet the parser reads as a truth value (``parse_numeric(..., bool)``) comes back as True / False.  A field that
    admits any integer (``instance_of(integer_types)``, no converter) holds 2 as happily as 1: composed as 01, read back as True,
    the object differs from its round trip, and its report says ``2`` (or ``0``) where the parsed one says ``true`` (``false``)."""
    from ..core import representatives
    from .c02 import field_source, find_objs
    from ..values import DictV, ParserV, show
    report.rule(RULE, 'a field the parser fills with a truth value admits truth values only (bool converter or validator)')
    for c in representatives(ctx, '_parse'):
        res = ctx.canon.layout(c, 'parse').result
        # instances are the reads (a read that reaches no field is C01.R2's finding, not a vanished anchor of this rule)
        for n_ in walk(res.block):
            if isinstance(n_, Op) and n_.prim == 'parse_numeric' and n_.args.get('converter') is not None and 'bool' in show(n_.args.get('converter')):
                report.count(RULE)
        objs = []
        find_objs(res.value, objs)
        for o in objs:
            k = o.cls
            if not k.has_attrs():
                continue
            given = list((o.ctor_args or {}).items())
            for st in o.star:
                # cls(**parser) / cls(**dict(parser)): every key of the parser is an argument
                ps = [st] if isinstance(st, ParserV) else ([x for x in st.star if isinstance(x, ParserV)] if isinstance(st, DictV) else [])
                for p in ps:
                    given.extend((key, fv) for key, fv in p.keys.items() if key not in p.deleted)
            for pname, pv in given:
                fld = k.field(pname)
                src = field_source(pv)
                if fld is None or src is None or src.op.prim != 'parse_numeric':
                    continue
                conv = src.op.args.get('converter')
                if conv is None or 'bool' not in show(conv):
                    continue
                fconv = ast.unparse(fld.converter_node) if fld.converter_node is not None else ''
                fval = ast.unparse(fld.validator_node) if fld.validator_node is not None else ''
                if fconv == 'bool' or ('instance_of(bool)' in fval and 'integer_types' not in fval):
                    continue
                report.add(RULE, '%s@truth-value[%s]' % (k.construct, fld.name),
                           '%s.%s is read from the wire as a truth value but admits %s: an object built with 2 is composed as 01 and read back as True (not equal), and '
                           'an object built with 0 is reported as 0 where its round trip is reported as false' % (k.name, fld.name, fval or 'anything'))
    report.floor(RULE, 1, 'truth valued wire fields')


# ---- R14: presence of a number --------------------------------------------------------------------------------------------------

def number_presence_by_truth_value(ctx, report, RULE='C01.R14'):
    """``if self.remote_session_id:`` asks two questions at once when the field holds a number: is there a value, and is it non-zero.
    A composer that decides by the truth value whether to write a numeric field (or what follows it) drops the legal value 0 - the
    parser, which reads whatever is on the wire, gives back another message.  Composer side functions may test numbers for
    presence with ``is None`` / ``is not None`` only."""
    model = ctx.model
    report.rule(RULE, 'composers test the presence of a numeric field with `is None`, never by its truth value (0 is a value)')
    n_fields = 0
    for c in model.all_classes:
        if not hasattr(c, 'attrs_fields') or not c.has_attrs():
            continue
        numeric = {}
        for fld in c.attrs_fields():
            val = ast.unparse(fld.validator_node) if fld.validator_node is not None else ''
            if 'deep_iterable' in val:
                continue        # a sequence of numbers: empty means empty
            if 'integer_types' in val or 'instance_of(int)' in val or 'instance_of(float)' in val or 'instance_of((int' in val:
                numeric[fld.name] = fld
        if not numeric:
            continue
        n_fields += len(numeric)
        for name, f in c.methods.items():
            if not (name == 'compose' or name.startswith('_compose') or name.startswith('compose_')):
                continue
            report.count(RULE)
            tests = []
            for n in ast.walk(f.node):
                if isinstance(n, (ast.If, ast.IfExp, ast.While)):
                    tests.append(n.test)
                elif isinstance(n, ast.BoolOp):
                    tests.extend(n.values[:-1] if isinstance(n.op, ast.And) else n.values)
            for t in tests:
                parts = t.values if isinstance(t, ast.BoolOp) else [t]
                for p in parts:
                    while isinstance(p, ast.UnaryOp) and isinstance(p.op, ast.Not):
                        p = p.operand
                    if isinstance(p, ast.Attribute) and isinstance(p.value, ast.Name) and p.value.id == 'self' and p.attr in numeric:
                        report.add(RULE, '%s@truth-value[%s]' % (f.construct, p.attr),
                                   '%s decides by the truth value of self.%s, a numeric field (%s): the value 0 is treated as "absent", so a message holding it is '
                                   'composed as another message than the parser reads back' % (f.qualname, p.attr, ast.unparse(numeric[p.attr].validator_node)[:70]))
    report.floor(RULE, 15, 'composer functions of classes with numeric fields')


def variant_siblings_reachable(ctx, report, RULE='C01.R21'):
    """A variant parser hands the input to its member classes in turn and moves on only when a member says "not my type"
    (InvalidType).  A member that opens with ``if len(parsable) < cls.SIZE: raise NotEnoughData`` answers *before* it looked at the
    type: a complete message of a sibling that is shorter than SIZE never reaches its own class - the variant raises
    NotEnoughData for bytes that compose(parse) would have to give back.  For every table of every concrete variant class: the
    largest constant a member demands up front (pre-checks on the path of its _parse, found as in C04.R4 but whatever the
    constant is called) must not exceed the shortest encoding (layout minimum) of any other member of the table."""
    from ..canon import min_size
    from ..linform import guard_deficit, single_defs
    from ..trace import walk
    model = ctx.model
    report.rule(RULE, 'variant tables: the bytes a member demands before it looks at the type do not exceed the shortest message of a sibling')
    demand_memo, size_memo = {}, {}

    def demand(c):
        if c.name in demand_memo:
            return demand_memo[c.name]
        best = None
        f = c.resolve('_parse')
        try:
            res = ctx.canon.layout(c, 'parse').result
            reached = {id(getattr(n, 'func', None)) for n in walk(res.block)}
        except Exception:      # pylint: disable=broad-except
            reached = set()
        for owner in c.mro:
            if not isinstance(owner, ClassInfo):
                continue
            for g in owner.methods.values():
                if g is not f and id(g) not in reached:
                    continue
                defs = single_defs(g.node)
                for n in ast.walk(g.node):
                    if isinstance(n, ast.If) and any(isinstance(x, ast.Raise) and x.exc is not None and 'NotEnoughData' in ast.unparse(x.exc) for x in n.body):
                        gd = guard_deficit(n.test, {}, defs)
                        if gd is None:
                            continue
                        d = gd[0]
                        plus = [k for k, v in d.terms.items() if v == 1]
                        minus = [k for k, v in d.terms.items() if v == -1]
                        if d.const == 0 and len(d.terms) == 2 and minus == ['len(parsable)'] and len(plus) == 1 and plus[0].split('.')[0] in ('cls', 'self'):
                            v = c.resolve_var(plus[0].split('.')[-1])
                            node = getattr(v, 'node', None)
                            val = None
                            if isinstance(node, ast.Constant) and isinstance(node.value, int):
                                val = node.value
                            elif isinstance(node, ast.AST):
                                try:
                                    from ..miniexec import Evaluator, class_call_hook
                                    h = class_call_hook(c, None, model)
                                    ev = Evaluator({}, h, h.name_hook_for(c.module, None))
                                    ev.class_scope, ev.class_scope_node = getattr(v, 'cls', None) or c, node
                                    got = ev.ev(node)
                                    val = got if isinstance(got, int) and not isinstance(got, bool) else None
                                except Exception:      # pylint: disable=broad-except
                                    val = None
                            if val is not None and (best is None or val > best[0]):
                                best = (val, plus[0].split('.')[-1], g)
        demand_memo[c.name] = best
        return best

    def shortest(c):
        if c.name not in size_memo:
            try:
                cn = ctx.canon.canon(c, 'parse')
                size_memo[c.name] = min_size(cn.elements, ctx.canon) if cn is not None and cn.elements else None
            except Exception:      # pylint: disable=broad-except
                size_memo[c.name] = None
        return size_memo[c.name]
    tables = 0
    for c in model.repo_classes():
        if not c.is_subclass_of('VariantParsableBase') or c.abstract_methods or c.resolve('_get_variants') is None:
            continue
        v = ctx.interp.const_call(c, '_get_variants')
        if not isinstance(v, DictV):
            continue
        members = []
        for _tag, lst in v.pairs:
            for item in ctx.interp.iter_items(lst) or []:
                if isinstance(item, ClassV) and isinstance(item.cls, ClassInfo) and item.cls not in members and item.cls.resolve('_parse') is not None:
                    members.append(item.cls)
        if len(members) < 2:
            continue
        tables += 1
        for m in members:
            d = demand(m)
            if d is None:
                continue
            report.count(RULE)
            for s_ in members:
                if s_ is m:
                    continue
                ms = shortest(s_)
                if ms is not None and 0 < ms < d[0]:
                    report.add(RULE, '%s@demands[%s>%s]' % (m.construct, d[1], s_.name),
                               '%s demands %d bytes (%s) before it looks at the message type; a complete %s has %d: handed to %s it is answered '
                               'with NotEnoughData by %s and never reaches its own class' % (m.name, d[0], d[1], s_.name, ms, c.name, m.name))
                    break
    report.sample({'rule': RULE, 'variant_tables': tables})
    report.floor(RULE, 10, 'members of variant tables with a size pre-check')


def guards_admit_smallest(ctx, report, RULE='C01.R22', only=None, floor=10):
    """A length field counts what follows it: ``field = const + size(data)`` (the link of C01.R1: const is what always follows, data
    the part that may be empty).  The composer writes ``const`` for empty data.  A parser that refuses ``field < k`` with k above
    const refuses what its own composer writes for the smallest object (a COTP connection request without user data has the
    length indicator 6; ``< HEADER_SIZE`` instead of ``< HEADER_SIZE - 1`` refuses it).  For every byte-counted link whose
    variable part can be empty (raw / text data), the lower-bound guards on the field that precede its use (read as in C03.R4)
    must not exceed the constant part."""
    from ..canon import fixed_size
    from ..compare import compare_class, leaves
    from .c03 import lower_bounds
    report.rule(RULE, 'length fields: the lower bound the parser puts on the field admits the value the composer writes for empty data')
    n = 0
    for c in ctx.model.concrete_parsables():
        if only is not None and c.module.name not in only:
            continue
        if classify(ctx, c) not in ('binary', 'mixed'):
            continue
        try:
            cm = compare_class(c, ctx.canon)
            lay = ctx.canon.layout(c, 'parse')
        except Exception:      # pylint: disable=broad-except
            continue
        linked = [(a, b) for a, b in cm.pairs if a.kind == 'u' and getattr(a, 'link', None) is not None and isinstance(a.key, str)]
        if not linked:
            continue
        lbs = lower_bounds(lay.items, object())
        for a, _b in linked:
            unit, const, targets = a.link
            if unit != 'bytes' or not isinstance(const, int):
                continue
            tops = []
            for t in targets:
                tops.extend(leaves(t, cm.expanded))
            k, variable = const, []
            for e in tops:
                fs = fixed_size(e, ctx.canon) if not getattr(e, 'conditional', False) else None
                if fs is not None:
                    k += fs
                else:
                    variable.append(e)
            if not variable or not all(e.kind in ('raw', 'text') for e in variable):
                continue        # the variable part has a minimum of its own (a nested structure, a counted array): not decided here
            n += 1
            report.count(RULE)
            g = lbs.get(a.key)
            if isinstance(g, int) and g > k:
                report.add(RULE, '%s@floor[%s]' % (c.construct, a.key),
                           'the parser refuses %s below %d, the field counts %d fixed octets plus data that may be empty: the %d the composer writes '
                           'for an object without data is refused by the parser of the same class' % (a.key, g, k, k))
            else:
                report.sample({'rule': RULE, 'class': c.name, 'field': a.key, 'fixed_part': k, 'guard': g}, 12)
    report.floor(RULE, floor, 'byte counted length fields over data that may be empty')
