"""C16 -- HASSH and SSH host-key fingerprints equal their definitions over wire bytes (structure)."""
from __future__ import annotations

import ast
import json
import os

from ..model import ClassInfo

META = {
    'explanation': (
        'Structure of the fingerprint computations against sa/specs/fingerprints.json. R1 hassh/hassh_server read, in this '
        'order, kex, encryption, MAC and compression lists of the right direction; lists are joined with ";" and names with '
        '","; names are rendered as the wire string (plain str or .value.code); MD5; lower-case hex. R2 fingerprints are '
        '[(SHA-256,"SHA256"),(SHA-1,"SHA1"),(MD5,"MD5")] over key_bytes, MD5 as colon separated hex pairs, the others as '
        'standard base64, prefixed with the hash name and ":"; known_hosts is the base64 of key_bytes. R3 exhaustiveness: '
        'every concrete host key / certificate class defines key_bytes as its own compose() (X.509 classes: the DER of the '
        'certificate). Byte exactness of that compose() is C07.'
        ' R1 is decided by tabulation: the statements of _hassh are evaluated over name-list shapes (empty lists in every position, known and unknown names) and compared with MD5(\';\'.join(\',\'.join(names))). R4: the composer layout of every key / certificate class equals the specified blob. R5: the name-list scanner evaluated from its own statements (lists with an empty name must be refused). R6: validity timestamps (C11.R5). R7: nested key blobs are consumed completely. R8: the SEC1 point of ECDSA keys keeps the field width for coordinates with leading zero octets (C07.R12).'),
    'assumptions': ['hashlib / cryptodatahub hash_bytes implement the named digests'],
    'trusted_base': ['python ast', 'sa/specs/fingerprints.json'],
    'exhaustive': True,
}

META['explanation'] += ' ' + 'R9: structures of keys and certificates are composed as held (order of items, no substituted constants). R10: KEXINIT positions are parsed into the attributes the composer writes there.'

META['explanation'] += ' ' + 'R9 also: a length prefix is derived from the composed body.'
META['explanation'] += ' ' + 'R12: no de-duplication on the way to HASSH / fingerprints (shared with C10.R16).'
HERE = os.path.dirname(os.path.dirname(os.path.abspath(__file__)))


def self_attr_list(node):
    """[attr, ...] for a list literal of self.<attr> elements"""
    if isinstance(node, (ast.List, ast.Tuple)):
        out = []
        for e in node.elts:
            if isinstance(e, ast.Attribute) and isinstance(e.value, ast.Name) and e.value.id == 'self':
                out.append(e.attr)
            else:
                return None
        return out
    return None


def lists_by_evaluation(ctx, kex, f):
    """the attributes whose values reach ``_hassh`` when the property is evaluated (sa.miniexec) on a message whose every name-list
    attribute holds its own name: helper methods, name tables and getattr make no difference.  None when not evaluable"""
    from ..miniexec import Evaluator, Native, Raised, Unsupported, class_call_hook
    seen = []

    def extra(node, ev):
        if isinstance(node.func, ast.Attribute) and node.func.attr == '_hassh' and node.args:
            seen.append(list(ev.ev(node.args[0])))
            return 'digest'
        return NotImplemented

    class Message(Native):
        _repo_class = kex
    me = Message()
    for fld in kex.attrs_fields():
        setattr(me, fld.name, fld.name)
    hook = class_call_hook(kex, extra, ctx.model)
    try:
        Evaluator({'self': me}, hook, hook.name_hook_for(f.module, None)).function(f.node)
    except (Unsupported, Raised, AttributeError, TypeError, KeyError, IndexError, ValueError):
        return None
    if len(seen) != 1 or not all(isinstance(x, str) for x in seen[0]):
        return None
    return seen[0]


def check(ctx, report):
    # HASSH and fingerprints are taken over every name / item the message holds, repeated ones included; rule shared with C10.R16
    from .c10 import no_item_collapse
    no_item_collapse(ctx, report, RULE='C16.R12', only=lambda f: f.module.relpath.startswith(('cryptoparser/ssh/', 'cryptoparser/common/')),
                     title='HASSH, fingerprints and known_hosts lines are built from every item of the stored lists: no de-duplication on the way')
    model = ctx.model
    with open(os.path.join(HERE, 'specs', 'fingerprints.json')) as f:
        spec = json.load(f)
    report.rule('C16.R1', 'hassh / hassh_server: list order, joins, name rendering, MD5 lower-case hex')
    report.rule('C16.R2', 'fingerprints: digests, labels, renderings; known_hosts = base64(key_bytes)')
    report.rule('C16.R3', 'every host key / certificate class: key_bytes is its own compose()')
    kex = model.cls('SshKeyExchangeInit')
    hs = spec['hassh']
    for prop, want in (('hassh', hs['client']), ('hassh_server', hs['server'])):
        f = kex.methods.get(prop)
        report.count('C16.R1')
        if f is None:
            report.error('C16.R1: SshKeyExchangeInit.%s vanished' % prop)
            continue
        report.touch(f)
        got = lists_by_evaluation(ctx, kex, f)
        if got is None:
            calls = [n for n in ast.walk(f.node) if isinstance(n, ast.Call) and isinstance(n.func, ast.Attribute) and n.func.attr == '_hassh']
            got = self_attr_list(calls[0].args[0]) if calls and calls[0].args else None
        if got is None:
            report.add('C16.R1', f.construct + '@lists', 'cannot read the list of algorithm vectors handed to _hassh')
        elif got != want:
            report.add('C16.R1', f.construct + '@lists', 'reads %s, the definition says %s' % (got, want))
        else:
            report.sample({'rule': 'C16.R1', 'property': prop, 'lists': got})
    h = kex.methods.get('_hassh')
    if h is None:
        report.error('C16.R1: SshKeyExchangeInit._hassh vanished')
    else:
        report.touch(h)
        hassh_tabulation(report, h, hs, ctx.thorough)
        hex_rendering(ctx, report)
    # ---- R2
    pk = model.cls('SshPublicKeyBase')
    fp = pk.methods.get('fingerprints')
    fr = pk.methods.get('_fingerprint')
    hk = pk.methods.get('host_key_asdict')
    if fp is None or fr is None or hk is None:
        report.error('C16.R2: SshPublicKeyBase.fingerprints/_fingerprint/host_key_asdict vanished')
        return
    for x in (fp, fr, hk):
        report.touch(x)
    fingerprint_tabulation(ctx, report, pk, fp, fr, hk, spec['fingerprints'])
    # ---- R5: the name-lists that are hashed are the wire name-lists (scanner of the text list machinery, shared with C07.R8)
    report.rule('C16.R5', 'name-lists fed to hassh: split at commas, order kept, unknown names preserved one by one')
    from ..textlists import string_array_table
    string_array_table(ctx, report, 'C16.R5', 'ssh')
    # ---- R6: the blob that is hashed is composed from the parsed fields: a certificate validity bound that is read as another value
    # than the one on the wire (or as "forever") is hashed as other bytes than the peer sent (timestamp tabulation shared with C11.R5)
    from .c11 import flags_and_timestamps
    report.rule('C16.R6', 'certificate validity bounds survive parse / compose: every wire value that is accepted is written back as it was')
    flags_and_timestamps(ctx, report, R4='C16.R6', R5='C16.R6')
    # ---- R8: the ECDSA point inside the blob (shared with C07.R12): coordinates with leading zero octets keep their width
    from .c07 import ecdsa_points
    ecdsa_points(ctx, report, RULE='C16.R8')
    # ---- R7: the key object that is fingerprinted stands for the *whole* blob that was on the wire: a nested parse of the key whose
    # reported length is dropped accepts a key followed by other bytes, and the digest is then taken over a shorter blob than the peer
    # sent (rule shared with C03.R6, on the SSH modules)
    from .c03 import nested_lengths
    nested_lengths(ctx, report, RULE='C16.R7', scope='cryptoparser/ssh/')
    # ---- R9: the blob that is hashed is the blob that was parsed only when every structure of the key module writes what it holds as
    # it holds it: sequences in stored (= wire) order, attributes themselves and no constant in their place (shared with C07.R13)
    from .c11 import fields_written_as_stored
    fields_written_as_stored(ctx, report, RULE='C16.R9', kinds=None, what=('in place of attribute', 'items in wire order'), links=True,
                             modules={'cryptoparser.ssh.key'},
                             title='structures of host keys and certificates are composed as held: items in stored order, no constant in place of an attribute')
    report.floor('C16.R9', 100, 'fields of host key / certificate structures')
    # ---- R11: the strings inside a key or certificate reach the object as they were on the wire (rule shared with C11.R12)
    from .c11 import octets_unchanged
    octets_unchanged(ctx, report, RULE='C16.R11', classes=('ParserBase', 'ParserBinary', 'ComposerBase', 'ComposerBinary'),
                     title='length-prefixed strings of keys and certificates are decoded and written unchanged (no strip / case mapping / replace in the primitives)')
    # ---- R10: hassh reads the name-lists from the attributes of the message: every list of the KEXINIT is parsed into the attribute
    # the composer writes at that position (binding comparison shared with C01.R2)
    fields_written_as_stored(ctx, report, RULE='C16.R10', kinds=None, what=('',), modules={'cryptoparser.ssh.subprotocol'},
                             title='KEXINIT and the other SSH messages: every wire position is parsed into the attribute the composer writes there')
    report.floor('C16.R10', 40, 'fields of SSH messages')
    # ---- R4: the blob that is hashed is the RFC 4253 / PROTOCOL.certkeys encoding (layout comparison shared with C07.R1)
    report.rule('C16.R4', 'composer of every host key / certificate class equals the specified key blob layout')
    from .. import speccheck
    with open(os.path.join(HERE, 'reviewed.json')) as fh:
        rev7 = json.load(fh).get('C07', {})
    speccheck.run(ctx, report, 'C16', 'ssh.json', (), rev7, only=lambda k: k.is_subclass_of(pk), sides=('compose',),
                  rules=('C16.R4', None, None))
    # ---- R3
    n3 = 0
    for c in model.repo_classes():
        if not c.is_subclass_of(pk) or c.abstract_methods or not model.is_parsable(c):
            continue
        kb = c.resolve('key_bytes')
        report.count('C16.R3')
        n3 += 1
        if kb is None or kb.abstract:
            report.add('C16.R3', c.construct + '@key_bytes', 'no concrete key_bytes')
            continue
        from ..astutil import returned
        rets = [ast.unparse(v) for v in returned(kb.node)]
        x509 = c.name.startswith('SshX509')
        ok = rets == ['self.compose()'] or (x509 and len(rets) == 1 and (rets[0].endswith('.der') or rets[0].endswith('.key_bytes')))
        if not ok:
            report.add('C16.R3', c.construct + '@key_bytes', 'key_bytes returns %s instead of the composed public key blob' % rets)
    if n3 < 10:
        report.error('C16.R3: only %d host key classes found' % n3)


def hassh_tabulation(report, h, hs, thorough=False):
    """_hassh evaluated statement by statement (sa.miniexec) over name-list shapes -- empty lists in every position,
    single names, known (enum member, rendered through .value.code) and unknown (plain string) names mixed -- and
    compared with the definition: MD5 over the lists joined by ';', names joined by ',', lower-case hex"""
    import hashlib
    import itertools
    from ..miniexec import Evaluator, Obj, Unsupported

    def known(name):
        return Obj(value=Obj(code=name), name=name.upper().replace('-', '_'))
    pools = [[], ['a'], [known('curve25519-sha256')], ['zeta', known('alpha'), 'mid@example.com'], [known('x'), known('y')]]
    fed = {}

    def hook(n, ev):
        d = ast.unparse(n.func)
        if d == 'isinstance':
            v = ev.ev(n.args[0])
            kind = ast.unparse(n.args[1])
            if 'string_types' in kind or kind in ('str', 'six.text_type'):
                return isinstance(v, str)
            raise Unsupported('isinstance against %s' % kind)
        if d == 'hashlib.md5':
            data = [ev.ev(a) for a in n.args]
            fed['data'] = b''.join(data)
            return Obj(update=lambda x: fed.__setitem__('data', fed.get('data', b'') + bytes(x)),
                       digest=lambda: ('digest', fed.get('data', b'')), hexdigest=lambda: hashlib.md5(fed.get('data', b'')).hexdigest())
        if d in ('six.ensure_binary', 'six.b'):
            v = ev.ev(n.args[0])
            return v.encode(ev.ev(n.args[1]) if len(n.args) > 1 else 'ascii') if isinstance(v, str) else v
        if d == 'bytes_to_hex_string':
            v = ev.ev(n.args[0])
            kw = {k.arg: ev.ev(k.value) for k in n.keywords}
            if not (isinstance(v, tuple) and v[0] == 'digest'):
                raise Unsupported('hex of something that is not the digest')
            sep = kw.get('separator', '')
            hx = hashlib.md5(v[1]).hexdigest()
            hx = sep.join(hx[i:i + 2] for i in range(0, len(hx), 2))
            return hx if kw.get('lowercase') else hx.upper()
        return NotImplemented
    params = [a.arg for a in h.node.args.args if a.arg not in ('self', 'cls')]
    n = 0
    # helper methods of the class (a per-name or per-list helper) are evaluated from their own statements
    from ..miniexec import class_call_hook
    chook = class_call_hook(h.cls, hook, None)
    cnames = chook.name_hook_for(h.module, None)
    try:
        for combo in itertools.product(range(len(pools)), repeat=4):
            if not thorough and n >= 200 and 0 not in combo:
                continue
            n += 1
            report.count('C16.R1')
            vectors = [pools[i] for i in combo]
            fed.clear()
            ev = Evaluator({params[0]: vectors}, chook, cnames)
            got = ev.function(h.node)
            text = hs['list_separator'].join(hs['item_separator'].join(x if isinstance(x, str) else x.value.code for x in v) for v in vectors)
            want = hashlib.md5(text.encode('ascii')).hexdigest()
            if got != want:
                shape = '/'.join(str(len(v)) for v in vectors)
                hashed = fed.get('data', b'').decode('ascii', 'replace')
                report.add('C16.R1', h.construct + '@text[%s]' % ('empty-list' if 0 in combo else 'lists'),
                           'name-lists of sizes %s: the digest is taken over %r, the definition hashes %r (result %r)' % (shape, hashed[:60], text[:60], got))
                return
    except Unsupported as e:
        report.add('C16.R1', h.construct + '@tabulation', '_hassh left the subset the tabulation understands: %s' % e)
        return
    report.sample({'rule': 'C16.R1', 'tabulated_shapes': n, 'pools': 'empty, one unknown, one known, mixed, two known -- in every one of the four positions'})


def fingerprint_tabulation(ctx, report, pk, fp, fr, hk, spec):
    """``fingerprints``, ``_fingerprint`` and the known_hosts line of ``host_key_asdict`` evaluated (sa.miniexec) on sample key
    blobs and compared with the OpenSSH renderings: 'SHA256:' / 'SHA1:' + standard base64 of the digest, 'MD5:' + colon
    separated lower-case hex pairs, known_hosts = base64(blob); digests and codecs are the rule's own (hashlib, base64)"""
    import base64
    import binascii
    import collections
    import hashlib
    import textwrap
    from ..miniexec import Evaluator, Native, Obj, Raised, Unsupported, class_call_hook
    HASH = {'SHA2_256': hashlib.sha256, 'SHA1': hashlib.sha1, 'MD5': hashlib.md5}
    tokens = {k: Obj(name=k) for k in HASH}

    def extra(n, ev):
        d = ast.unparse(n.func)
        if d == 'hash_bytes':
            t, data = ev.ev(n.args[0]), ev.ev(n.args[1])
            if not isinstance(t, Obj) or t.name not in HASH:
                raise Unsupported('hash_bytes with an unknown algorithm')
            return HASH[t.name](bytes(data)).digest()
        if d == 'binascii.hexlify':
            return binascii.hexlify(ev.ev(n.args[0]))
        if d == 'textwrap.wrap':
            return textwrap.wrap(*[ev.ev(a) for a in n.args])
        if d in ('base64.b64encode', 'base64.standard_b64encode', 'base64.urlsafe_b64encode'):
            return getattr(base64, d.split('.')[1])(ev.ev(n.args[0]))
        if d in ('six.ensure_text', 'six.ensure_str'):
            v = ev.ev(n.args[0])
            return v.decode('ascii') if isinstance(v, (bytes, bytearray)) else v
        if d in ('OrderedDict', 'collections.OrderedDict'):
            return collections.OrderedDict(*[ev.ev(a) for a in n.args])
        return NotImplemented

    def names(name):
        if name.startswith('Hash.') and name.split('.', 1)[1] in tokens:
            return tokens[name.split('.', 1)[1]]
        raise Unsupported('free name %s' % name)
    hook = class_call_hook(pk, extra, ctx.model)
    names = hook.name_hook_for(pk.module, names)
    try:
        for blob in (b'\x00\x00\x00\x0bssh-ed25519\x00\x00\x00\x20' + bytes(range(32)), b'\x00\x00\x00\x07ssh-rsa' + b'\x01' * 270, b''):
            report.count('C16.R2')
            me = Obj(key_bytes=blob)
            got = Evaluator({'self': me}, hook, names).ev(ast.parse('f()', mode='eval').body) if False else None
            ev = Evaluator({'self': me}, hook, names)
            got = ev.function(fp.node)
            want = collections.OrderedDict()
            for hname, label in spec['order']:
                digest = HASH[hname](blob).digest()
                if hname == 'MD5':
                    text = ':'.join(textwrap.wrap(binascii.hexlify(digest).decode('ascii'), 2))
                else:
                    text = base64.b64encode(digest).decode('ascii')
                want[tokens[hname]] = '%s:%s' % (label, text)
            if not isinstance(got, dict) or [(getattr(k, 'name', k), v) for k, v in got.items()] != [(k.name, v) for k, v in want.items()]:
                shown = [(getattr(k, 'name', k), v[:30]) for k, v in got.items()] if isinstance(got, dict) else got
                report.add('C16.R2', fp.construct + '@rendering', 'fingerprints of a %d byte blob are %s..., the definition gives %s...' % (
                    len(blob), shown, [(k.name, v[:30]) for k, v in want.items()]))
                break
    except (Unsupported, Raised) as e:
        report.add('C16.R2', fp.construct + '@tabulation', 'the fingerprint code left the subset the tabulation understands: %s' % e)
    report.count('C16.R2')
    # the known_hosts entry: host_key_asdict evaluated on a model key (helpers and properties of the class are followed)
    decided = False
    try:
        for blob in (b'\x00\x00\x00\x0bssh-ed25519\x00\x00\x00\x20' + bytes(range(32)), b'\x00\x00\x00\x07ssh-rsa' + b'\xfb\xff' * 135):
            me = Obj(key_bytes=blob, host_key_algorithm=Obj(value=Obj(key_type=Obj(value='host key'))),
                     public_key=Obj(_asdict=lambda: collections.OrderedDict([('key_size', 256)])))
            me._repo_class = pk
            got = Evaluator({'self': me}, hook, names).function(hk.node)
            if not isinstance(got, dict) or 'known_hosts' not in got:
                raise Unsupported('host_key_asdict gives no known_hosts entry')
            decided = True
            if got['known_hosts'] != base64.b64encode(blob).decode('ascii'):
                report.add('C16.R2', hk.construct + '@known_hosts', 'known_hosts of a %d byte blob is %r..., base64(key_bytes) is %r...' % (
                    len(blob), str(got['known_hosts'])[:24], base64.b64encode(blob).decode('ascii')[:24]))
                break
    except (Unsupported, Raised, AttributeError, TypeError):
        decided = False
    if not decided:
        src = ast.unparse(hk.node)
        if 'base64.b64encode(self.key_bytes)' not in src.replace('standard_b64encode', 'b64encode'):
            report.add('C16.R2', hk.construct + '@known_hosts', 'known_hosts is not base64(key_bytes)')
    report.sample({'rule': 'C16.R2', 'known_hosts': 'evaluated' if decided else 'read from the source'})


def hex_rendering(ctx, report, rule='C16.R1'):
    """bytes_to_hex_string evaluated (sa.miniexec) on byte strings with leading zero bytes and nibbles, with and without
    separator, in both letter cases: two digits per byte, nothing dropped"""
    import binascii
    from ..miniexec import Evaluator, Raised, Unsupported
    mod = ctx.model.modules.get('cryptoparser.common.utils')
    f = None
    if mod is not None:
        for fn in ctx.model.functions():
            if fn.module is mod and fn.name == 'bytes_to_hex_string' and fn.cls is None:
                f = fn
    if f is None:
        report.error('%s: cryptoparser.common.utils.bytes_to_hex_string vanished' % rule)
        return
    report.touch(f)

    def hook(n, ev):
        d = ast.unparse(n.func)
        if d == 'six.iterbytes':
            return list(bytes(ev.ev(n.args[0])))
        if d == 'binascii.hexlify':
            return binascii.hexlify(ev.ev(n.args[0]))
        if d in ('six.ensure_text', 'six.ensure_str'):
            v = ev.ev(n.args[0])
            return v.decode('ascii') if isinstance(v, (bytes, bytearray)) else v
        return NotImplemented
    params = [a.arg for a in f.node.args.args]
    try:
        for data in (b'\x07\xba\x32', b'\x00\x01\xff', b'\x00\x00', b'\xab', b'', bytes(range(16))):
            for sep in ('', ':'):
                for lower in (True, False):
                    report.count(rule)
                    got = Evaluator(dict(zip(params, [data, sep, lower])), hook, None).function(f.node)
                    digits = binascii.hexlify(data).decode('ascii')
                    digits = digits if lower else digits.upper()
                    want = sep.join(digits[i:i + 2] for i in range(0, len(digits), 2))
                    if got != want:
                        report.add(rule, f.construct + '@digits[%s]' % ('separator' if sep else 'plain'),
                                   'bytes %s are rendered as %r (separator %r, lowercase %s), expected %r' % (data.hex(), got, sep, lower, want))
                        return
    except (Unsupported, Raised) as e:
        report.add(rule, f.construct + '@tabulation', 'bytes_to_hex_string left the subset the tabulation understands: %s' % e)
