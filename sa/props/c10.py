"""C10 -- every wire code point is decoded faithfully or preserved verbatim."""
from __future__ import annotations

import ast
import json
import os

from ..model import ClassInfo, EnumMember, ParamsValue
from ..values import ClassV, ObjV, Sym, Unknown, is_const, show
from ..trace import Op, Return, Raise, Loop, Alt, walk

META = {
    'explanation': (
        'The code-space quantifier is discharged without enumeration: decoding is an equality search over a table '
        '(R2, read from the AST of the four generic decoders), so it is faithful for every code iff the table is '
        'alias free (R1, all enum classes of the package; thorough: all JSON tables of the dependency), the width '
        'read equals the width written for every factory / vector / fallback class (R3), unknown items are kept or '
        'rejected but never dropped (R4) and integer-typed enum fields are written with the width they are read '
        'with (R5, from the C01 layouts).'
        ' R6: GREASE tables equal RFC 8701 and the classification decision is a table lookup or arithmetic that agrees with the RFC sets for every code of the width (tabulated). R7: no lenient decoding of wire bytes outside error reporting.'),
    'assumptions': ['enum.Enum aliasing semantics: two members with one value are one member',
                    'protocol-assigned shared numbers are listed in sa/specs/aliases.json with their reference'],
    'trusted_base': ['python ast', 'sa.model enum tables', 'cryptodatahub *.json tables', 'sa/specs/aliases.json'],
    'exhaustive': True,
}

META['explanation'] += ' ' + 'R8: variant lists - every class but the last can decline with InvalidType.'

META['explanation'] += ' ' + 'R2 also evaluates every factory that does not inherit the generic decoder as it is, with the real enumeration and the integers its class mentions. R11: a decoded code point reaches the attribute the composer writes at that position.'

META['explanation'] += ' ' + 'R12 / R13: no module level container and no class level state is written by a decoder. R14: no table over range(min(E), max(E)). R15: no parsed sequence rebuilt from the keys / values of a mapping keyed by its items.'
META['explanation'] += ' ' + 'R16: the writing-side counterpart of R15: no sequence handed on after a round through a set / mapping, no accumulator filled under a membership test.'
HERE = os.path.dirname(os.path.dirname(os.path.abspath(__file__)))


def check(ctx, report):
    model, it = ctx.model, ctx.interp
    with open(os.path.join(HERE, 'specs', 'aliases.json')) as f:
        allowed = json.load(f)['allowed']
    allow = {(a['enum'], frozenset(a['members'])) for a in allowed}
    report.rule('C10.R1', 'enum tables alias free (distinct names never share a code unless the protocol says so)')
    report.rule('C10.R2', 'generic decoders return the member found by an equality search on the parsed code')
    report.rule('C10.R3', 'width read == width written for factories, vectors and fallback classes')
    report.rule('C10.R4', 'unknown items are appended or rejected, never dropped; invalid-type wrapper keeps the code')
    report.rule('C10.R5', 'enum typed integer fields: parse width == compose width')
    report.rule('C10.R6', 'GREASE classification equals RFC 8701 (tables and decision)')
    strict_decoding(ctx, report)
    variant_order(ctx, report, 'C10.R8')
    # the number a code point is looked up with is the unsigned value of its bytes, for every width the factories use (the 3 byte
    # SSL 2.0 cipher kinds included): the width / byte order tabulation of the numeric primitives (shared with C11.R1)
    registry_names_exact(ctx, report)
    coded_fields_kept(ctx, report)
    # a code decodes to the same member whatever was decoded before - also by another factory: no table that outlives the call between
    # the code and the member (a memo shared by two factories answers one with the other's member); rules shared with C19.R5 / R10
    from .c19 import module_level_state, stateless_parsing
    module_level_state(ctx, report, RULE='C10.R12', title='decoding a code point does not depend on code points decoded earlier: no function changes a module level container')
    exclusive_member_ranges(ctx, report)
    parsed_sequences_kept(ctx, report)
    no_item_collapse(ctx, report, RULE='C10.R16')
    stateless_parsing(ctx, report, RULE='C10.R13', allow_memo=True,
                      modules=('cryptoparser/common/base.py', 'cryptoparser/common/parse.py', 'cryptoparser/tls/ciphersuite.py', 'cryptoparser/tls/algorithm.py',
                               'cryptoparser/tls/grease.py', 'cryptoparser/tls/version.py', 'cryptoparser/dnsrec/record.py', 'cryptoparser/ssh/subprotocol.py'),
                      title='no decoder of coded enumerations writes class level state (a memo is accepted only when its key names everything the entry depends on)')
    from .c11 import numeric_widths_shared
    numeric_widths_shared(ctx, report, 'C10.R9', 'code points are read and written as the unsigned big-endian value of their bytes, for every width')
    grease_classification(ctx, report, 'C10.R6')
    # ---- R1
    n_enum = 0
    for c in model.all_classes:
        if c.enum_members is None or not c.enum_members:
            continue
        if c.external and not ctx.thorough and not used_by_repo(model, c):
            continue
        n_enum += 1
        seen = {}
        insensitive = c.is_subclass_of('StringEnumCaseInsensitiveParsable')
        for name in c.enum_members:
            val = it.enum_value(EnumMember(c, name))
            code = val
            if isinstance(val, ParamsValue):
                code = val.get('code', None)
                if code is None:
                    continue
            elif isinstance(val, ObjV):
                code = val.attrs.get('code', (val.ctor_args or {}).get('code'))
                if code is None:
                    continue
            if not is_const(code):
                continue
            key = code.lower() if (insensitive and isinstance(code, str)) else code
            report.count('C10.R1')
            if key in seen and (c.name, frozenset([seen[key], name])) not in allow:
                where = (c.module.relpath + ':' + c.name) if not c.external else ('cryptodatahub:' + c.name)
                report.add('C10.R1', '%s{%s,%s}' % (where, seen[key], name),
                           'members %s and %s share code %s' % (seen[key], name, show(code)))
            seen.setdefault(key, name)
    report.instances['C10.R1.enums'] = n_enum
    if n_enum < 60:
        report.error('C10.R1: only %d enum tables analysed' % n_enum)
    # ---- R2
    decoders(ctx, report)
    # ---- R3
    widths(ctx, report)
    # ---- R4
    preserve(ctx, report)
    # ---- R5 comes from C01 comparison (width diffs on enum converters)
    from ..compare import compare_class
    from .c01 import classify
    for c in model.concrete_parsables():
        if classify(ctx, c) != 'binary':
            continue
        cm = compare_class(c, ctx.canon)
        for a, b in cm.pairs:
            if a.kind == 'u' and isinstance(a.conv, ClassV) and isinstance(a.conv.cls, ClassInfo) and a.conv.cls.enum_members is not None:
                report.count('C10.R5')
                if isinstance(a.w, int) and isinstance(b.w, int) and a.w != b.w:
                    report.add('C10.R5', '%s@field[%s]' % (c.construct, a.key), 'enum field read with %d bytes, written with %d' % (a.w, b.w))
    report.floor('C10.R1', 1500, 'enum members')
    report.floor('C10.R3', 20, 'width obligations')


def used_by_repo(model, c):
    for m in model.repo_modules():
        for name, b in m.bindings.items():
            if b[0] == 'from' and b[2] == c.name:
                return True
    return False


def coded_fields_kept(ctx, report, RULE='C10.R11'):
    """A code point that is decoded and then handed to nothing is not decoded faithfully: the object carries the default member of
    the field whatever code was on the wire.  The binding comparison of C01.R2 names such fields (a parser key that reaches no
    argument of the constructed object while the composer writes the attribute of that position as it is); here the ones whose
    primitive decodes into a coded enumeration are reported."""
    from ..compare import compare_class
    from .c01 import classify, diff_key
    from ..values import ClassV
    report.rule(RULE, 'a decoded code point reaches the attribute the composer writes at that position (never replaced by the default)')
    model = ctx.model
    n = 0
    for c in model.concrete_parsables():
        if classify(ctx, c) not in ('binary', 'mixed'):
            continue
        try:
            cmpn = compare_class(c, ctx.canon)
        except Exception as e:      # the layout comparison of C01 reports what it cannot derive
            continue
        for a, b in cmpn.pairs:
            if a.key is None or a.op is None:
                continue
            coded = [v.cls for v in (a.op.args or {}).values() if isinstance(v, ClassV) and isinstance(v.cls, ClassInfo) and
                     (v.cls.is_enum or v.cls.is_subclass_of('NByteEnumParsable') or v.cls.is_subclass_of('OpaqueEnumParsable') or
                      v.cls.is_subclass_of('EnumParsableBase'))]
            if coded:
                n += 1
        for d in cmpn.diffs:
            if d.kind == 'binding' and 'reaches no argument' in d.detail:
                coded = [v for v in (d.a.op.args or {}).values() if isinstance(v, ClassV)]
                if coded:
                    report.add(RULE, '%s@%s' % (c.construct, diff_key(d)), d.detail)
    report.count(RULE, n)
    report.floor(RULE, 60, 'coded fields of binary classes')


def parsed_sequences_kept(ctx, report, RULE='C10.R15', title=None):
    """What a peer sent twice was sent twice: a list of code points (algorithm names, cipher suites, directives) is handed on
    with every occurrence at its place.  A parse function that files the items in a mapping or set keyed by the item (or a part
    of it) and builds the result from that mapping's ``keys()`` / ``values()`` keeps one occurrence per key - the second ``none`` of
    ``none,zlib,none`` is gone, composed back the list is shorter, and a key that is not normalised (a directive name in the
    letter case of the header) even makes the outcome depend on spelling.  Reported: in every function whose name contains
    ``parse``, a local created as dict / OrderedDict / set that is filled from a loop or comprehension over a sequence and whose
    keys / values / items (or the set itself) are turned into the sequence that is returned or handed to a constructor."""
    report.rule(RULE, title or 'parse functions hand on every item of a parsed sequence: no result built from the keys / values of a mapping keyed by the items')
    MAKERS = ('dict', 'set', 'OrderedDict', 'collections.OrderedDict', 'frozenset', 'dict.fromkeys', 'collections.OrderedDict.fromkeys', 'OrderedDict.fromkeys')
    n = 0
    for f in ctx.model.functions():
        if f.module.external or 'parse' not in f.name:
            continue
        n += 1
        made = {}
        for st in ast.walk(f.node):
            if isinstance(st, ast.Assign) and len(st.targets) == 1 and isinstance(st.targets[0], ast.Name):
                v = st.value
                if isinstance(v, (ast.Dict, ast.DictComp, ast.SetComp, ast.Set)) or \
                        (isinstance(v, ast.Call) and ast.unparse(v.func) in MAKERS):
                    made[st.targets[0].id] = v
        for name, v in made.items():
            from_sequence = isinstance(v, (ast.DictComp, ast.SetComp)) or (isinstance(v, ast.Call) and any(
                isinstance(a, (ast.GeneratorExp, ast.ListComp, ast.Name, ast.Subscript, ast.Attribute)) for a in v.args))
            filled_in_loop = any(isinstance(loop, (ast.For, ast.While)) and any(
                (isinstance(x, ast.Subscript) and isinstance(x.ctx, ast.Store) and isinstance(x.value, ast.Name) and x.value.id == name) or
                (isinstance(x, ast.Call) and isinstance(x.func, ast.Attribute) and x.func.attr in ('add', 'setdefault') and
                 isinstance(x.func.value, ast.Name) and x.func.value.id == name) for x in ast.walk(loop)) for loop in ast.walk(f.node))
            if not (from_sequence or filled_in_loop):
                continue
            # is the collection turned back into the sequence that leaves the function?
            for x in ast.walk(f.node):
                seq = None
                if isinstance(x, ast.Call) and isinstance(x.func, ast.Attribute) and x.func.attr in ('keys', 'values') and \
                        isinstance(x.func.value, ast.Name) and x.func.value.id == name:
                    seq = x
                if seq is None:
                    continue
                # handed to a call (list(...), cls(...)) or returned
                parent_ok = False
                for y in ast.walk(f.node):
                    if isinstance(y, ast.Call) and any(a is seq or (isinstance(a, ast.Call) and any(b is seq for b in a.args)) for a in y.args) and \
                            not (isinstance(y.func, ast.Name) and y.func.id in ('len', 'sorted', 'any', 'all', 'max', 'min', 'sum')):
                        parent_ok = True
                    if isinstance(y, ast.Return) and y.value is not None and any(z is seq for z in ast.walk(y.value)):
                        parent_ok = True
                if parent_ok:
                    report.add(RULE, '%s@collapsed[%s]' % (f.construct, name),
                               'the parsed items are filed in the mapping / set %s and the result is built from %s: an item that repeats a key is '
                               'kept once (and a key that is not normalised makes the result depend on spelling)' % (name, ast.unparse(seq)))
                    break
    report.count(RULE, n)
    report.floor(RULE, 200, 'parse functions')


def no_item_collapse(ctx, report, RULE, title=None, only=None):
    """The counterpart of ``parsed_sequences_kept`` for the writing side (composers, renderings, fingerprints): what the object
    holds twice is written twice.  Reported in every function of the package outside the parse functions (which R15 decides):
    (a) a sequence handed on after a round through a set / mapping that keeps one entry per key - ``list(OrderedDict.fromkeys(s))``,
    ``list(set(s))``, ``sorted(set(s))``, or a local mapping / set filled in a loop (or from a comprehension) whose keys / values / own
    iteration is what leaves the function; (b) an accumulator filled under ``if item not in accumulator``.  The rule carries its
    own positive samples (both forms) and fails closed when they are not recognised."""
    report.rule(RULE, title or 'composers, renderings and fingerprints hand on every item of a stored sequence: no de-duplication through a set / mapping or a membership test')
    MAKERS = ('dict', 'set', 'OrderedDict', 'collections.OrderedDict', 'frozenset')
    FROMKEYS = ('dict.fromkeys', 'collections.OrderedDict.fromkeys', 'OrderedDict.fromkeys', 'set', 'frozenset')
    NEUTRAL = ('len', 'any', 'all', 'max', 'min', 'sum', 'bool', 'isinstance')

    def findings(fnode):
        out = []
        parents = {}
        for x in ast.walk(fnode):
            for ch in ast.iter_child_nodes(x):
                parents[ch] = x
        made = {}
        for st in ast.walk(fnode):
            if isinstance(st, ast.Assign) and len(st.targets) == 1 and isinstance(st.targets[0], ast.Name):
                v = st.value
                if isinstance(v, (ast.Dict, ast.DictComp, ast.SetComp, ast.Set)) or \
                        (isinstance(v, ast.Call) and ast.unparse(v.func) in MAKERS + FROMKEYS):
                    made[st.targets[0].id] = v
        # (a1) direct round trip: list / tuple / sorted / join over X.fromkeys(seq) or set(seq)
        for x in ast.walk(fnode):
            if isinstance(x, ast.Call) and ast.unparse(x.func) in FROMKEYS and x.args and not isinstance(x.args[0], (ast.Constant,)):
                par = parents.get(x)
                if isinstance(par, ast.Call) and x in par.args and not (isinstance(par.func, ast.Name) and par.func.id in NEUTRAL):
                    out.append(('collapsed[%s]' % ast.unparse(x.func), '%s keeps one entry per distinct item of %s and is handed to %s' % (
                        ast.unparse(x.func), ast.unparse(x.args[0])[:60], ast.unparse(par.func)[:40])))
                elif isinstance(par, (ast.comprehension, ast.For)) and par.iter is x:
                    out.append(('collapsed[%s]' % ast.unparse(x.func), 'iteration over %s visits one entry per distinct item' % ast.unparse(x)[:70]))
        # (a2) local mapping / set filled from a sequence, read back as a sequence (a name that is a parameter of the function is
        # left out: the function was handed a mapping under that name, and reading the keys of a mapping loses nothing)
        params = {a.arg for a in fnode.args.args + fnode.args.kwonlyargs + fnode.args.posonlyargs} if hasattr(fnode, 'args') else set()
        for name, v in made.items():
            if name in params:
                continue
            from_sequence = isinstance(v, (ast.DictComp, ast.SetComp)) or (isinstance(v, ast.Call) and any(
                isinstance(a, (ast.GeneratorExp, ast.ListComp, ast.Name, ast.Subscript, ast.Attribute, ast.Call)) for a in v.args))
            filled_in_loop = any(isinstance(loop, (ast.For, ast.While)) and any(
                (isinstance(y, ast.Subscript) and isinstance(y.ctx, ast.Store) and isinstance(y.value, ast.Name) and y.value.id == name) or
                (isinstance(y, ast.Call) and isinstance(y.func, ast.Attribute) and y.func.attr in ('add', 'setdefault') and
                 isinstance(y.func.value, ast.Name) and y.func.value.id == name) for y in ast.walk(loop)) for loop in ast.walk(fnode))
            if not (from_sequence or filled_in_loop):
                continue
            for x in ast.walk(fnode):
                seq = None
                if isinstance(x, ast.Call) and isinstance(x.func, ast.Attribute) and x.func.attr in ('keys', 'values') and \
                        isinstance(x.func.value, ast.Name) and x.func.value.id == name:
                    seq = x
                elif isinstance(x, ast.Name) and x.id == name and isinstance(x.ctx, ast.Load):
                    par = parents.get(x)
                    if isinstance(par, ast.Call) and x in par.args and isinstance(par.func, ast.Name) and par.func.id in ('list', 'tuple', 'sorted'):
                        seq = x
                    elif isinstance(par, ast.Call) and x in par.args and isinstance(par.func, ast.Attribute) and par.func.attr == 'join':
                        seq = x
                    elif isinstance(par, (ast.comprehension, ast.For)) and par.iter is x:
                        seq = x
                if seq is None:
                    continue
                par = parents.get(seq)
                if isinstance(par, ast.Call) and isinstance(par.func, ast.Name) and par.func.id in NEUTRAL:
                    continue
                out.append(('collapsed[%s]' % name, 'the items are filed in the mapping / set %s and %s is what is handed on: an item that repeats a key is kept once' % (
                    name, ast.unparse(seq))))
                break
        # (b) ``if item not in acc: acc.append(item)``
        for x in ast.walk(fnode):
            if isinstance(x, ast.If) and isinstance(x.test, ast.Compare) and len(x.test.ops) == 1 and isinstance(x.test.ops[0], ast.NotIn) and \
                    isinstance(x.test.comparators[0], ast.Name):
                acc = x.test.comparators[0].id
                item = ast.unparse(x.test.left)
                for y in x.body:
                    for z in ast.walk(y):
                        if isinstance(z, ast.Call) and isinstance(z.func, ast.Attribute) and z.func.attr in ('append', 'insert', 'extend') and \
                                isinstance(z.func.value, ast.Name) and z.func.value.id == acc and any(item in ast.unparse(a) for a in z.args):
                            out.append(('unique[%s]' % acc, '%s is added to %s only when no equal item is there yet: repeated items are written once' % (item, acc)))
        return out

    SAMPLE = (
        "def compose(self):\n    return ','.join(list(OrderedDict.fromkeys(map(str, self._items))))\n",
        "def _asdict(self):\n    seen = []\n    for s in self.value:\n        if s not in seen:\n            seen.append(s)\n    return seen\n",
        "def _names(items):\n    names = collections.OrderedDict()\n    for i in items:\n        names[i.code] = i\n    return list(names)\n",
    )
    for text in SAMPLE:
        if not findings(ast.parse(text).body[0]):
            report.error('%s: the rule does not recognise its own positive sample %r' % (RULE, text[:40]))
            return
    n = 0
    for f in ctx.model.functions():
        if f.module.external or 'parse' in f.name:
            continue
        if only is not None and not only(f):
            continue
        n += 1
        seen = set()
        for key, detail in findings(f.node):
            if key in seen:
                continue
            seen.add(key)
            report.add(RULE, '%s@%s' % (f.construct, key), detail)
    report.count(RULE, n)
    report.floor(RULE, 300, 'functions of the package outside the parse functions')


def exclusive_member_ranges(ctx, report, RULE='C10.R14'):
    """A decoding table filled by walking ``range(min(Enum), max(Enum))`` has no entry for the largest member - ``range`` stops
    before its end - so the highest registered code point is refused (or falls to the unknown wrapper) although the enumeration
    knows it.  Every ``range(a, b)`` of the package whose end is ``max(...)`` of something (and not ``max(...) + 1``) is reported;
    so is ``range(min(...) + 1, ...)``, which drops the smallest."""
    report.rule(RULE, 'tables over the codes of an enumeration cover both ends: no range(min(E), max(E)) that leaves out the largest member')
    n = 0
    for m in ctx.model.repo_modules():
        for x in ast.walk(m.tree):
            if isinstance(x, ast.Call) and isinstance(x.func, ast.Name) and x.func.id == 'range' and 1 <= len(x.args) <= 3:
                n += 1
                end = x.args[1] if len(x.args) >= 2 else x.args[0]
                if isinstance(end, ast.Call) and isinstance(end.func, ast.Name) and end.func.id == 'max' and len(end.args) == 1 and not end.keywords:
                    report.add(RULE, '%s@range[%s]' % (m.relpath, ast.unparse(x)[:50]),
                               '%s stops before %s: the largest value has no entry in what is built from this range' % (ast.unparse(x)[:70], ast.unparse(end)[:40]))
                start = x.args[0] if len(x.args) >= 2 else None
                if isinstance(start, ast.BinOp) and isinstance(start.op, ast.Add) and isinstance(start.left, ast.Call) and \
                        isinstance(start.left.func, ast.Name) and start.left.func.id == 'min' and len(start.left.args) == 1:
                    report.add(RULE, '%s@range[%s]' % (m.relpath, ast.unparse(x)[:50]), '%s starts after the smallest value' % ast.unparse(x)[:70])
    report.count(RULE, n)
    report.floor(RULE, 5, 'range() calls of the package')


def registry_names_exact(ctx, report, RULE='C10.R10'):
    """name-lists over a registry of string codes (the SSH algorithm vectors): ``get_param()`` of every concrete vector class
    evaluated (sa.miniexec).  The item class handed to the text list primitive is the registry class itself - its names are
    then matched by the registry's exact lookup (C10.R2 decides that one) - or a function; a function is evaluated on every
    registered name (it has to give that member) and on the case variants of every registered name that are not registered
    themselves (it has to refuse them: an unknown name is kept as it was written, never turned into a known one)"""
    from ..miniexec import ClassRef, Evaluator, EnumVal, Obj, Raised, Unsupported, class_call_hook
    model = ctx.model
    report.rule(RULE, 'names of string coded registries are matched exactly: an unknown name is never decoded as a registered one')
    base = model.try_cls('VectorString')
    if base is None:
        report.error('%s: VectorString vanished' % RULE)
        return
    n = 0
    for c in model.all_subclasses(base):
        gp = c.resolve('get_param')
        if c.abstract_methods or gp is None or gp.abstract:
            continue

        def extra(node, ev):
            d = ast.unparse(node.func)
            if d.startswith('VectorParam') or d.endswith('.__init__'):
                kw = {k.arg: ev.ev(k.value) for k in node.keywords if k.arg}
                for k in node.keywords:
                    if k.arg is None:       # ``VectorParamString(**arguments)``
                        more = ev.ev(k.value)
                        if isinstance(more, dict):
                            kw.update({a: b for a, b in more.items() if isinstance(a, str)})
                return Obj(**kw)
            return NotImplemented
        hook = class_call_hook(c, extra, model)
        try:
            prm = Evaluator({'cls': 'cls'}, hook, hook.name_hook_for(gp.module, None)).function(gp.node)
        except (Unsupported, Raised):
            continue
        item_class = getattr(prm, 'item_class', None)
        if isinstance(item_class, ClassRef):
            if getattr(item_class.info, 'enum_members', None):
                n += 1
                report.count(RULE)
            continue
        if not callable(item_class):
            continue
        # a converter function: which registry does it serve?
        gic = c.resolve('get_item_class')
        try:
            registry = Evaluator({'cls': 'cls'}, hook, hook.name_hook_for(gic.module, None)).function(gic.node) if gic is not None and not gic.abstract else None
        except (Unsupported, Raised):
            registry = None
        if not isinstance(registry, ClassRef) or not getattr(registry.info, 'enum_members', None):
            report.undecided.append('%s: %s hands a function to the list primitive and names no registry class' % (RULE, c.name))
            continue
        n += 1
        members = list(registry)
        codes = {m.value.code: m for m in members if isinstance(getattr(m.value, 'code', None), str)}
        bad = []
        try:
            for code, m in sorted(codes.items()):
                report.count(RULE)
                try:
                    got = item_class(code)
                    if got is not m:
                        bad.append('the registered name %r is decoded as %r' % (code, got))
                except Raised as e:
                    bad.append('the registered name %r is refused (%s)' % (code, e.what[:40]))
                for variant in {code.upper(), code.title(), code.swapcase(), code + ' '} - set(codes):
                    try:
                        got = item_class(variant)
                        bad.append('%r, which is not a registered name, is decoded as %r' % (variant, got))
                    except Raised:
                        pass
        except Unsupported as e:
            report.undecided.append('%s: the name converter of %s left the subset the evaluation understands (%s)' % (RULE, c.name, e))
            continue
        if bad:
            report.add(RULE, '%s@names' % c.construct, '%d of the evaluated names: %s - the list is re-encoded with other names than it was parsed from' % (len(bad), bad[0]))
    if n < 3:
        report.error('%s: only %d registry name-lists found (anchor moved)' % (RULE, n))


def factory_overrides(ctx, report, RULE='C10.R2'):
    """A factory that does not inherit ``_parse`` of the generic fixed width decoder as it is (an override in the factory or in a
    class between the two) is evaluated from its own statements, with the real enumeration behind it: every code of a member, its
    neighbours, the ends of the code space and every integer the overriding class mentions decode to the member that carries that
    very code, or are refused with InvalidValue; the reported length is the width."""
    from ..miniexec import Evaluator, Native, NativeError, Raised, Unsupported, class_call_hook, ClassRef, exception_values
    model = ctx.model
    base = model.try_cls('NByteEnumParsable')
    if base is None:
        return
    generic = base.methods.get('_parse')

    class NotEnoughData(NativeError):
        pass

    class Parser(Native):
        def __init__(self, data):
            self.data, self.values, self.parsed_length = bytes(data), {}, 0

        def parse_numeric(self, name, size, *a, **k):
            if len(self.data) - self.parsed_length < size:
                raise NotEnoughData()
            self.values[name] = int.from_bytes(self.data[self.parsed_length:self.parsed_length + size], 'big')
            self.parsed_length += size

        def __getitem__(self, name):
            return self.values[name]

    errors = exception_values('InvalidValue')

    def extra(n, ev):
        if ast.unparse(n.func) == 'ParserBinary':
            return Parser(ev.ev(n.args[0]))
        return errors(n, ev)
    for k in model.repo_classes():
        if k is base or not k.is_subclass_of('NByteEnumParsable'):
            continue
        f = k.resolve('_parse')
        if f is None or f is generic or f.abstract:
            continue
        gb, ge = k.resolve('get_byte_num'), k.resolve('get_enum_class')
        if gb is None or gb.abstract or ge is None or ge.abstract:
            continue        # not a factory yet: its concrete subclasses are visited
        report.touch(f)

        class Cls(Native):
            _repo_class = k
        hook = class_call_hook(k, extra, model)
        me = Cls()
        try:
            width = Evaluator({'cls': me}, hook, None).function(gb.node)
            enum = Evaluator({'cls': me}, hook, None).function(ge.node)
            if not isinstance(width, int) or not isinstance(enum, ClassRef):
                raise Unsupported('width / enumeration of the factory are not constants')
            members = list(enum)
            by_code = {}
            for m in members:
                code = getattr(m.value, 'code', None)
                if isinstance(code, int):
                    by_code.setdefault(code, m)
            top = 256 ** width - 1
            mentioned = {n.value for b in k.mro if isinstance(b, ClassInfo) and b is not base and not base.is_subclass_of(b.name)
                         for n in ast.walk(b.node) if isinstance(n, ast.Constant) and isinstance(n.value, int) and not isinstance(n.value, bool)}
            mentioned |= {int.from_bytes(n.value, 'big') for b in k.mro if isinstance(b, ClassInfo) and b is not base and not base.is_subclass_of(b.name)
                          for n in ast.walk(b.node) if isinstance(n, ast.Constant) and isinstance(n.value, bytes) and 0 < len(n.value) <= width}
            probes = set(by_code) | mentioned | {0, 1, top, top - 1}
            probes |= {v + 1 for v in probes} | {v - 1 for v in probes}
            bad, runs = [], 0
            for v in sorted(x for x in probes if 0 <= x <= top):
                runs += 1
                want = by_code.get(v)
                try:
                    got = Evaluator({'cls': me, 'parsable': v.to_bytes(width, 'big') + b'\xaa'}, hook, None).function(f.node)
                except Raised as e:
                    if want is not None or 'InvalidValue' not in e.what:
                        bad.append('the code 0x%x raises %s' % (v, e.what.split('(')[0]))
                    continue
                if not isinstance(got, tuple) or len(got) != 2:
                    bad.append('the code 0x%x gives %r' % (v, got))
                elif want is None:
                    bad.append('the code 0x%x, which no member of %s carries, is decoded as %s (whose code is %s): composing writes another '
                               'code than the one parsed' % (v, enum.info.name, getattr(got[0], 'name', got[0]), getattr(getattr(got[0], 'value', None), 'code', '?')))
                elif got[0] is not want and getattr(getattr(got[0], 'value', None), 'code', None) != v:
                    bad.append('the code 0x%x is decoded as %s instead of %s' % (v, getattr(got[0], 'name', got[0]), want.name))
                elif got[1] != width:
                    bad.append('a %d byte code is reported as %r bytes long' % (width, got[1]))
            report.count(RULE, runs)
            if bad:
                report.add(RULE, f.construct + '@override[%s]' % k.name, '%s decodes through its own _parse: %d of %d evaluated codes: %s' % (
                    k.name, len(bad), runs, bad[0]))
            else:
                report.sample({'rule': RULE, 'decoder': f.construct, 'factory': k.name,
                               'verdict': 'override evaluated: the member with the equal code, InvalidValue otherwise', 'runs': runs})
        except (Unsupported, Raised) as e:
            report.undecided.append('%s: %s decodes through an overriding _parse (%s) that left the subset the evaluation understands (%s)' % (
                RULE, k.name, f.construct, e))


def decoders_by_evaluation(ctx, report, RULE='C10.R2'):
    """the generic decoders evaluated (sa.miniexec, helper methods included) on model enumerations:

    * NByteEnumParsable._parse for widths 1, 2, 3: the member whose code equals the big-endian number read, InvalidValue
      for a number no member has, the reported length is the width;
    * StringEnumParsableBase._parse through StringEnumParsable and StringEnumCaseInsensitiveParsable: the member with the
      *longest* code that the input starts with (exactly resp. case-insensitively; the first defined among equally long
      ones), InvalidValue when none does or the input is not ASCII, the reported length is the length of that code;
    * OpaqueEnumParsable._parse: the member whose code equals the decoded opaque bytes, InvalidValue otherwise (also for
      bytes that do not decode), the reported length is the one the vector parser reported.

    Returns the set of decoder names decided this way (the syntactic rule keeps the others)"""
    from ..miniexec import Evaluator, Native, NativeError, Obj, Raised, Unsupported, class_call_hook
    model = ctx.model
    decided = set()

    class NotEnoughData(NativeError):
        pass

    def member(name, code):
        return Obj(name=name, value=Obj(code=code))

    # ---- fixed width numbers
    c = model.try_cls('NByteEnumParsable')
    f = c.methods.get('_parse') if c is not None else None
    if f is not None:
        class Parser(Native):
            def __init__(self, data):
                self.data, self.values, self.parsed_length = bytes(data), {}, 0

            def parse_numeric(self, name, size, *a, **k):
                if len(self.data) - self.parsed_length < size:
                    raise NotEnoughData()
                self.values[name] = int.from_bytes(self.data[self.parsed_length:self.parsed_length + size], 'big')
                self.parsed_length += size

            def __getitem__(self, name):
                return self.values[name]

        class Cls(Native):
            _repo_class = c

            def __init__(self, width, members):
                self.width, self.members = width, members

            def get_byte_num(self):
                return self.width

            def get_enum_class(self):
                return list(self.members)

        def extra(n, ev):
            if ast.unparse(n.func) == 'ParserBinary':
                return Parser(ev.ev(n.args[0]))
            return NotImplemented
        hook = class_call_hook(c, extra, model)
        bad, runs = [], 0
        try:
            for width in (1, 2, 3):
                top = 256 ** width - 1
                codes = sorted({0, 1, 2, 0x7f, 0x80, 0xff & top, top, top - 1, (0x0102 if width > 1 else 0x12), 0x0100 & top, 0x010000 & top})
                members = [member('M%x' % k, k) for k in codes]
                me = Cls(width, members)
                probes = set(codes) | {k + 1 for k in codes if k + 1 <= top} | {k - 1 for k in codes if k > 0} | {3, 0x55 & top}
                for v in sorted(probes):
                    for tail in (b'', b'\xaa\xbb'):
                        runs += 1
                        data = v.to_bytes(width, 'big') + tail
                        want = next((m for m in members if m.value.code == v), None)
                        try:
                            got = Evaluator({'cls': me, 'parsable': data}, hook, None).function(f.node)
                        except Raised as e:
                            if want is not None or 'InvalidValue' not in e.what:
                                bad.append('the %d byte code 0x%x raises %s' % (width, v, e.what.split('(')[0]))
                            continue
                        if want is None:
                            bad.append('the unknown %d byte code 0x%x is decoded as %s' % (width, v, getattr(got[0], 'name', got)))
                        elif not (isinstance(got, tuple) and got[0] is want):
                            bad.append('the %d byte code 0x%x is decoded as %s instead of %s' % (width, v, getattr(got[0], 'name', got), want.name))
                        elif got[1] != width:
                            bad.append('a %d byte code is reported as %r bytes long' % (width, got[1]))
                # a buffer shorter than the width is not decoded
                runs += 1
                try:
                    Evaluator({'cls': me, 'parsable': b'\x00' * (width - 1)}, hook, None).function(f.node)
                    bad.append('a %d byte buffer is decoded as a %d byte code' % (width - 1, width))
                except Raised as e:
                    if 'NotEnoughData' not in e.what:
                        bad.append('a short buffer raises %s' % e.what.split('(')[0])
            decided.add('NByteEnumParsable')
            report.count(RULE, runs)
            if bad:
                report.add(RULE, f.construct + '@search', 'NByteEnumParsable: %d of %d evaluated inputs: %s' % (len(bad), runs, bad[0]))
            else:
                report.sample({'rule': RULE, 'decoder': f.construct, 'verdict': 'evaluated: the member with the equal code, InvalidValue otherwise, length = width', 'runs': runs})
        except Unsupported as e:
            report.undecided.append(RULE + ': NByteEnumParsable._parse left the subset the evaluation understands (%s); decided on its syntax' % e)

    # ---- prefix matched strings
    base = model.try_cls('StringEnumParsableBase')
    f = base.methods.get('_parse') if base is not None else None
    for sub_name, fold in (('StringEnumParsable', False), ('StringEnumCaseInsensitiveParsable', True)):
        sub = model.try_cls(sub_name)
        if f is None or sub is None:
            continue

        class SCls(Native):
            _repo_class = sub

            def __init__(self, members):
                self.members = members

            def __iter__(self):
                return iter(list(self.members))
        hook = class_call_hook(sub, None, model)
        codes = ['ab', 'abc', 'abcd', 'x', 'Xy', 'abd', 'q-1', 'q-12']
        members = [member('S%d' % i, k) for i, k in enumerate(codes)]
        me = SCls(members)
        inputs = ['ab', 'abc', 'abcd', 'abcde', 'abx', 'a', '', 'x', 'xy', 'Xy', 'XY', 'ABC', 'abD', 'abd', 'q-1', 'q-12', 'q-123', 'q-', 'zz', 'ab\xff', '\xffab']
        bad, runs = [], 0
        try:
            for text in inputs:
                runs += 1
                data = text.encode('latin-1')
                ascii_ok = all(b < 0x80 for b in data)
                want = None
                if ascii_ok:
                    for m in members:
                        k = m.value.code
                        head = text[:len(k)]
                        if len(k) <= len(text) and (head.lower() == k.lower() if fold else head == k):
                            if want is None or len(k) > len(want.value.code):
                                want = m
                try:
                    got = Evaluator({'cls': me, 'parsable': data}, hook, None).function(f.node)
                except Raised as e:
                    if want is not None or 'InvalidValue' not in e.what:
                        bad.append('%r raises %s' % (text, e.what.split('(')[0]))
                    continue
                except UnicodeDecodeError:
                    bad.append('%r: UnicodeDecodeError escapes' % text)
                    continue
                if want is None:
                    bad.append('%r is decoded as %r although no code is a prefix of it' % (text, got[0].value.code))
                elif not (isinstance(got, tuple) and got[0] is want):
                    bad.append('%r is decoded as %r instead of the longest match %r' % (text, got[0].value.code, want.value.code))
                elif got[1] != len(want.value.code):
                    bad.append('%r: the reported length is %r, the code has %d characters' % (text, got[1], len(want.value.code)))
            decided.add(sub_name)
            report.count(RULE, runs)
            if bad:
                report.add(RULE, f.construct + '@search', '%s: %d of %d evaluated inputs: %s' % (sub_name, len(bad), runs, bad[0]))
            else:
                report.sample({'rule': RULE, 'decoder': '%s via %s' % (f.construct, sub_name), 'verdict': 'evaluated: longest code the input starts with', 'runs': runs})
        except Unsupported as e:
            report.undecided.append(RULE + ': StringEnumParsableBase._parse (%s) left the subset the evaluation understands (%s); decided on its syntax' % (sub_name, e))
    if {'StringEnumParsable', 'StringEnumCaseInsensitiveParsable'} <= decided:
        decided.add('StringEnumParsableBase')

    # ---- opaque strings
    c = model.try_cls('OpaqueEnumParsable')
    f = c.methods.get('_parse') if c is not None else None
    if f is not None:
        state = {}

        class OCls(Native):
            _repo_class = c

            def __init__(self, members):
                self.members = members

            def get_enum_class(self):
                return list(self.members)

            def get_encoding(self):
                return 'utf-8'

            def get_param(self):
                # an opaque<1..255>: one length octet, octets as items
                return Obj(min_byte_num=1, max_byte_num=255, item_num_size=1, item_size=1, numeric_class=int)

            def __call__(self, items):
                return list(items)          # the vector object built from the octets: iterable over them

        from ..binmodel import BinaryParser

        def extra(n, ev):
            d = ast.unparse(n.func)
            if d == 'ParserBinary':
                # the generic vector reader the class chain inherits (Opaque / Vector._parse and helpers split off them) runs on a model
                # of the byte parser
                return BinaryParser(ev.ev(n.args[0]))
            return NotImplemented
        hook = class_call_hook(c, extra, model)
        members = [member('O%d' % i, k) for i, k in enumerate(['h2', 'http/1.1', 'h', 'h2c', '\u00e9'])]
        me = OCls(members)
        bad, runs = [], 0
        try:
            for raw in (b'h2', b'http/1.1', b'h', b'h2c', b'h3', b'', b'H2', b'h2 ', '\u00e9'.encode('utf-8'), b'\xff\xfe', b'h2\xc3'):
                runs += 1
                state.update(opaque=raw, n=len(raw) + 1)
                try:
                    text = raw.decode('utf-8')
                except UnicodeDecodeError:
                    text = None
                want = next((m for m in members if text is not None and m.value.code == text), None)
                try:
                    got = Evaluator({'cls': me, 'parsable': bytes([len(raw)]) + raw}, hook, hook.name_hook_for(c.module, None)).function(f.node)
                except Raised as e:
                    if want is not None or 'InvalidValue' not in e.what:
                        bad.append('%r raises %s' % (raw, e.what.split('(')[0]))
                    continue
                except (UnicodeDecodeError, StopIteration) as e:
                    bad.append('%r: %s escapes' % (raw, type(e).__name__))
                    continue
                if want is None:
                    bad.append('%r is decoded as %r' % (raw, got[0].value.code))
                elif not (isinstance(got, tuple) and got[0] is want and got[1] == len(raw) + 1):
                    bad.append('%r is decoded as (%r, %r)' % (raw, getattr(got[0], 'name', got[0]), got[1]))
            decided.add('OpaqueEnumParsable')
            report.count(RULE, runs)
            if bad:
                report.add(RULE, f.construct + '@search', 'OpaqueEnumParsable: %d of %d evaluated inputs: %s' % (len(bad), runs, bad[0]))
            else:
                report.sample({'rule': RULE, 'decoder': f.construct, 'verdict': 'evaluated: the member with the equal code', 'runs': runs})
        except Unsupported as e:
            report.undecided.append(RULE + ': OpaqueEnumParsable._parse left the subset the evaluation understands (%s); decided on its syntax' % e)
    return decided


def decoders(ctx, report):
    """R2: the generic decoders, by evaluation where possible (decoders_by_evaluation), else structural facts read from
    their ASTs."""
    model = ctx.model
    decided = decoders_by_evaluation(ctx, report)
    factory_overrides(ctx, report)
    specs = [
        ('NByteEnumParsable', '_parse', 'code'),
        ('OpaqueEnumParsable', '_parse', 'code'),
        ('StringEnumParsableBase', '_parse', 'code'),
    ]
    for cname, meth, attr in specs:
        if cname in decided:
            continue
        c = model.cls(cname)
        f = c.methods.get(meth)
        if f is None:
            report.error('C10.R2: %s.%s vanished' % (cname, meth))
            continue
        report.touch(f)
        report.count('C10.R2')
        ok = False
        why = 'no equality search found'
        # every Return of a member must sit under a comparison between member.value.code and the parsed value,
        # or be a next(iter([... if x.value.code == code]))
        for node in ast.walk(f.node):
            if isinstance(node, (ast.For, ast.ListComp, ast.GeneratorExp)):
                tests = []
                if isinstance(node, ast.For):
                    var = node.target.id if isinstance(node.target, ast.Name) else None
                    for st in node.body:
                        if isinstance(st, ast.If):
                            tests.append((st.test, st.body))
                else:
                    var = node.generators[0].target.id if isinstance(node.generators[0].target, ast.Name) else None
                    for t in node.generators[0].ifs:
                        tests.append((t, None))
                for test, body in tests:
                    if mentions_code_equality(test, var, cname):
                        if body is None:
                            ok = isinstance(node.elt, ast.Name) and node.elt.id == var
                        else:
                            rets = [s for s in body if isinstance(s, ast.Return)]
                            ok = bool(rets) and returns_var(rets[0], var)
                        if ok:
                            break
                if ok:
                    break
        if not ok:
            report.add('C10.R2', f.construct + '@search', '%s: %s' % (cname, why))
        else:
            report.sample({'rule': 'C10.R2', 'decoder': f.construct, 'verdict': 'equality search returning the loop variable'})
    # length reported by NByteEnumParsable._parse is the width it read
    c = model.cls('NByteEnumParsable')
    f = c.resolve('_parse')
    report.count('C10.R2')
    read_w = None
    ret_w = None
    for node in ast.walk(f.node) if 'NByteEnumParsable' not in decided else ():
        if isinstance(node, ast.Call) and isinstance(node.func, ast.Attribute) and node.func.attr == 'parse_numeric' and len(node.args) >= 2:
            read_w = ast.dump(node.args[1])
        if isinstance(node, ast.Return) and isinstance(node.value, ast.Tuple) and len(node.value.elts) == 2:
            ret_w = ast.dump(node.value.elts[1])
    if 'NByteEnumParsable' not in decided and (read_w is None or ret_w is None or read_w != ret_w):
        report.add('C10.R2', f.construct + '@length', 'reported length is not the width that was read')
    # dependency: _from_attr is an equality search
    dep = ctx.model.try_cls('CryptoDataEnumBase')
    if dep is not None and '_from_attr' in dep.methods:
        report.count('C10.R2')
        g = dep.resolve('_from_attr')
        good = False
        for node in ast.walk(g.node):
            if isinstance(node, ast.For) and isinstance(node.target, ast.Name):
                for st in node.body:
                    if isinstance(st, ast.If) and isinstance(st.test, ast.Compare) and isinstance(st.test.ops[0], ast.Eq):
                        rets = [s for s in st.body if isinstance(s, ast.Return)]
                        if rets and returns_var(rets[0], node.target.id):
                            good = True
        if not good:
            report.add('C10.R2', 'cryptodatahub:CryptoDataEnumBase._from_attr@search', 'from_code is not an equality search')


def mentions_code_equality(test, var, cname):
    for n in ast.walk(test):
        if isinstance(n, ast.Compare) and len(n.ops) == 1 and isinstance(n.ops[0], ast.Eq):
            sides = [n.left, n.comparators[0]]
            if any(is_member_code(s, var) for s in sides):
                return True
        if isinstance(n, ast.Call) and isinstance(n.func, ast.Attribute) and n.func.attr == '_code_eq' and n.args:
            if is_member_code(n.args[0], var):
                return True
    return False


def is_member_code(node, var):
    return isinstance(node, ast.Attribute) and node.attr == 'code' and isinstance(node.value, ast.Attribute) and \
        node.value.attr == 'value' and isinstance(node.value.value, ast.Name) and node.value.value.id == var


def returns_var(ret, var):
    v = ret.value
    if isinstance(v, ast.Tuple) and v.elts:
        v = v.elts[0]
    return isinstance(v, ast.Name) and v.id == var


def widths(ctx, report, RULE='C10.R3'):
    model, it = ctx.model, ctx.interp
    for c in model.repo_classes():
        if c.is_subclass_of('NByteEnumParsable') and not c.abstract_methods - {'compose'}:
            if c.resolve('get_enum_class') is None or c.resolve('get_enum_class').abstract:
                continue
            ec = it.const_call(c, 'get_enum_class')
            bn = it.const_call(c, 'get_byte_num')
            report.count(RULE)
            if not (isinstance(ec, ClassV) and isinstance(ec.cls, ClassInfo) and isinstance(bn, int)):
                report.undecided.append('%s: enum class / byte num not foldable' % c.name)
                continue
            cs = code_size(it, ec.cls)
            if cs is None:
                report.undecided.append('%s: code size of %s not foldable' % (c.name, ec.cls.name))
            elif cs != bn:
                report.add(RULE, c.construct + '@width', 'factory reads %d bytes, %s members compose with %d' % (bn, ec.cls.name, cs))
            else:
                report.sample({'rule': RULE, 'factory': c.name, 'enum': ec.cls.name, 'read': bn, 'written': cs}, 20)
    for c in model.repo_classes():
        if not c.is_subclass_of('ArrayBase') or c.resolve('get_param') is None or c.resolve('get_param').abstract or c.abstract_methods:
            continue
        prm = it.const_call(c, 'get_param')
        if not isinstance(prm, ObjV):
            continue
        ic, fb = prm.attrs.get('item_class'), prm.attrs.get('fallback_class')
        if prm.cls.name == 'VectorParamEnumCodeNumeric':
            report.count(RULE)
            wi = it.const_call(ic.cls, 'get_byte_num') if isinstance(ic, ClassV) and isinstance(ic.cls, ClassInfo) else None
            wf = it.const_call(fb.cls, 'get_byte_num') if isinstance(fb, ClassV) and isinstance(fb.cls, ClassInfo) else None
            if isinstance(wi, int) and isinstance(wf, int) and wi != wf:
                report.add(RULE, c.construct + '@fallback', 'item class reads %d bytes, fallback class %d' % (wi, wf))
            elif not isinstance(wi, int) or not isinstance(wf, int):
                report.add(RULE, c.construct + '@fallback', 'VectorParamEnumCodeNumeric needs fixed-width item and fallback classes (get_item_size uses the fallback width)')


def code_size(it, enum_cls):
    pc = enum_cls.enum_params_class
    if isinstance(pc, ClassInfo) and pc.resolve('get_code_size'):
        r = it.const_call(pc, 'get_code_size')
        return r if isinstance(r, int) else None
    for name in enum_cls.enum_members:
        val = it.enum_value(EnumMember(enum_cls, name))
        if isinstance(val, ObjV) and val.cls.resolve('get_code_size'):
            r = it.const_call(val.cls, 'get_code_size')
            return r if isinstance(r, int) else None
        break
    if enum_cls.resolve('get_byte_num') is not None:
        r = it.const_call(enum_cls, 'get_byte_num')
        return r if isinstance(r, int) else None
    return None


def derived_array_tabulation(ctx, report, pb, f):
    """ParserBinary._parse_parsable_derived_array (with the helper methods it calls) evaluated (sa.miniexec) on windows of up to
    three two-byte items, each known to the first item class, known to the second only, or known to none, with and without
    a fallback class, at offset 0 and 2, with bytes after the window: every item of the window is in the result, in wire
    order, parsed by the first class that accepts it (the fallback for the ones none accepts); without a fallback an unknown
    item raises. Returns True when evaluated (findings reported), None when the function left the evaluable subset."""
    import itertools
    from ..miniexec import Evaluator, Native, NativeError, Obj, Raised, Unsupported, class_call_hook

    class InvalidValue(NativeError):
        pass

    class Item(Native):
        def __init__(self, tag, accepts):
            self.tag, self.accepts = tag, accepts

        def parse_immutable(self, data):
            data = bytes(data)
            if len(data) < 2 or (self.accepts is not None and data[0] not in self.accepts):
                raise InvalidValue()
            return (self.tag, data[:2]), 2

    class Parser(Native):
        _repo_class = pb

        def __init__(self, data, offset):
            self._parsable, self._parsed_length = data, offset

        @property
        def unparsed_length(self):
            return len(self._parsable) - self._parsed_length
    A, B, FB = Item('A', (0x01,)), Item('B', (0x01, 0x02)), Item('fallback', None)
    wire = {'a': b'\x01\x10', 'b': b'\x02\x20', 'u': b'\x7f\x30'}
    params = [a.arg for a in f.node.args.args if a.arg != 'self']
    hook = class_call_hook(pb, None, ctx.model)
    bad, runs = [], 0
    try:
        for n in range(0, 4):
            for kinds in itertools.product('abu', repeat=n):
                for classes in ([A], [A, B]):
                    for fb in (None, FB):
                        for offset in (0, 2):
                            runs += 1
                            window = b''.join(wire[k] for k in kinds)
                            data = b'\xee' * offset + window + b'\x01\x99'
                            want = []
                            for k in kinds:
                                cls = next((c for c in classes if wire[k][0] in c.accepts), fb)
                                want.append(None if cls is None else (cls.tag, wire[k]))
                            me = Parser(data, offset)
                            env = dict(zip(params, [len(window), list(classes), fb]))
                            env['self'] = me
                            try:
                                got = Evaluator(env, hook, None).function(f.node)
                            except Raised as e:
                                if None not in want:
                                    bad.append(('raise', kinds, 'raises %s although every item is acceptable' % e.what))
                                continue
                            if None in want:
                                bad.append(('accept', kinds, 'an item no class accepts is passed over without an error (no fallback class): %r' % (got,)))
                                continue
                            items = [tuple(x) if isinstance(x, (list, tuple)) else x for x in (got[0] if isinstance(got, tuple) else got)]
                            if [(t, bytes(v)) for t, v in items] != want:
                                bad.append(('items', kinds, 'the window %r parses to %r, expected %r' % (window, items, want)))
                            elif isinstance(got, tuple) and got[1] != len(window):
                                bad.append(('size', kinds, 'the reported size is %r for a window of %d bytes' % (got[1], len(window))))
    except Unsupported as e:
        report.undecided.append('C10.R4: _parse_parsable_derived_array left the subset the tabulation understands (%s); decided on its syntax' % e)
        return None
    report.count('C10.R4', runs)
    report.sample({'rule': 'C10.R4', 'derived_array_windows_evaluated': runs})
    for kind in ('items', 'accept', 'raise', 'size'):
        hits = [b for b in bad if b[0] == kind]
        if hits:
            report.add('C10.R4', f.construct + '@loop[%s]' % kind, '%d of %d evaluated windows: %s' % (len(hits), runs, hits[0][2][:300]))
    return True


def preserve(ctx, report):
    model = ctx.model
    pb = model.cls('ParserBinary')
    f = pb.methods.get('_parse_parsable_derived_array')
    if f is None:
        report.error('C10.R4: ParserBinary._parse_parsable_derived_array vanished')
        return
    report.touch(f)
    report.count('C10.R4')
    tab = derived_array_tabulation(ctx, report, pb, f)
    loops = [n for n in ast.walk(f.node) if isinstance(n, ast.While)] if tab is None else []
    ok = tab is not None
    for w in loops:
        # every path through the body reaches items.append(item) or a raise
        last = w.body[-1] if w.body else None
        appends = [s for s in w.body if isinstance(s, ast.Expr) and isinstance(s.value, ast.Call)
                   and isinstance(s.value.func, ast.Attribute) and s.value.func.attr == 'append']
        conts = [n for s in w.body for n in ast.walk(s) if isinstance(n, ast.Continue)]
        inner_for = [s for s in w.body if isinstance(s, ast.For)]
        has_else_raise = False
        for fo in inner_for:
            for st in fo.orelse:
                if isinstance(st, ast.If):
                    # fallback present -> parse with it ; else raise
                    has_else_raise = any(isinstance(x, ast.Raise) for x in st.orelse) or any(isinstance(x, ast.Raise) for x in st.body)
                if isinstance(st, ast.Raise):
                    has_else_raise = True
        if appends and not conts and has_else_raise and w.body.index(appends[0]) == len(w.body) - 1:
            ok = True
    if not ok:
        report.add('C10.R4', f.construct + '@loop', 'an iteration can finish without appending the parsed item or raising (item silently dropped)')
    # TlsInvalidTypeBase keeps and re-emits the code with one width
    c = model.cls('TlsInvalidTypeBase')
    report.count('C10.R4')
    p, q = c.methods.get('_parse'), c.methods.get('compose')
    if p is None or q is None:
        report.error('C10.R4: TlsInvalidTypeBase._parse/compose vanished')
        return
    cw = [(ast.dump(n.args[0]), ast.dump(n.args[1])) for n in ast.walk(q.node) if isinstance(n, ast.Call) and isinstance(n.func, ast.Attribute)
          and n.func.attr == 'compose_numeric' and len(n.args) > 1]
    from ..compare import compare_class
    for sub in model.all_subclasses(c):
        if sub.abstract_methods:
            continue
        report.count('C10.R4')
        cm = compare_class(sub, ctx.canon)
        for d in cm.diffs:
            report.add('C10.R4', sub.construct + '@width', 'invalid-type wrapper: ' + d.detail)
        pe = [e for e in cm.pcanon.elements if e.kind == 'u']
        if len(pe) != 1 or len(cm.pcanon.elements) != 1:
            report.add('C10.R4', sub.construct + '@shape', 'invalid-type wrapper is no longer a single fixed-width integer')
    if cw and 'self' not in cw[0][0]:
        report.add('C10.R4', c.construct + '@code', 'compose does not emit the stored code')
    # post init must store code unchanged for non-grease values: self.code assigned only from code-preserving expressions
    pi = c.methods.get('__attrs_post_init__')
    if pi is not None:
        report.count('C10.R4')
        for n in ast.walk(pi.node):
            if isinstance(n, ast.Assign) and isinstance(n.targets[0], ast.Attribute) and n.targets[0].attr == 'code':
                src = ast.unparse(n.value)
                if not (src.endswith('.value.code')):
                    report.add('C10.R4', c.construct + '.__attrs_post_init__@code', 'stored code rewritten by %s' % src)


# ---- GREASE classification (shared with C15) -----------------------------------------------------------

RFC8701_ONE = frozenset(0x0b + 0x1f * i for i in range(8))                 # 0x0b, 0x2a, ..., 0xe4
RFC8701_TWO = frozenset((n << 12) | (0xa << 8) | (n << 4) | 0xa for n in range(16))      # 0x0a0a, 0x1a1a, ..., 0xfafa


def grease_classification(ctx, report, rule):
    """an integer code is classified GREASE exactly when RFC 8701 reserves it: the GREASE tables equal the RFC sets and
    the wrapper class decides by table membership; a decision coded as arithmetic is tabulated over every code of the
    width (sa.miniexec) and compared with the RFC set"""
    import ast
    from ..miniexec import Evaluator, Unsupported
    from ..paths import paths
    model = ctx.model
    for name, want in (('TlsGreaseOneByte', RFC8701_ONE), ('TlsGreaseTwoByte', RFC8701_TWO)):
        c = model.try_cls(name)
        report.count(rule)
        if c is None or c.enum_members is None:
            report.error('%s: GREASE table %s vanished' % (rule, name))
            return
        got = frozenset(v.get('code') for v in c.enum_members.values())
        if got != want:
            report.add(rule, 'cryptodatahub:%s@codes' % name, 'GREASE table differs from RFC 8701: missing %s, extra %s' % (
                sorted(hex(x) for x in want - got), sorted(hex(x) for x in got - want)))
    base = model.try_cls('TlsInvalidTypeBase')
    f = base.methods.get('__attrs_post_init__') if base is not None else None
    if f is None:
        report.error('%s: TlsInvalidTypeBase.__attrs_post_init__ vanished' % rule)
        return
    report.touch(f)
    if grease_tabulation(ctx, report, rule, base, f):
        return
    sites = 0
    # the decision may sit in a helper of the class (classification moved out of __attrs_post_init__, memoised ...): every
    # method of the class that produces the GREASE verdict is a decision site
    deciders = [f] + [g for k, g in sorted(base.methods.items()) if g is not f and not g.abstract and
                      any((isinstance(x, (ast.Assign, ast.Return)) and x.value is not None and ast.unparse(x.value).endswith('.GREASE')) for x in ast.walk(g.node))]
    all_paths = []
    for g in deciders:
        if g is not f:
            report.touch(g)
        all_paths.extend(paths(g.node.body))
    for stmts, how in all_paths:
        marks = [i for i, st in enumerate(stmts) if isinstance(st, (ast.Assign, ast.Return)) and st.value is not None and ast.unparse(st.value).endswith('.GREASE')]
        for i in marks:
            sites += 1
            report.count(rule)
            before = stmts[:i + 1]
            tests = [(t[1], t[2]) for t in before if isinstance(t, tuple) and t[0] == 'test']
            text = [ast.unparse(t) for t, taken in tests if taken]
            if any(x.replace(' ', '') == 'isinstance(self.code,self.get_grease_enum())' for x in text):
                continue
            lookups = [st for st in before if not isinstance(st, tuple) and 'get_grease_enum().from_code(' in ast.unparse(st)]
            if lookups and not any(isinstance(t, tuple) and t[0] == 'except' for t in before[before.index(lookups[-1]):]):
                continue
            # arithmetic decision: tabulate it
            positive = [t for t, taken in tests if taken and 'code' in ast.unparse(t)]
            if not positive:
                report.add(rule, f.construct + '@grease-decision', 'a code is classified GREASE without consulting the GREASE table')
                continue
            test = positive[-1]
            for sub, want, width in ((model.try_cls('TlsInvalidTypeOneByte'), RFC8701_ONE, 1), (model.try_cls('TlsInvalidTypeTwoByte'), RFC8701_TWO, 2)):
                if sub is None:
                    continue
                wrong = tabulate_decision(sub, test, width, want, Evaluator, Unsupported, model)
                if isinstance(wrong, str):
                    report.error('%s: the GREASE decision of %s is neither a table lookup nor tabulable arithmetic: %s' % (rule, sub.name, wrong))
                    return
                if wrong:
                    report.add(rule, '%s@grease-decision' % sub.construct,
                               '%d of the %d codes are classified differently from RFC 8701, e.g. %s is %s' % (
                                   len(wrong), 256 ** width, hex(wrong[0][0]), 'taken for GREASE' if wrong[0][1] else 'not recognised as GREASE'))
    if not sites:
        report.add(rule, f.construct + '@grease-decision', 'no path classifies a code as GREASE')


def grease_tabulation(ctx, report, rule, base, f):
    """__attrs_post_init__ of the code point wrappers evaluated (sa.miniexec, helpers through the MRO) for integer codes of
    both widths - quick: every one byte code, and every two byte code near a reserved value plus a stride; thorough: all
    65536 - with the GREASE table modelled by its own member codes (``from_code`` raises InvalidValue outside them): the
    wrapper must be GREASE exactly for the RFC 8701 values and keep the code.  True when the function stayed inside the
    evaluable subset; the reading of the paths of the function is the fallback."""
    from ..miniexec import Evaluator, Native, NativeError, Obj, Raised, Unsupported, class_call_hook
    model = ctx.model

    class InvalidValue(NativeError):
        pass
    GREASE, UNKNOWN = Obj(name='GREASE'), Obj(name='UNKNOWN')

    def names(nm):
        if nm == 'TlsInvalidType.GREASE':
            return GREASE
        if nm == 'TlsInvalidType.UNKNOWN':
            return UNKNOWN
        raise Unsupported('free name ' + nm)
    try:
        for sub_name, table_name, want, width in (('TlsInvalidTypeOneByte', 'TlsGreaseOneByte', RFC8701_ONE, 1), ('TlsInvalidTypeTwoByte', 'TlsGreaseTwoByte', RFC8701_TWO, 2)):
            sub, table = model.try_cls(sub_name), model.try_cls(table_name)
            if sub is None or table is None or table.enum_members is None:
                return False
            codes_in_table = {v.get('code') for v in table.enum_members.values()}

            class Table(Native):
                def from_code(self, code, codes=codes_in_table):
                    if code not in codes:
                        raise InvalidValue(code)
                    return Obj(value=Obj(code=code))

                def __iter__(self, codes=codes_in_table):
                    return iter([Obj(value=Obj(code=c)) for c in sorted(codes)])

            class Me(Native):
                def __init__(self, code):
                    self.code, self.value = code, None

                def get_grease_enum(self):
                    return Table()

                def get_param_class(self):
                    return lambda code, value_type: Obj(code=code, value_type=value_type)

            def extra(n, ev):
                d = ast.unparse(n.func)
                if d == 'isinstance' and len(n.args) == 2:
                    v = ev.ev(n.args[0])
                    if isinstance(v, int):
                        return False        # an integer code is neither a member of the GREASE enum nor of any coded enum
                    raise Unsupported('isinstance on a model value')
                return NotImplemented
            hook = class_call_hook(sub, extra, model)
            nh = hook.name_hook_for(sub.module, names)
            if width == 1 or ctx.thorough:
                domain = range(256 ** width)
            else:
                near = set()
                for w in want:
                    near |= {w - 1, w, w + 1, w ^ 0x0100, w ^ 0x0001, w ^ 0x1010}
                near |= {c for c in range(0, 65536) if (c & 0x0f0f) == 0x0a0a} | set(range(0, 65536, 257)) | {0, 1, 0xff, 0x100, 0xffff}
                domain = sorted(c for c in near if 0 <= c < 65536)
            wrong = []
            for code in domain:
                report.count(rule)
                me = Me(code)
                try:
                    Evaluator({'self': me}, hook, nh).function(f.node)
                except (InvalidValue, Raised) as e:
                    # the wrapper is the fallback of the vector parsers: an integer code it cannot be built for is a code point
                    # the whole message is refused for
                    report.add(rule, '%s@grease-decision' % sub.construct,
                               'the wrapper cannot be built for the code %s: %s escapes (%s reserved by RFC 8701)' % (
                                   hex(code), (str(e) or type(e).__name__)[:60], 'it is' if code in want else 'it is not'))
                    break
                got = getattr(me.value, 'value_type', None)
                kept = getattr(me.value, 'code', None) == code and me.code == code
                if (got is GREASE) != (code in want) or got not in (GREASE, UNKNOWN) or not kept:
                    wrong.append((code, got, kept))
            if wrong:
                code, got, kept = wrong[0]
                report.add(rule, '%s@grease-decision' % sub.construct,
                           '%d of the %d codes evaluated are classified differently from RFC 8701, e.g. %s is %s%s' % (
                               len(wrong), len(domain), hex(code), 'taken for GREASE' if got is GREASE else ('not recognised as GREASE' if got is UNKNOWN else 'given no kind'),
                               '' if kept else ' (and the code is not kept)'))
    except (Unsupported, Raised) as e:
        report.sample({'rule': rule, 'tabulation': 'not applicable (%s): the decision is read off the paths of the function' % str(e)[:80]})
        return False
    return True


def tabulate_decision(cls, test, width, want, Evaluator, Unsupported, model=None):
    """evaluate ``test`` (an expression over self.code and classmethods of ``cls``) for every code of the width"""
    from ..miniexec import class_call_hook
    wrong = []
    hook = class_call_hook(cls, model=model)
    try:
        for code in range(256 ** width):
            def names(name, code=code):
                if name in ('self.code', 'code'):
                    return code
                raise Unsupported('free name ' + name)
            ev = Evaluator({}, hook, hook.name_hook_for(cls.module, names))
            got = bool(ev.ev(test))
            if got != (code in want):
                wrong.append((code, got))
    except Unsupported as e:
        return str(e)
    return wrong


# ---- R7: wire text is decoded strictly ------------------------------------------------------------------------------------

def strict_decoding(ctx, report):
    """bytes from the wire that become a name looked up in a table (or a value kept in the object) are decoded with the strict
    error handler: 'ignore' / 'replace' silently map an unregistered byte sequence onto a registered name (b'h2\xff' -> h2).
    Lenient decoding is accepted only inside an exception handler or a raise statement (building the message of the error
    being reported)."""
    import ast
    model = ctx.model
    report.rule('C10.R7', 'no lenient (ignore / replace) decoding of wire bytes outside error reporting')
    n_calls = 0
    for f in model.functions():
        if f.module.external:
            continue
        parents = {}
        for n in ast.walk(f.node):
            for ch in ast.iter_child_nodes(n):
                parents[id(ch)] = n
        for n in ast.walk(f.node):
            if not isinstance(n, ast.Call):
                continue
            fn = ast.unparse(n.func)
            if not (fn.endswith(('ensure_text', 'ensure_str', '.decode')) or fn in ('str', 'six.text_type')):
                continue
            n_calls += 1
            lenient = [a for a in list(n.args) + [k.value for k in n.keywords]
                       if isinstance(a, ast.Constant) and a.value in ('ignore', 'replace', 'backslashreplace', 'surrogateescape', 'xmlcharrefreplace')]
            if not lenient:
                continue
            report.count('C10.R7')
            p = n
            in_handler = False
            while id(p) in parents:
                p = parents[id(p)]
                if isinstance(p, (ast.ExceptHandler, ast.Raise)):
                    in_handler = True       # building the message of the error being raised
            if not in_handler:
                report.add('C10.R7', '%s@decode[%s]' % (f.construct, lenient[0].value),
                           '%s decodes wire bytes with the %r error handler: undecodable bytes are dropped / replaced before the value is looked up or '
                           'stored, so an unregistered code is mapped onto a registered one' % (ast.unparse(n)[:70], lenient[0].value))
    report.count('C10.R7', n_calls, nontrivial=0)


# ---- variant lists ---------------------------------------------------------------------------------------------------------

def variant_order(ctx, report, rule):
    """a variant dispatcher tries the classes registered for one tag in order and moves on only when a class raises
    InvalidType. A class that is not the last of its list must therefore be able to decline (raise InvalidType in its own
    _parse on a discriminating field); otherwise it shadows every class behind it and parses their messages as its own."""
    import ast
    from ..values import DictV, ListV
    model, it = ctx.model, ctx.interp
    report.rule(rule, 'variant lists: every class but the last can decline with InvalidType (no class shadows the ones behind it)')
    base = model.try_cls('VariantParsableBase')
    if base is None:
        report.error('%s: VariantParsableBase vanished' % rule)
        return
    lists = 0
    for c in model.all_subclasses(base):
        f = c.resolve('_get_variants')
        if f is None or f.abstract:
            continue
        v = it.const_call(c, '_get_variants')
        if not isinstance(v, DictV):
            continue
        for k, val in v.pairs:
            items = val.items if isinstance(val, ListV) else (list(val) if isinstance(val, (tuple, list)) else [val])
            if len(items) < 2:
                continue
            lists += 1
            report.count(rule)
            for x in items[:-1]:
                k2 = getattr(x, 'cls', None)
                pf = k2.resolve('_parse') if hasattr(k2, 'resolve') else None
                if pf is None:
                    continue
                declines = any(isinstance(n, ast.Raise) and n.exc is not None and 'InvalidType' in ast.unparse(n.exc) for n in ast.walk(pf.node))
                if not declines:
                    report.add(rule, '%s@variant-order[%s]' % (c.construct, show(k)),
                               '%s is tried before %s for %s but never declines (no InvalidType in its _parse): the classes behind it are unreachable '
                               'and their messages are parsed with the wrong layout' % (k2.name, ', '.join(getattr(getattr(y, 'cls', None), 'name', '?') for y in items[items.index(x) + 1:]), show(k)))
    if lists < 1:
        report.error('%s: no multi-class variant list found (anchor moved)' % rule)
