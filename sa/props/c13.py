"""C13 -- observers are pure; no state shared with inputs or between objects."""
from __future__ import annotations

import ast

from ..core import representatives
from ..model import ClassInfo, EnumMember
from ..trace import Effect, Try, walk
from ..values import (BytesV, ClassV, DictV, InputV, ListV, ObjV, SelfV, Sym, Unknown, is_const, show)

META = {
    'explanation': (
        'R1 effect analysis: every observer (compose, ja3, hassh*, fingerprints, key_bytes, key_tag, host_key_asdict, '
        '_asdict, as_json, _as_markdown, as_markdown, __str__, __eq__, __lt__, __hash__, identifier) of every class is '
        'abstractly interpreted with all calls through self inlined; any attribute store, item store/delete, augmented '
        'assignment or mutator call whose target is rooted at self, or any store to class level state, is reported with '
        'the call chain. R2: every attr.ib default whose static type is mutable (list/dict/set/bytearray literal or '
        'constructor, vector object, non-frozen attrs object) must pass through a converter or Factory that builds a '
        'fresh object per instance. R3: taint from the parsable argument of _parse to the constructor arguments of the '
        'returned object, cleared by bytes()/bytearray()/slicing/Parser(...).'
        ' R2 premise: on every path ArrayBase.__attrs_post_init__ stores a list created in the call.'),
    'assumptions': ['attrs evaluates default=<expr> once at class creation and shares the object between instances',
                    'a converter that is a class builds a new object on every construction'],
    'trusted_base': ['python ast', 'sa.interp effect tracking (Effect nodes)', 'sa.model attrs field tables'],
    'exhaustive': True,
}

META['explanation'] += ' ' + "R1 accepts save / swap / restore of class level state only on a class named in the source. R4: observers return copies, never the object's own mutable containers."

META['explanation'] += ' ' + 'R6: a mutable container in a class body is never the fallback of an attribute the instances bind themselves (with a built-in example decided on every run).'

META['explanation'] += ' ' + 'R7: no parameter default is a mutable container the function changes, returns, stores or hands on. R8: no shallow copy.copy.'

OBSERVERS = ['compose', 'ja3', 'hassh', 'hassh_server', 'fingerprints', 'key_bytes', 'key_tag', 'host_key_asdict',
             '_asdict', 'as_json', '_as_markdown', 'as_markdown', '__str__', '__eq__', '__lt__', '__hash__', 'identifier',
             '_markdown_result', '_markdown_result_complex', '_markdown_human_readable_names', '_markdown_result_list',
             '_json_traverse', '_json_result', '_get_ordered_dict']


def rooted(v):
    """'self' | 'class' | None: where an effect target lives."""
    if isinstance(v, SelfV):
        return 'self'
    if isinstance(v, ClassV) and isinstance(v.cls, ClassInfo):
        return 'class'
    if isinstance(v, Sym) and v.op in ('attr', 'index', 'slice', 'typed') and v.args:
        return rooted(v.args[0])
    if isinstance(v, Sym) and v.op == 'elem' and v.args:
        return rooted(v.args[0])
    return None


def shared_containers(ctx, report, RULE='C13.R5', only=None):
    """a list / dict / set / bytearray that lives in a class level or module level variable (also inside a tuple) must not
    become an attribute of a parsed object: every object parsed afterwards would hold the *same* container, and editing one
    edits all of them (and the class).  The abstract interpreter keeps the identity of such a container from the variable to
    the constructor argument (unpacking, locals and helper calls included); ``list(X)`` / ``dict(X)`` / a literal make a new one."""
    from ..core import representatives
    from ..model import VarRef
    from ..values import DictV, ListV
    model, it = ctx.model, ctx.interp
    report.rule(RULE, 'no mutable container held by a class or module level variable becomes part of a parsed object')

    def mutable_literal(node):
        for n in ast.walk(node):
            if isinstance(n, (ast.List, ast.Dict, ast.Set, ast.ListComp, ast.DictComp, ast.SetComp)):
                return True
            if isinstance(n, ast.Call) and ast.unparse(n.func).split('.')[-1] in ('list', 'dict', 'set', 'bytearray', 'OrderedDict', 'defaultdict'):
                return True
        return False
    shared = {}

    def register(v, where, depth=0):
        if depth > 3:
            return
        if isinstance(v, (ListV, DictV)):
            shared[id(v)] = (where, v)
        if isinstance(v, tuple):
            for x in v:
                register(x, where, depth + 1)
        if isinstance(v, ListV):
            for x in v.items:
                register(x, where, depth + 1)
    n_vars = 0
    for m in model.repo_modules():
        for name, b in m.bindings.items():
            if b[0] == 'var' and isinstance(b[1], ast.AST) and mutable_literal(b[1]):
                n_vars += 1
                try:
                    register(it.eval_var(VarRef(m, name, b[1])), '%s:%s' % (m.relpath, name))
                except Exception:      # pylint: disable=broad-except
                    pass
    for c in model.repo_classes():
        for name, node in c.class_vars.items():
            if isinstance(node, ast.AST) and mutable_literal(node):
                n_vars += 1
                try:
                    register(it.eval_var(VarRef(c.module, name, node, c)), '%s.%s' % (c.name, name))
                except Exception:      # pylint: disable=broad-except
                    pass
    report.count(RULE, n_vars)

    def objects(v, out, depth=0):
        from ..values import ObjV, Sym
        if depth > 4:
            return
        if isinstance(v, tuple):
            for x in v:
                objects(x, out, depth + 1)
        elif isinstance(v, ObjV):
            out.append(v)
        elif isinstance(v, Sym) and v.op == 'phi':
            for a in v.args:
                objects(a, out, depth + 1)

    def held(v, depth=0):
        from ..values import Sym
        if getattr(v, 'shared_from', None):
            return v.shared_from
        if id(v) in shared:
            return shared[id(v)][0]
        if depth < 3 and isinstance(v, tuple):
            for x in v:
                r = held(x, depth + 1)
                if r:
                    return r
        if depth < 3 and isinstance(v, Sym) and v.op == 'phi':
            for x in v.args:
                r = held(x, depth + 1)
                if r:
                    return r
        return None
    def read_out_of(v, depth=0):
        """name of the class / module level container the value is an *element* of (``X[k]``, ``X.get(k)``, ``X.setdefault(k, d)[j]``)"""
        from ..values import Sym
        if depth > 6 or not isinstance(v, Sym):
            return None
        if v.op in ('index', 'elem') and v.args:
            return held(v.args[0]) or read_out_of(v.args[0], depth + 1)
        if v.op == 'call' and v.args and isinstance(v.args[0], Sym) and v.args[0].op == 'attr' and v.args[0].args[1] in ('get', 'setdefault', 'pop'):
            recv = v.args[0].args[0]
            return held(recv) or read_out_of(recv, depth + 1)
        if v.op == 'phi':
            for a in v.args:
                r = read_out_of(a, depth + 1)
                if r:
                    return r
        return None
    for c in representatives(ctx, '_parse'):
        if only is not None and not only(c):
            continue
        try:
            res = ctx.canon.layout(c, 'parse').result
        except Exception:      # pylint: disable=broad-except
            continue
        # objects the parser *stores* in class level state ...
        from ..values import ObjV
        stored = {}
        for n in walk(res.block):
            if isinstance(n, Effect) and n.what == 'setitem' and len(n.args) >= 2 and isinstance(n.args[1], (ObjV, ListV, DictV)):
                where = held(n.target) or read_out_of(n.target)
                if where:
                    stored[where] = n
        # ... and hands out as (part of) its result: every later parse with the same key returns the same mutable object
        first = res.value[0] if isinstance(res.value, tuple) and res.value else res.value
        where = read_out_of(first)
        if where and where in stored:
            report.count(RULE)
            report.add(RULE, '%s@cached-object' % c.resolve('_parse').construct,
                       'the parser stores the object it builds in %s and returns the stored one: two parses of the same bytes give the *same* '
                       'mutable object, editing the item of one message edits it in every other message (and in later parses)' % where)
        objs = []
        objects(res.value, objs)
        for o in objs:
            report.count(RULE)
            for pname, pv in (o.ctor_args or {}).items():
                where = held(pv)
                if where:
                    report.add(RULE, '%s@shared[%s]' % (c.resolve('_parse').construct, pname),
                               'the parsed %s receives as %s the container held by %s itself (no copy): every object parsed this way shares it, an '
                               'edit of one object changes the others and what later parses return' % (o.cls.name, pname, where))


MUTABLE_CALLS = ('list', 'dict', 'set', 'bytearray', 'OrderedDict', 'defaultdict', 'deque')


def is_mutable_container(node):
    if isinstance(node, (ast.List, ast.Dict, ast.Set, ast.ListComp, ast.DictComp, ast.SetComp)):
        return True
    return isinstance(node, ast.Call) and ast.unparse(node.func).split('.')[-1] in MUTABLE_CALLS


def self_name(fn):
    a = fn.args.posonlyargs + fn.args.args
    return a[0].arg if a else None


def writes_attr(fn, name):
    """does the function bind or edit ``self.<name>`` anywhere?"""
    me = self_name(fn)
    for n in ast.walk(fn):
        if isinstance(n, ast.Attribute) and n.attr == name and isinstance(n.value, ast.Name) and n.value.id == me:
            if isinstance(n.ctx, (ast.Store, ast.Del)):
                return True
    return False


def always_binds(fn, name, lookup, setter_of, base_init, depth=0):
    """is ``self.<name>`` bound by a statement the function executes on every path that returns (a statement of the body itself,
    a property assignment whose setter binds it that way, a helper or the base initialiser called from the body)?"""
    if fn is None or depth > 4:
        return False
    me = self_name(fn)
    for st in fn.body:
        targets = []
        if isinstance(st, ast.Assign):
            targets = [t for tt in st.targets for t in (tt.elts if isinstance(tt, (ast.Tuple, ast.List)) else [tt])]
        elif isinstance(st, (ast.AnnAssign, ast.AugAssign)) and getattr(st, 'value', None) is not None:
            targets = [st.target]
        for t in targets:
            if isinstance(t, ast.Attribute) and isinstance(t.value, ast.Name) and t.value.id == me:
                if t.attr == name:
                    return True
                setter = setter_of(t.attr)
                if setter is not None and always_binds(setter, name, lookup, setter_of, None, depth + 1):
                    return True
        if isinstance(st, ast.Expr) and isinstance(st.value, ast.Call) and isinstance(st.value.func, ast.Attribute):
            f = st.value.func
            if isinstance(f.value, ast.Name) and f.value.id == me:
                if always_binds(lookup(f.attr), name, lookup, setter_of, None, depth + 1):
                    return True
            if f.attr == '__init__' and base_init is not None and isinstance(f.value, ast.Call) and ast.unparse(f.value.func) == 'super':
                if base_init(name):
                    return True
    return False


def class_level_fallbacks(ctx, report, RULE='C13.R6'):
    """A mutable container bound in a class body under the name of an attribute the instances bind themselves (``self.x = ...`` in
    some method) is the value every instance sees until it binds its own: an initialiser that binds it only on some paths leaves
    the others sharing one container - with each other and with every object created later."""
    model = ctx.model
    report.rule(RULE, 'a mutable container in a class body is never the fallback of an attribute the instances bind themselves')

    def family(c):
        return [k for k in model.repo_classes() if k is c or k.is_subclass_of(c.name)]

    def finder(k):
        def lookup(name):
            f = k.resolve(name)
            return f.node if f is not None and isinstance(getattr(f, 'node', None), (ast.FunctionDef,)) else None

        def setter_of(attr):
            for b in k.mro:
                if not isinstance(b, ClassInfo):
                    continue
                for st in b.node.body:
                    if isinstance(st, ast.FunctionDef) and st.name == attr and any(
                            isinstance(d, ast.Attribute) and d.attr == 'setter' for d in st.decorator_list):
                        return st
            return None
        return lookup, setter_of

    def init_binds(k, name, start=0):
        mro = [b for b in k.mro if isinstance(b, ClassInfo)]
        for i in range(start, len(mro)):
            fn = next((st for st in mro[i].node.body if isinstance(st, ast.FunctionDef) and st.name == '__init__'), None)
            if fn is not None:
                lookup, setter_of = finder(k)
                return always_binds(fn, name, lookup, setter_of, lambda nm, j=i + 1: init_binds(k, nm, j))
        return False
    n = 0
    for c in model.repo_classes():
        if c.is_enum:
            continue
        for name, node in sorted(c.class_vars.items()):
            if not isinstance(node, ast.AST) or not is_mutable_container(node):
                continue
            n += 1
            fam = family(c)
            writers = [(k, st) for k in fam for st in k.node.body if isinstance(st, ast.FunctionDef) and writes_attr(st, name)]
            if not writers:
                continue        # read only through the class: a constant table (what it may leak into is R4 / R5)
            for k in fam:
                if not init_binds(k, name):
                    report.add(RULE, '%s@class-level[%s]' % (k.construct, name),
                               '%s.%s = %s is the value an instance of %s sees until it binds its own (%s binds it), and the initialiser does '
                               'not bind it on every path: those instances share one container' % (
                                   c.name, name, ast.unparse(node)[:40], k.name, '%s.%s' % (writers[0][0].name, writers[0][1].name)))
                    break
    report.count(RULE, n)
    # the rule has no instance on the pinned tree: the same functions must find the one of this example on every run
    example = ast.parse('class Tag:\n    _subtags = []\n    def __init__(self, subtags=None):\n        if subtags is not None:\n'
                        '            self.subtags = subtags\n    @property\n    def subtags(self):\n        return self._subtags\n'
                        '    @subtags.setter\n    def subtags(self, value):\n        self._subtags = value\n').body[0]
    fns = {st.name: st for st in example.body if isinstance(st, ast.FunctionDef) and not st.decorator_list}
    setters = {st.name: st for st in example.body if isinstance(st, ast.FunctionDef) and st.decorator_list and
               any(isinstance(d, ast.Attribute) and d.attr == 'setter' for d in st.decorator_list)}
    ok = is_mutable_container(example.body[0].value) and writes_attr(setters['subtags'], '_subtags') and \
        not always_binds(fns['__init__'], '_subtags', fns.get, setters.get, None)
    fixed = ast.parse('def __init__(self, subtags=()):\n    self.subtags = subtags\n').body[0]
    ok = ok and always_binds(fixed, '_subtags', fns.get, setters.get, None)
    if not ok:
        report.error('%s: the built-in example is not decided as expected (rule broken)' % RULE)
    report.floor(RULE, 15, 'mutable class level containers')


def mutable_parameter_defaults(ctx, report, RULE='C13.R7'):
    """A default value is evaluated once, when the function is defined: a list, dict, set or bytearray written as the default of a
    parameter is one object for all calls.  It is harmless only while no call changes it or hands it on; every such default of the
    package is looked at: the parameter must not be mutated (method call that changes it, item or augmented assignment), returned,
    stored in an attribute, or passed on to a call - i.e. it may only be read."""
    report.rule(RULE, 'no parameter default is a mutable container that the function changes or hands on (one object for all calls)')
    n = 0
    MUTATORS = ('append', 'extend', 'insert', 'pop', 'remove', 'clear', 'sort', 'reverse', 'update', 'setdefault', 'add', 'discard', 'popitem')
    for f in ctx.model.functions():
        if f.module.external:
            continue
        a = f.node.args
        pos = a.posonlyargs + a.args
        pairs = list(zip(pos[len(pos) - len(a.defaults):], a.defaults)) + [(p, d) for p, d in zip(a.kwonlyargs, a.kw_defaults) if d is not None]
        n += len(pos) + len(a.kwonlyargs)
        for p, d in pairs:
            if not is_mutable_container(d):
                continue
            name = p.arg
            how = None
            for x in ast.walk(f.node):
                if isinstance(x, ast.Call) and isinstance(x.func, ast.Attribute) and isinstance(x.func.value, ast.Name) and x.func.value.id == name and \
                        x.func.attr in MUTATORS:
                    how = 'changed by .%s()' % x.func.attr
                elif isinstance(x, (ast.Subscript, ast.Attribute)) and isinstance(x.ctx, (ast.Store, ast.Del)) and isinstance(x.value, ast.Name) and x.value.id == name:
                    how = 'changed by an item assignment'
                elif isinstance(x, ast.AugAssign) and isinstance(x.target, ast.Name) and x.target.id == name:
                    how = 'changed by an augmented assignment'
                elif isinstance(x, ast.Return) and x.value is not None and any(isinstance(y, ast.Name) and y.id == name for y in ast.walk(x.value)):
                    how = 'returned'
                elif isinstance(x, ast.Assign) and any(isinstance(y, ast.Name) and y.id == name for y in ast.walk(x.value)) and \
                        any(isinstance(t, (ast.Attribute, ast.Subscript)) for t in x.targets):
                    how = 'stored'
                elif isinstance(x, ast.Call) and any(isinstance(y, ast.Name) and y.id == name for arg in list(x.args) + [k.value for k in x.keywords] for y in [arg]):
                    how = how or 'handed on to %s()' % ast.unparse(x.func)[:40]
                if how and not how.startswith('handed'):
                    break
            if how:
                report.add(RULE, '%s@default[%s]' % (f.construct, name),
                           'the default %s of parameter %s is one object for every call and is %s: what one call leaves in it (or in the object built '
                           'from it) shows up in the next' % (ast.unparse(d)[:30], name, how))
    report.count(RULE, n)
    report.floor(RULE, 1500, 'parameters of the package')


def shallow_copies(ctx, report, RULE='C13.R8'):
    """``copy.copy(x)`` gives a new object whose members are the members of ``x``: for a vector that is a second vector over the
    *same* item list (and the same parameter object), with its own size book-keeping - a default, a cached prototype or a
    "copy" handed out that way shares its content with every other copy and goes out of step with it.  The package copies through
    constructors and converters; every ``copy.copy`` (and ``.copy`` taken from the module as a value) is reported, ``copy.deepcopy``
    is not."""
    report.rule(RULE, 'objects are not duplicated with the shallow copy.copy (members - item lists, parameter objects - stay shared)')
    n = 0
    for f in ctx.model.functions():
        if f.module.external:
            continue
        n += 1
        for x in ast.walk(f.node):
            if isinstance(x, ast.Attribute) and x.attr == 'copy' and isinstance(x.value, ast.Name) and x.value.id == 'copy':
                report.add(RULE, '%s@copy.copy' % f.construct, 'copy.copy duplicates the outer object only: what it holds (the item list of a vector, a '
                           'bytearray inside a message) is shared between the copies')
    for m in ctx.model.repo_modules():
        for x in ast.walk(m.tree):
            if isinstance(x, ast.ImportFrom) and x.module == 'copy' and any(a.name == 'copy' for a in x.names):
                report.add(RULE, '%s@from-copy-import-copy' % m.relpath, 'the shallow copy function is imported by name')
    report.count(RULE, n)
    report.floor(RULE, 800, 'functions of the package')


def check(ctx, report):
    model, it = ctx.model, ctx.interp
    class_level_fallbacks(ctx, report)
    mutable_parameter_defaults(ctx, report)
    shallow_copies(ctx, report)
    report.rule('C13.R1', 'observers do not write to self, to class level state or to their arguments')
    report.rule('C13.R2', 'no attr.ib default shares a mutable object between instances')
    report.rule('C13.R3', 'the parsed object does not alias the input buffer')
    vector_constructor(ctx, report)
    returned_internals(ctx, report)
    observers_pure(ctx, report)
    shared_containers(ctx, report)
    # ---- R2
    for c in model.repo_classes():
        for fld in c.own_fields:
            if fld.default_node is None:
                continue
            node = fld.default_node
            if isinstance(node, ast.Constant):
                continue
            report.count('C13.R2')
            kind = mutable_kind(ctx, c, node)
            if kind is None:
                continue
            if fld.converter_node is not None:
                cv = it.eval(fld.converter_node, it.new_frame(None, c.module, recv=ClassV(c), defcls=c))
                if isinstance(cv, ClassV) and isinstance(cv.cls, ClassInfo):
                    report.sample({'rule': 'C13.R2', 'field': '%s.%s' % (c.name, fld.name), 'default': ast.unparse(node)[:60],
                                   'verdict': 'fresh object through converter %s' % cv.cls.name}, 8)
                    continue
            if isinstance(node, ast.Call) and ast.unparse(node.func) in ('attr.Factory',):
                continue
            report.add('C13.R2', '%s@default[%s]' % (c.construct, fld.name),
                       'default %s is a %s evaluated once and shared by every instance created without this argument' % (
                           ast.unparse(node)[:70], kind))
    # ---- R3
    for c in representatives(ctx, '_parse'):
        f = c.resolve('_parse')
        res = ctx.canon.layout(c, 'parse').result
        report.count('C13.R3')
        objs = []
        find_objs(res.value, objs)
        for o in objs:
            for pname, pv in (o.ctor_args or {}).items():
                if aliases_input(pv):
                    report.add('C13.R3', '%s._parse@arg[%s]' % (f.cls.construct, pname),
                               'the input buffer itself is stored in the parsed object (no copy): later changes to the caller\'s buffer change the object')
    report.floor('C13.R1', 200, 'observer definitions')
    report.floor('C13.R2', 40, 'non-trivial attr.ib defaults')
    report.floor('C13.R3', 100, '_parse definitions')


def observers_pure(ctx, report, RULE='C13.R1', names=None):
    """R1 (also used by C05 for ``compose`` and by C14 for the serialisers): effects of an observer on self, on class level
    state or on its arguments"""
    model, it = ctx.model, ctx.interp
    names = OBSERVERS if names is None else names
    for c in model.repo_classes():
        if c.is_subclass_of('builtins.Exception'):
            continue
        for name in names:
            f = c.methods.get(name) if not ctx.thorough else c.resolve(name)
            if f is None or f.abstract or f.module.external:
                continue
            if ctx.thorough and (c.abstract_methods and f.cls is not c):
                continue
            if f.kind == 'staticmethod' and name not in ('_json_traverse', '_json_result', '_get_ordered_dict'):
                pass
            report.touch(f)
            try:
                res = it.run(c, name, side='compose')
            except RecursionError:
                report.undecided.append('%s.%s: recursion limit in the analyser' % (c.name, name))
                continue
            effs = [n for n in walk(res.block) if isinstance(n, Effect)]
            report.count(RULE, 1, nontrivial=1 if len(list(walk(res.block))) > 2 else 0)
            for e in effs:
                where = rooted(e.target)
                if where is None:
                    continue
                if e.what == 'delkey':
                    continue
                site_f = e.func
                site = site_f.construct if site_f is not None else c.construct + '.' + name
                tgt = target_text(e)
                if where == 'class':
                    tgt = 'cls.%s' % (e.args[0] if e.args else '?')
                if where == 'class' and restored_in_finally(e, res.block):
                    continue
                key = '%s@%s[%s]' % (site, e.what, tgt)
                f0 = report.add(RULE, key, '%s' % effect_text(e) if where != 'class' else
                                'class level state %s is overwritten during an observer and not put back, in a finally block, on a class named in the source' % tgt,
                                witness={'reached_from': []})
                for x in report.findings:
                    if x.key == f0.key and isinstance(x.witness, dict):
                        lst = x.witness.setdefault('reached_from', [])
                        if len(lst) < 8 and '%s.%s' % (c.name, name) not in lst:
                            lst.append('%s.%s' % (c.name, name))


def effect_text(e):
    if e.what == 'mutcall':
        return 'calls %s.%s(...)' % (show(e.target), e.args[0])
    if e.what == 'setattr':
        return 'assigns %s.%s' % (show(e.target), e.args[0])
    if e.what == 'augassign':
        return 'augmented assignment to %s.%s' % (show(e.target), e.args[0])
    if e.what == 'inplace':
        return '%s %s ... applied to a local that is %s itself: a list, set or bytearray is changed in place' % (show(e.target), e.args[0], show(e.target))
    if e.what in ('setitem', 'delitem'):
        return '%s on %s' % ('item assignment' if e.what == 'setitem' else 'del item', show(e.target))
    return '%s %s' % (e.what, show(e.target))


def target_text(e):
    t = show(e.target)
    if e.what in ('setattr', 'augassign', 'mutcall') and e.args:
        return '%s.%s' % (t, e.args[0])
    return t


def restored_in_finally(e, block):
    """a class level store is acceptable when the same function restores that attribute in the ``finally`` of a
    try that follows the store (save / swap / try ... finally: restore)"""
    # the swap is only neutral when it is made on a class named in the source: ``cls`` / ``type(self)`` is the class of
    # the object at hand, and "restoring" an inherited attribute there leaves a new attribute behind on that subclass
    tgt = getattr(e.node, 'targets', None) or [getattr(e.node, 'target', None)]
    for t in tgt:
        for sub in ([t] + list(getattr(t, 'elts', []) or [])) if t is not None else []:
            if isinstance(sub, ast.Attribute) and sub.attr == (e.args[0] if e.args else None):
                owner = sub.value
                if not (isinstance(owner, ast.Name) and owner.id[:1].isupper()):
                    return False
    for n in walk(block):
        if isinstance(n, Try) and n.final:
            for x in walk(n.final):
                if isinstance(x, Effect) and x.what == 'setattr' and x.args and x.args[0] == e.args[0] and \
                        x.func is e.func and x is not e:
                    return True
            if any(x is e for x in walk(n.final)):
                return True
    return False


def mutable_kind(ctx, c, node):
    it = ctx.interp
    fr = it.new_frame(None, c.module, recv=ClassV(c), defcls=c)
    fr.quiet = True
    v = it.eval(node, fr)
    if isinstance(v, ListV):
        return 'list'
    if isinstance(v, DictV):
        return 'dict'
    if isinstance(v, BytesV):
        return 'bytearray'
    if isinstance(v, Sym) and v.op in ('bytearray', 'set', 'bytearray.fromhex', 'setcomp'):
        return v.op.split('.')[0]
    if isinstance(v, Sym) and v.op == 'call' and v.args and isinstance(v.args[0], str) and v.args[0] in ('bytearray.fromhex',):
        return 'bytearray'
    if isinstance(v, ObjV):
        k = v.cls
        if k.is_subclass_of('ArrayBase'):
            return 'vector object (%s)' % k.name
        if k.has_attrs():
            frozen = any(isinstance(x, ClassInfo) and isinstance(x.attrs_kw.get('frozen'), ast.Constant) and x.attrs_kw['frozen'].value
                         for x in k.mro)
            if not frozen:
                return 'mutable attrs object (%s)' % k.name
    return None


def find_objs(v, out):
    if isinstance(v, tuple) and v:
        find_objs(v[0], out)
    elif isinstance(v, ObjV):
        out.append(v)
    elif isinstance(v, Sym) and v.op == 'phi':
        for a in v.args:
            find_objs(a, out)


def aliases_input(v, depth=0):
    if isinstance(v, InputV):
        return True
    if isinstance(v, Sym) and v.op in ('phi', 'ifexp') and depth < 5:
        return any(aliases_input(a, depth + 1) for a in v.args)
    return False


def vector_constructor(ctx, report):
    """premise of R2 (a vector default passed through its class as converter is a fresh object per instance): on every
    path to a normal exit of ArrayBase.__attrs_post_init__ the item container stored last in ``self._items`` is a list
    created in that call -- never the argument itself or the container of another vector"""
    from ..paths import TooManyPaths, paths
    c = ctx.model.cls('ArrayBase')
    f = c.methods.get('__attrs_post_init__')
    report.count('C13.R2')
    if f is None:
        report.error('C13.R2: ArrayBase.__attrs_post_init__ vanished')
        return
    report.touch(f)

    def fresh(e):
        if isinstance(e, (ast.List, ast.ListComp)):
            return True
        return isinstance(e, ast.Call) and isinstance(e.func, ast.Name) and e.func.id in ('list', 'sorted')
    try:
        ps = paths(f.node.body)
    except TooManyPaths:
        report.add('C13.R2', f.construct + '@paths', 'too many paths to decide which container a new vector keeps')
        return
    for stmts, how in ps:
        if how == 'raise':
            continue
        last = None
        for st in stmts:
            if isinstance(st, ast.Assign) and any(ast.unparse(t) == 'self._items' for t in st.targets):
                last = st.value
        report.count('C13.R2')
        if last is None or not fresh(last):
            what = 'keeps the container it was given' if last is None else 'stores %s' % ast.unparse(last)
            report.add('C13.R2', f.construct + '@items-container',
                       'a path through the vector constructor %s instead of a list created in the call: two vectors (a default and '
                       'every message built from it) then share one item list' % what)
            break


def returned_internals(ctx, report):
    """R4: an observer does not hand out the object's own mutable container (``return self._items``, ``return self.data`` of
    a bytearray field): the caller mutating the result would change the object, i.e. calling the observer is not pure in
    effect"""
    model = ctx.model
    report.rule('C13.R4', 'observers return copies, never the object\'s own mutable containers')
    for c in model.repo_classes():
        for name in OBSERVERS:
            f = c.methods.get(name)
            if f is None:
                continue
            report.count('C13.R4')
            for n in ast.walk(f.node):
                if not (isinstance(n, ast.Return) and isinstance(n.value, ast.Attribute) and isinstance(n.value.value, ast.Name) and n.value.value.id == 'self'):
                    continue
                attr_name = n.value.attr
                fld = c.field(attr_name) if c.has_attrs() else None
                texts = []
                if fld is not None:
                    for node in (fld.validator_node, fld.converter_node, fld.default_node):
                        if node is not None:
                            texts.append(ast.unparse(node))
                blob = ' '.join(texts)
                mutable = attr_name == '_items' or 'bytearray' in blob or 'deep_iterable' in blob or 'OrderedDict' in blob or \
                    'instance_of(list)' in blob or 'instance_of(dict)' in blob
                if mutable:
                    report.touch(f)
                    report.add('C13.R4', '%s@returns[self.%s]' % (f.construct, attr_name),
                               'the observer returns the object\'s own mutable %s: a caller that edits the result edits the object' % attr_name)
