"""C15 -- JA3 of a client hello equals the published algorithm (structure of the computation)."""
from __future__ import annotations

import ast
import json
import os

from ..model import ClassInfo
from ..trace import Alt, Op, walk
from ..values import SelfV, Sym, show
from ..compare import compose_root

META = {
    'explanation': (
        'The AST of TlsHandshakeClientHello.ja3 is decomposed into its sections (the elements of the final join) and each '
        'section is traced back to the attribute it iterates, the element expression and its filters. R1 compares with the '
        'published definition (sa/specs/fingerprints.json): five sections in the order version, ciphers, extensions, groups, '
        'point formats; decimal rendering of the code; "-" and "," joins; every list iterates the wire ordered attribute; '
        'GREASE is filtered in every list section (sibling agreement: the filter idiom of three sections must be in all four) '
        'and nothing else is filtered. R2 def-use agreement: every attribute compose() consumes to emit the cipher suite list '
        'must be consumed by the cipher section of ja3.'
        ' R3: the values ignored as GREASE are exactly the RFC 8701 values (C10.R6).'),
    'assumptions': ['byte-level layout of the client hello is covered by C06'],
    'trusted_base': ['python ast', 'sa/specs/fingerprints.json', 'sa.interp (attributes consumed by compose)'],
    'exhaustive': True,
}

META['explanation'] += ' ' + 'R4: no function between the wire bytes of a hello and ja3 writes class level state, memo tables included. R5: extension parsers reject only what the specification prescribes (a refused extension silently becomes an unparsed one and leaves the ja3 sections).'

META['explanation'] += ' ' + 'R7: the decoders behind the sections (generic and overriding) hand out the member whose code is on the wire (shared with C10.R2).'

META['explanation'] += ' ' + 'R8: hello and extension attributes are composed as stored (shared with C01.R2). R9: no vector class redefines its construction or a sequence method (shared with C12.R13).'
META['explanation'] += ' ' + 'R10: the extension block is read whenever anything is left of the hello body (shared with C06.R13).'
HERE = os.path.dirname(os.path.dirname(os.path.abspath(__file__)))


def check(ctx, report):
    model = ctx.model
    with open(os.path.join(HERE, 'specs', 'fingerprints.json')) as f:
        spec = json.load(f)['ja3']
    report.rule('C15.R1', 'sections, order, joins, decimal rendering, GREASE filter in every list section')
    report.rule('C15.R2', 'attributes consumed by compose for the cipher list are consumed by the cipher section')
    report.rule('C15.R3', 'the values ignored as GREASE are exactly the RFC 8701 values')
    from .c10 import grease_classification
    grease_classification(ctx, report, 'C15.R3')
    # the extension section of the fingerprint is taken from the extension block of the hello: the block is read whenever anything
    # is left of the hello body (rule shared with C06.R13)
    from .c06 import optional_trailers_read
    optional_trailers_read(ctx, report, RULE='C15.R10', title='the extension block of a hello is read whenever anything is left of the body (JA3 extension section = types on the wire)')
    # the fingerprint does not change when the hello is composed and parsed again: what the hello composer writes for its list
    # valued attributes are the items of those attributes, nothing it makes up on the way (rule shared with C01.R2)
    report.rule('C15.R6', 'the client hello composer adds no item of its own to the lists it writes (the fingerprint survives compose / parse)')
    from .c01 import composer_added_items
    hello = model.try_cls('TlsHandshakeClientHello')
    if hello is not None:
        composer_added_items(ctx, report, 'C15.R6', [hello])
    # the fingerprint is a function of the message alone: nothing on the way from bytes to ja3 (hello, extensions, code point
    # wrappers) keeps class level state; a memo table is accepted when its key names every parameter the function uses, the class
    # it dispatches on included (a memo keyed by part of what the entry depends on answers for another input)
    from .c19 import stateless_parsing
    stateless_parsing(ctx, report, RULE='C15.R4', allow_memo=True,
                      modules=('cryptoparser/tls/grease.py', 'cryptoparser/tls/subprotocol.py', 'cryptoparser/tls/extension.py',
                               'cryptoparser/tls/ciphersuite.py', 'cryptoparser/tls/algorithm.py', 'cryptoparser/tls/version.py'),
                      title='no function between the wire bytes of a client hello and ja3 writes class level state (a memo table is accepted only when its key names everything the entry depends on)')
    # an extension parser that refuses content the protocol allows makes the generic array parser fall back to the unparsed
    # class: the hello still parses, but the groups / point formats that ja3 reads from the typed extension are gone
    from .. import rejections
    rejections.check(ctx, report, 'C15.R5', 'tls', only='cryptoparser/tls/extension.py',
                     title='extension parsers reject only what the specification tells them to (a refused extension silently becomes an unparsed one and drops out of the ja3 sections)')
    report.floor('C15.R4', 150, 'functions of the TLS hello / extension / code point modules')
    # the numbers the sections print are the codes of the members the decoders hand out: the generic fixed width decoder (and every
    # factory that overrides it) returns the member that carries the very code on the wire (evaluation shared with C10.R2)
    report.rule('C15.R7', 'code point decoders behind the sections hand out the member whose code is the one on the wire')
    from .c10 import decoders_by_evaluation, factory_overrides
    decoders_by_evaluation(ctx, report, RULE='C15.R7')
    factory_overrides(ctx, report, RULE='C15.R7')
    report.floor('C15.R7', 100, 'evaluated code points')
    # the version and the lists the fingerprint reads are the ones compose writes: a composer that writes a constant in place of an
    # attribute for some of its values gives bytes whose fingerprint differs from the fingerprint of the object (shared with C01.R2)
    from .c11 import fields_written_as_stored
    fields_written_as_stored(ctx, report, RULE='C15.R8', kinds=None, modules={'cryptoparser.tls.subprotocol', 'cryptoparser.tls.extension'},
                             title='hello and extensions: attributes are composed as stored (the fingerprint of the composed bytes is the fingerprint of the object)')
    report.floor('C15.R8', 200, 'fields of hello and extension structures')
    # JA3 lists cipher suites, extensions, groups and point formats in the order the hello carried them: the vectors that hold them
    # take the items as given and answer like the list of them (no vector class sorts on construction or redefines an edit); shared
    # with C12.R13
    from .c12 import sequence_interface_inherited
    sequence_interface_inherited(ctx, report, RULE='C15.R9',
                                 title='the vectors JA3 reads keep the order they were given: no vector class redefines its construction or a sequence method')
    c = model.cls('TlsHandshakeClientHello')
    f = c.methods.get('ja3')
    if f is None:
        report.error('C15: TlsHandshakeClientHello.ja3 vanished')
        return
    report.touch(f)
    cons = f.construct
    lists = collect_lists(f.node)
    tabulated = ja3_tabulation(ctx, report, f, cons, spec)
    if tabulated:
        cipher_section_reads(ctx, report, c, cons, lists)
        report.floor('C15.R1', 6, 'section obligations')
        return
    # fallback: syntactic decision of the same obligations (the function left the evaluable subset)
    ret = [n for n in ast.walk(f.node) if isinstance(n, ast.Return)]
    if len(ret) != 1 or not is_join(ret[0].value):
        report.error('C15.R1: ja3 is neither evaluable by the tabulation nor a single <sep>.join([...])')
        return
    sep, parts = join_parts(ret[0].value)
    report.count('C15.R1')
    if sep != spec['section_separator']:
        report.add('C15.R1', cons + '@section-separator', 'sections joined with %r, definition says %r' % (sep, spec['section_separator']))
    if len(parts) != len(spec['sections']):
        report.add('C15.R1', cons + '@sections', 'ja3 has %d sections, the definition has %d' % (len(parts), len(spec['sections'])))
        return
    for part, sec in zip(parts, spec['sections']):
        report.count('C15.R1')
        name = sec['name']
        if name == 'version':
            src = ast.unparse(part)
            if not src.startswith('str('):
                report.add('C15.R1', cons + '@section[version]', 'version is not rendered in decimal with str()')
            continue
        if not is_join(part):
            report.add('C15.R1', cons + '@section[%s]' % name, 'section is not a join of items')
            continue
        isep, inner = join_parts(part, single=True)
        if isep != spec['item_separator']:
            report.add('C15.R1', cons + '@section[%s]' % name, 'items joined with %r, definition says %r' % (isep, spec['item_separator']))
        var = ast.unparse(inner)
        info = lists.get(var)
        if info is None:
            report.add('C15.R1', cons + '@section[%s]' % name, 'cannot trace the list %s' % var)
            continue
        # source attribute
        want_src = sec['source'].split('.')[0] if name != 'extensions' else 'extensions'
        if want_src not in info['source']:
            report.add('C15.R1', cons + '@section[%s]' % name, 'section iterates %s, definition says %s' % (info['source'], sec['source']))
        if sec.get('under') and sec['under'] not in info['under']:
            report.add('C15.R1', cons + '@section[%s]' % name, 'list is not taken from the %s extension' % sec['under'])
        if not (info['elt'].startswith('str(') and info['elt'].endswith('.value.code)')):
            report.add('C15.R1', cons + '@section[%s]' % name, 'items rendered as %s, definition says decimal code' % info['elt'])
        if info['sorted']:
            report.add('C15.R1', cons + '@section[%s]' % name, 'items are reordered; the definition keeps wire order')
        grease = any('GREASE' in x for x in info['filters'])
        other = [x for x in info['filters'] if 'GREASE' not in x]
        if sec.get('grease_filtered') and not grease:
            report.add('C15.R1', cons + '@section[%s]' % sec['source'].split('.')[0],
                       '%s section has no GREASE filter (the definition ignores GREASE in every section; the other sections have one)' % name)
        if other:
            report.add('C15.R1', cons + '@section[%s]@filter' % name, 'section filters more than GREASE: %s' % other)
        report.sample({'rule': 'C15.R1', 'section': name, 'source': info['source'], 'element': info['elt'], 'filters': info['filters']})
    cipher_section_reads(ctx, report, c, cons, lists)
    report.floor('C15.R1', 6, 'section obligations')


def cipher_section_reads(ctx, report, c, cons, lists):
    # ---- R2
    res = ctx.canon.layout(c, 'compose').result
    used_by_compose = set()
    cipher_ops = [n for n in walk(res.block) if isinstance(n, Op) and n.prim == 'compose_numeric_array_enum_coded']
    # attributes read before the cipher array is emitted and after the session id: cipher list and the two SCSV flags
    for n in walk(res.block):
        if isinstance(n, Alt):
            for root, _ in compose_root(n.cond):
                if 'scsv' in root:
                    used_by_compose.add(root)
    for o in cipher_ops:
        for v in o.args.values():
            for root, _ in compose_root(v):
                used_by_compose.add(root)
        used_by_compose.add('cipher_suites')
    info = lists.get('cipher_suites', {'source': '', 'reads': set()})
    reads = set(info.get('reads', set()))
    if id(ctx) in CONSUMED:
        # decided by difference on the evaluated function: the attribute is consumed when changing it changes the string
        reads = set(CONSUMED[id(ctx)])
    for a in sorted(used_by_compose):
        report.count('C15.R2')
        if a not in reads and a != '*':
            report.add('C15.R2', cons + '@cipher-section[%s]' % a,
                       'compose() emits the cipher suite list from self.%s, the cipher section of ja3 never reads it: '
                       'JA3 differs from the wire bytes (and changes across a parse/compose cycle)' % a)


def is_join(n):
    return isinstance(n, ast.Call) and isinstance(n.func, ast.Attribute) and n.func.attr == 'join' and \
        isinstance(n.func.value, ast.Constant) and isinstance(n.func.value.value, str) and len(n.args) == 1


def join_parts(n, single=False):
    sep = n.func.value.value
    a = n.args[0]
    if single:
        return sep, a
    if isinstance(a, (ast.List, ast.Tuple)):
        return sep, list(a.elts)
    return sep, [a]


def self_attrs(node):
    out = set()
    for n in ast.walk(node):
        if isinstance(n, ast.Attribute) and isinstance(n.value, ast.Name) and n.value.id == 'self':
            out.add(n.attr)
    return out


def collect_lists(fnode):
    """variable -> {source, elt, filters, under, sorted, reads}"""
    out = {}

    def from_comp(name, comp, under, loopvar_src):
        gen = comp.generators[0]
        src = ast.unparse(gen.iter)
        srcs = {src}
        if loopvar_src:
            srcs.add(loopvar_src)
        out[name] = {'source': ' '.join(sorted(srcs)), 'elt': ast.unparse(comp.elt), 'filters': [ast.unparse(x) for x in gen.ifs],
                     'under': under, 'sorted': src.startswith('sorted('), 'reads': self_attrs(comp)}

    def visit(stmts, under, loop_src, tests):
        for st in stmts:
            if isinstance(st, ast.Assign) and isinstance(st.targets[0], ast.Name) and isinstance(st.value, ast.ListComp):
                from_comp(st.targets[0].id, st.value, under, loop_src)
                out[st.targets[0].id]['filters'] += [t for t in tests if 'TlsExtensionType.' not in t]
            elif isinstance(st, ast.For):
                visit(st.body, under, ast.unparse(st.iter), tests)
            elif isinstance(st, ast.If):
                t = ast.unparse(st.test)
                visit(st.body, under + ' ' + t, loop_src, tests + [t])
                visit(st.orelse, under, loop_src, tests)
            elif isinstance(st, ast.Expr) and isinstance(st.value, ast.Call) and isinstance(st.value.func, ast.Attribute) and st.value.func.attr == 'append':
                name = ast.unparse(st.value.func.value)
                reads = self_attrs(st)
                out[name] = {'source': loop_src or '', 'elt': ast.unparse(st.value.args[0]),
                             'filters': [t for t in tests if 'TlsExtensionType.' not in t], 'under': under,
                             'sorted': False, 'reads': reads}
    visit(fnode.body, '', None, [])
    return out


# ---- tabulated JA3 ---------------------------------------------------------------------------------------------------

CONSUMED = {}


def ja3_tabulation(ctx, report, f, cons, spec):
    """ja3() evaluated statement by statement (sa.miniexec) on abstract client hellos - every combination of: GREASE /
    unknown / known cipher suites, extension lists with and without supported_groups and ec_point_formats in both orders,
    GREASE and unknown extension types, GREASE and unknown groups and point formats - and compared, section by section,
    with the string the published definition gives for the same hello.  Returns False when the function is outside the
    evaluable subset (the caller then falls back to the syntactic rule)."""
    import itertools
    from ..miniexec import Evaluator, Native, Obj, Raised, Unsupported
    GREASE, UNKNOWN = Obj(name='GREASE'), Obj(name='UNKNOWN')
    EXT = {'SERVER_NAME': 0, 'SUPPORTED_GROUPS': 10, 'EC_POINT_FORMATS': 11, 'SESSION_TICKET': 35}
    ext_tokens = {k: Obj(value=Obj(code=v), name=k, _cls='TlsExtensionType') for k, v in EXT.items()}

    def invalid(code, kind, width):
        return Obj(value=Obj(code=code, value_type=kind), _cls='TlsInvalidTypeTwoByte' if width == 2 else 'TlsInvalidTypeOneByte')

    def member(code):
        return Obj(value=Obj(code=code), _cls='member')

    class ExtList(list, Native):
        def get_item_by_type(self, t):
            for e in self:
                if e.extension_type is t:
                    return e
            raise KeyError(t)

    class Parser(Native):
        def __init__(self, data):
            self.data, self.values = bytes(data), {}

        def parse_numeric(self, name, size):
            self.values[name] = int.from_bytes(self.data[:size], 'big')

        def __getitem__(self, k):
            return self.values[k]

    def hook(n, ev):
        d = ast.unparse(n.func)
        if d == 'ParserBinary':
            return Parser(ev.ev(n.args[0]))
        if d == 'isinstance' and len(n.args) == 2:
            v = ev.ev(n.args[0])
            names = [x.strip() for x in ast.unparse(n.args[1]).strip('()').split(',')]
            try:
                # the class may arrive through a parameter or a local: use what the expression evaluates to
                t = ev.ev(n.args[1])
                ts = t if isinstance(t, (tuple, list)) else (t,)
                resolved = [getattr(getattr(x, 'info', None), 'name', None) for x in ts]
                if all(resolved):
                    names = resolved
            except Unsupported:
                pass
            return getattr(v, '_cls', None) in names
        return NotImplemented

    tokens = {}

    def token(name):
        # a member of an enum of the dependency that the model does not load: equal to itself only
        if name not in tokens:
            tokens[name] = Obj(name=name.split('.')[-1], _token=name)
        return tokens[name]

    def names(name):
        if name.startswith('NamedGroupType.'):
            return token(name)
        if name.startswith('TlsExtensionType.') and name.split('.', 1)[1] in ext_tokens:
            return ext_tokens[name.split('.', 1)[1]]
        if name == 'TlsInvalidType.GREASE':
            return GREASE
        if name == 'TlsInvalidType.UNKNOWN':
            return UNKNOWN
        raise Unsupported('free name %s' % name)
    def group(code, kind='ELLIPTIC_CURVE'):
        # a member of the named group registry as the data tables describe it: code, and the group with its type
        m = Obj(value=Obj(code=code, named_group=Obj(value=Obj(group_type=token('NamedGroupType.' + kind), size=256), name='G%d' % code)), _cls='TlsNamedCurve')
        m._isa = {'TlsNamedCurve', 'Enum', 'CryptoDataEnumCodedBase'}
        return m
    # the classes that hold the two lists: the list is stored in the attrs field the class declares, whatever its name; an
    # attribute of another name that ja3 reads is a property of the class and is evaluated from its own statements
    ext_classes = {}
    for k in ctx.model.repo_classes():
        if k.is_subclass_of('TlsExtensionParsed') and not k.abstract_methods and k.resolve('get_extension_type') is not None:
            t = ctx.interp.const_call(k, 'get_extension_type')
            tn = getattr(t, 'name', None)
            if tn in ('SUPPORTED_GROUPS', 'EC_POINT_FORMATS'):
                own = [fl.name for fl in k.attrs_fields() if fl.name != 'extension_type']
                if len(own) == 1:
                    ext_classes[tn] = (k, own[0])

    class Ext(Native):
        def __init__(self, kind, items):
            k, field = ext_classes[kind]
            self._repo_class = k
            self.extension_type = ext_tokens[kind]
            setattr(self, field, list(items))
    cipher_sets = [('plain', [member(4865), member(49199)], [4865, 49199]),
                   ('grease', [invalid(0x0a0a, GREASE, 2), member(4865), invalid(0x1234, UNKNOWN, 2)], [4865, 0x1234])]
    group_sets = [('plain', [group(29), group(23), group(256, 'FINITE_FIELD'), group(24)], [29, 23, 256, 24]),
                  ('grease', [invalid(0x1a1a, GREASE, 2), group(29), invalid(0x9999, UNKNOWN, 2), group(260, 'FINITE_FIELD')], [29, 0x9999, 260])]
    format_sets = [('plain', [member(0), member(1), member(2)], [0, 1, 2]), ('grease', [invalid(0x0b, GREASE, 1), member(0), invalid(0x05, UNKNOWN, 1)], [0, 5])]
    layouts = [('none', []), ('sni-only', ['SERVER_NAME']), ('groups-formats', ['SERVER_NAME', 'SUPPORTED_GROUPS', 'EC_POINT_FORMATS', 'SESSION_TICKET']),
               ('formats-groups', ['EC_POINT_FORMATS', 'SUPPORTED_GROUPS']), ('formats-only', ['SERVER_NAME', 'EC_POINT_FORMATS']),
               ('groups-only', ['SUPPORTED_GROUPS']), ('grease-ext', ['GREASE', 'SUPPORTED_GROUPS', 'UNKNOWN', 'EC_POINT_FORMATS'])]
    section_names = [sec['name'] for sec in spec['sections']]
    bad = {}
    n = 0
    # helper methods of the class (a shared GREASE filter, a method collecting the extension sections ...) are evaluated from
    # their own statements
    from ..miniexec import class_call_hook
    chook = class_call_hook(f.cls, hook, ctx.model)
    cnames = chook.name_hook_for(f.module, names)
    try:
        for version in (0x0303, 0x0301, 0x0300):
            for (cn, ciphers, cwant), (gn, groups, gwant), (fn, formats, fwant), (ln, layout) in itertools.product(cipher_sets, group_sets, format_sets, layouts):
                if version != 0x0303 and (cn, gn, fn) != ('plain', 'plain', 'plain'):
                    continue
                n += 1
                report.count('C15.R1')
                exts = ExtList()
                ext_want, grp_want, fmt_want = [], [], []
                for kind in layout:
                    if kind == 'GREASE':
                        exts.append(Obj(extension_type=invalid(0x2a2a, GREASE, 2)))
                    elif kind == 'UNKNOWN':
                        exts.append(Obj(extension_type=invalid(0x4567, UNKNOWN, 2)))
                        ext_want.append(0x4567)
                    else:
                        e = Obj(extension_type=ext_tokens[kind])
                        if kind == 'SUPPORTED_GROUPS':
                            e = Ext(kind, groups) if kind in ext_classes else Obj(extension_type=ext_tokens[kind], elliptic_curves=list(groups))
                            grp_want = gwant
                        if kind == 'EC_POINT_FORMATS':
                            e = Ext(kind, formats) if kind in ext_classes else Obj(extension_type=ext_tokens[kind], point_formats=list(formats))
                            fmt_want = fwant
                        exts.append(e)
                        ext_want.append(EXT[kind])
                me = Obj(protocol_version=Obj(compose=lambda v=version: v.to_bytes(2, 'big')), cipher_suites=list(ciphers), extensions=exts,
                         fallback_scsv=False, empty_renegotiation_info_scsv=False)
                got = Evaluator({'self': me}, chook, cnames).function(f.node)
                want = [str(version), '-'.join(map(str, cwant)), '-'.join(map(str, ext_want)), '-'.join(map(str, grp_want)), '-'.join(map(str, fmt_want))]
                if not isinstance(got, str):
                    bad.setdefault('sections', 'ja3 returns %r' % (got,))
                    continue
                parts = got.split(spec['section_separator'])
                if len(parts) != len(want):
                    bad.setdefault('sections', 'ja3 has %d sections (%r), the definition has %d' % (len(parts), got, len(want)))
                    continue
                for name, g, w in zip(section_names, parts, want):
                    if g != w:
                        key = {'ciphers': 'cipher_suites', 'groups': 'named_curves', 'formats': 'ec_point_formats'}.get(name, name)
                        src = next((sec['source'].split('.')[0] for sec in spec['sections'] if sec['name'] == name), name)
                        bad.setdefault(src, 'hello (version %#06x, ciphers %s, extensions %s, groups %s, formats %s): the %s section is %r, the definition gives %r' % (
                            version, cn, ln, gn, fn, name, g, w))
    except Unsupported:
        return False
    except Raised as e:
        report.add('C15.R1', cons + '@raises', 'ja3 raises %s on a well-formed hello' % e.what[:80])
        return True
    for src, detail in sorted(bad.items()):
        report.add('C15.R1', cons + '@section[%s]' % src, detail)
    # which attributes the string depends on, by difference: the same hello with one attribute changed
    try:
        def value_of(**over):
            exts = ExtList()
            attrs = dict(protocol_version=Obj(compose=lambda: (0x0303).to_bytes(2, 'big')), cipher_suites=[member(4865)], extensions=exts,
                         fallback_scsv=False, empty_renegotiation_info_scsv=False)
            attrs.update(over)
            return Evaluator({'self': Obj(**attrs)}, chook, cnames).function(f.node)
        base = value_of()
        consumed = set()
        for attr, other in (('cipher_suites', [member(4865), member(49199)]), ('fallback_scsv', True), ('empty_renegotiation_info_scsv', True)):
            if value_of(**{attr: other}) != base:
                consumed.add(attr)
        CONSUMED[id(ctx)] = consumed
    except (Unsupported, Raised):
        CONSUMED.pop(id(ctx), None)
    report.sample({'rule': 'C15.R1', 'tabulated_hellos': n, 'dimensions': 'cipher suites x groups x point formats (plain / GREASE+unknown) x 7 extension layouts, 3 versions'})
    return True
