"""C17 -- TLS protocol versions form a strict total order consistent with equality."""
from __future__ import annotations

import ast
import json
import os

from ..model import ClassInfo, EnumMember, dotted
from ..values import ClassV, ObjV, Sym, Unknown, show

META = {
    'explanation': (
        'The comparator TlsProtocolVersion.__lt__ (and __eq__) inspects a version only through constants of the '
        'version table (major/minor bytes of the code, the TLS1_3 member). The analyser partially evaluates the '
        'AST of __lt__/__eq__/major/minor/is_draft with its own constant propagator for every ordered pair of '
        'members of the TlsVersion table read from the dependency JSON (finite, complete), obtaining a decision '
        'matrix without importing or running the package. On the matrix it decides irreflexivity, asymmetry, '
        'totality (trichotomy with __eq__), transitivity over all triples, and equality of the induced chain '
        'with the order written down from the property (sa/specs/order.json). R2 checks the eq/hash contract '
        'structurally (attr.s(eq=False, hash=True), total_ordering, __eq__ on the code, alias-free codes).'
        ' R3: every rich comparison operator found in the MRO (an inherited one is not derived by total_ordering) agrees with the (<, ==) matrix; wire bytes of compose() are folded from the composer layout.'),
    'assumptions': ['functools.total_ordering derives >, <=, >= from __lt__ and __eq__ as documented',
                    'attrs hash=True hashes the tuple of fields (here: the version member)'],
    'trusted_base': ['python ast', 'sa.interp constant propagation', 'cryptodatahub tls/version.json', 'sa/specs/order.json'],
    'exhaustive': True,
}

META['explanation'] += ' ' + 'R1: __lt__ and __eq__ folded over all ordered pairs of the version table (results merged with an AttributeError handler are settled for version operands) and checked against the order axioms and the specified chain. R4: explicit comparison methods answer NotImplemented for operands that are not versions.'

META['explanation'] += ' ' + "Comparisons the abstract run does not fold to a constant are evaluated from the method's own statements (properties, string methods) on model version objects."

HERE = os.path.dirname(os.path.dirname(os.path.abspath(__file__)))


def settle(v):
    """phi(<bool>, NotImplemented): the merge of a try body that computed the answer with an ``except AttributeError: return
    NotImplemented`` handler.  Both operands are version objects here, whose attributes exist, so the handler is not taken; a
    method that *decides* NotImplemented for a pair of versions yields NotImplemented alone and stays unfoldable."""
    from ..values import Sym
    if isinstance(v, Sym) and v.op == 'phi':
        rest = [a for a in v.args if 'NotImplemented' not in show(a)]
        if len(rest) == 1 and isinstance(rest[0], bool) and len(rest) < len(v.args):
            return rest[0]
    return v


def concrete_comparison(ctx, cls, ver, func, a, b):
    """the comparison evaluated from the statements of the method (sa.miniexec; properties and helpers through the class chain,
    string methods and arithmetic with their real meaning) on two version objects: a truth value, or None when the method leaves
    the evaluable subset.  Used where the abstract run does not fold the comparison to a constant."""
    from ..miniexec import EnumVal, Evaluator, Native, Raised, Unsupported, class_call_hook

    class Version(Native):
        _repo_class = cls
        _isa = {k.name for k in cls.mro if hasattr(k, 'name')}

        def __init__(self, name):
            self.version = EnumVal.of(ver, name)
    hook = class_call_hook(cls, None, ctx.model)
    params = [p.arg for p in func.node.args.args]
    try:
        got = Evaluator({params[0]: Version(a), params[1]: Version(b)}, hook, hook.name_hook_for(func.module, None)).function(func.node)
    except (Unsupported, Raised, AttributeError, TypeError, ValueError, KeyError, IndexError):
        return None
    return got if isinstance(got, bool) else None


def check(ctx, report):
    model, it = ctx.model, ctx.interp
    cls = model.cls('TlsProtocolVersion')
    ver = model.cls('TlsVersion')
    report.rule('C17.R1', '__lt__ decision matrix over all ordered pairs: strict total order equal to the specified chain')
    report.rule('C17.R2', 'eq/hash contract: eq on code, hash on member, codes alias free')
    lt = cls.resolve('__lt__')
    eq = cls.resolve('__eq__')
    if lt is None or eq is None or lt.cls is not cls:
        report.error('C17.R1: TlsProtocolVersion.__lt__/__eq__ not found')
        return
    report.touch(lt)
    report.touch(eq)
    members = [EnumMember(ver, n) for n in ver.enum_members]
    if len(members) < 30:
        report.error('C17.R1: version table has only %d members' % len(members))
        return
    objs = {}
    for m in members:
        o = ObjV(cls, {'version': m})
        objs[m.name] = o
    fr = it.new_frame(None, cls.module, recv=ClassV(cls), defcls=cls)
    fr.quiet = True
    ltm, eqm = {}, {}
    it.dunder_cmp = True
    cons = cls.construct + '.__lt__'
    for a in members:
        for b in members:
            r = it.call_function(lt, objs[a.name], [objs[b.name]], {}, fr)
            e = it.call_function(eq, objs[a.name], [objs[b.name]], {}, fr)
            report.count('C17.R1', 1)
            r, e = settle(r), settle(e)
            if not isinstance(r, bool):
                r = concrete_comparison(ctx, cls, ver, lt, a.name, b.name)
            if not isinstance(e, bool):
                e = concrete_comparison(ctx, cls, ver, eq, a.name, b.name)
            if not isinstance(r, bool) or not isinstance(e, bool):
                report.error('C17.R1: comparator not foldable for (%s, %s): %s / %s' % (a.name, b.name, show(r), show(e)))
                return
            ltm[(a.name, b.name)] = r
            eqm[(a.name, b.name)] = e
    names = [m.name for m in members]
    codes = {n: ver.enum_members[n].get('code') for n in names}
    # eq must be equality of codes
    for a in names:
        for b in names:
            if eqm[(a, b)] != (codes[a] == codes[b]):
                report.add('C17.R2', cls.construct + '.__eq__@pair[%s,%s]' % (a, b), '__eq__ disagrees with code equality')
    bad_irrefl = [a for a in names if ltm[(a, a)]]
    for a in bad_irrefl:
        report.add('C17.R1', cons + '@irreflexive[%s]' % a, '%s < %s holds' % (a, a))
    for i, a in enumerate(names):
        for b in names[i + 1:]:
            n = int(ltm[(a, b)]) + int(ltm[(b, a)]) + int(eqm[(a, b)])
            if n != 1:
                report.add('C17.R1', cons + '@trichotomy[%s,%s]' % (a, b),
                           'lt(a,b)=%s lt(b,a)=%s eq=%s: not exactly one of <, ==, > holds' % (ltm[(a, b)], ltm[(b, a)], eqm[(a, b)]))
    # transitivity over all triples; report one witness per (region class) to keep the list short
    witnesses = {}
    triples = 0
    for a in names:
        for b in names:
            if not ltm[(a, b)]:
                continue
            for c in names:
                triples += 1
                if ltm[(b, c)] and not ltm[(a, c)]:
                    key = (region(codes[a]), region(codes[b]), region(codes[c]))
                    witnesses.setdefault(key, (a, b, c))
    report.count('C17.R1', triples, nontrivial=triples)
    for key, (a, b, c) in sorted(witnesses.items()):
        report.add('C17.R1', cons + '@transitivity[%s<%s<%s]' % key,
                   'intransitive: %s < %s and %s < %s but not %s < %s' % (a, b, b, c, a, c),
                   witness={'a': a, 'b': b, 'c': c})
    # chain equals the specified order
    with open(os.path.join(HERE, 'specs', 'order.json')) as f:
        spec = json.load(f)
    rank = {}
    for n in names:
        rank[n] = spec_rank(spec, n, codes[n])
        if rank[n] is None:
            report.error('C17.R1: version %s (code %#x) has no place in sa/specs/order.json' % (n, codes[n]))
            return
    mism = {}
    for a in names:
        for b in names:
            ra, rb = rank[a], rank[b]
            if ra[0] != rb[0]:
                want = ra[0] < rb[0]
            elif ra[1] == rb[1] and ra[2] is not None:
                want = ra[2] < rb[2]
            elif a == b:
                want = False
            else:
                continue        # the property leaves this pair's direction open (experiment vs draft ...)
            if ltm[(a, b)] != want:
                key = (region(codes[a]), region(codes[b]))
                mism.setdefault(key, (a, b, want))
    for key, (a, b, want) in sorted(mism.items()):
        report.add('C17.R1', cons + '@order[%s,%s]' % key,
                   'specified order says %s %s %s, comparator says otherwise' % (a, '<' if want else '>=', b),
                   witness={'a': a, 'b': b})
    report.sample({'rule': 'C17.R1', 'members': len(names), 'pairs': len(ltm), 'triples': triples,
                   'chain': [n for n in sorted(names, key=lambda x: (rank[x][0], rank[x][1], rank[x][2] or 0))][:12]})
    operator_table(ctx, report, cls, members, objs, fr, ltm, eqm, codes)
    foreign_operands(ctx, report, cls)
    # R2 structural
    decs = cls.decorators
    report.count('C17.R2', 4)
    explicit = [op for op in ('__le__', '__gt__', '__ge__') if cls.resolve(op) is not None and not cls.resolve(op).module.external]
    if 'functools.total_ordering' not in decs and len(explicit) < 3:
        # the remaining operators have to come from somewhere: the decorator, or explicit definitions (checked one by one by R3)
        report.add('C17.R2', cls.construct + '@decorator[total_ordering]',
                   'functools.total_ordering is missing and %s not defined: <=, > or >= of two versions raises TypeError' % ', '.join(
                       op for op in ('__le__', '__gt__', '__ge__') if op not in explicit))
    kw = cls.attrs_kw
    if not (isinstance(kw.get('eq'), ast.Constant) and kw['eq'].value is False):
        report.add('C17.R2', cls.construct + '@decorator[eq]', 'attr.s(eq=False) missing: attrs would generate a field-wise __eq__')
    if not (isinstance(kw.get('hash'), ast.Constant) and kw['hash'].value is True):
        report.add('C17.R2', cls.construct + '@decorator[hash]', 'attr.s(hash=True) missing')
    fields = [f.name for f in cls.attrs_fields()]
    if fields != ['version']:
        report.add('C17.R2', cls.construct + '@fields', 'hash covers fields %s, __eq__ compares the version code only' % fields)
    # subclasses inherit __eq__ / __lt__ (instances of the family compare by code): a subclass that is attrs-decorated itself gets a
    # generated __hash__ of its own - attrs salts the hash per class - or a generated field-wise __eq__ that is exact about the class,
    # so a == b with hash(a) != hash(b) (sets and dict keys disagree with lists), or a != b for the same version
    for k in model.all_subclasses(cls):
        if k is cls or k.module.external:
            continue
        report.count('C17.R2')
        own = [m for m in ('__eq__', '__ne__', '__hash__') if m in k.methods]
        if own:
            report.add('C17.R2', k.construct + '@redefines[%s]' % ','.join(own), 'subclass %s of %s defines %s itself: versions of the two classes no longer '
                       'compare / hash by the rules decided for %s' % (k.name, cls.name, ', '.join(own), cls.name))
        if getattr(k, 'attrs_decorated', False):
            kw2 = getattr(k, 'attrs_kw', None) or {}
            def flag(name, default):
                v = kw2.get(name)
                return v.value if isinstance(v, ast.Constant) else default
            eq_on = flag('eq', flag('cmp', True))
            hash_on = flag('hash', flag('unsafe_hash', None))
            if eq_on or hash_on or flag('order', False):
                report.add('C17.R2', k.construct + '@decorator[generated]',
                           'subclass %s of %s is decorated with attr.s(%s): attrs generates %s for it - the hash is salted per class, the equality is exact '
                           'about the class - so equal versions of the two classes hash differently or compare unequal' % (
                               k.name, cls.name, ', '.join('%s=%s' % (a, ast.unparse(b)) for a, b in kw2.items()),
                               ' / '.join(x for x, on in (('__eq__', eq_on), ('__hash__', hash_on), ('ordering', flag('order', False))) if on)))
    seen = {}
    for n in names:
        report.count('C17.R2')
        if codes[n] in seen:
            report.add('C17.R2', 'cryptodatahub/tls/version.json@alias[%s,%s]' % (seen[codes[n]], n), 'two versions share code %#x' % codes[n])
        seen[codes[n]] = n
    report.floor('C17.R1', 900, 'ordered pairs')


def region(code):
    major = code >> 8
    if code == 0x0304:
        return 'TLS1_3'
    return {0: 'ssl2', 3: 'tls', 0x7e: 'experiment', 0x7f: 'draft'}.get(major, 'major%x' % major)


def spec_rank(spec, name, code):
    """(position in the chain, family, minor-if-ordered) from the specification table."""
    for i, ent in enumerate(spec['chain']):
        if ent.get('name') == name:
            return (i, name, None)
        for fam in ent.get('group', []):
            if (code >> 8) == fam['major'] and code != 0x0304:
                return (i, fam['family'], (code & 0xff) if fam.get('ordered_by_minor') else None)
    return None


def wire_bytes(ctx, cls, member_code):
    """bytes TlsProtocolVersion.compose() writes for a member, folded from the extracted composer layout"""
    from ..symeval import NotEvaluable, evaluate
    from ..values import SelfV
    cn = ctx.canon.canon(cls, 'compose')
    out = b''

    def leaf(v):
        if isinstance(v, SelfV) and tuple(v.path) == ('version', 'value', 'code'):
            return member_code
        raise NotEvaluable(show(v))
    for e in cn.elements:
        if e.kind != 'u' or not isinstance(e.w, int):
            raise NotEvaluable('composer element %s' % e.sig())
        out += (evaluate(e.val, leaf) & ((1 << (8 * e.w)) - 1)).to_bytes(e.w, 'big' if e.order != 'le' else 'little')
    return out


def operator_table(ctx, report, cls, members, objs, fr, ltm, eqm, codes):
    """R3: all six rich comparison operators agree with the (<, ==) matrix. functools.total_ordering only supplies the
    operators that are *not already defined anywhere in the MRO*: an operator a base class defines explicitly is used as
    it is, so it is tabulated on its own (wire bytes of compose() folded from the composer layout) and compared with what
    total_ordering would have derived"""
    from ..symeval import NotEvaluable, evaluate
    from ..values import BytesV
    it = ctx.interp
    report.rule('C17.R3', 'every rich comparison operator in the MRO agrees with the (<, ==) matrix')
    names = [m.name for m in members]
    derived = {'__le__': lambda a, b: ltm[(a, b)] or eqm[(a, b)], '__gt__': lambda a, b: not ltm[(a, b)] and not eqm[(a, b)],
               '__ge__': lambda a, b: not ltm[(a, b)], '__ne__': lambda a, b: not eqm[(a, b)]}
    wires = {}

    def leaf(v):
        if isinstance(v, BytesV) and len(v.parts) == 1 and isinstance(v.parts[0], tuple) and v.parts[0][0] == 'nested' and isinstance(v.parts[0][1], ObjV):
            m = v.parts[0][1].attrs.get('version')
            if isinstance(m, EnumMember):
                if m.name not in wires:
                    wires[m.name] = wire_bytes(ctx, cls, codes[m.name])
                return wires[m.name]
        raise NotEvaluable(show(v))
    for op, want in derived.items():
        f = cls.resolve(op)
        report.count('C17.R3')
        if f is None or f.module.external:
            continue        # supplied by total_ordering (or object.__ne__ = not __eq__): derived from the matrix by definition
        report.touch(f)
        bad = None
        try:
            for a in names:
                for b in names:
                    report.count('C17.R3')
                    r = it.call_function(f, objs[a], [objs[b]], {}, fr)
                    if not isinstance(r, bool):
                        r = bool(evaluate(r, leaf))
                    if r != want(a, b):
                        bad = bad or (a, b, r)
        except NotEvaluable as e:
            report.add('C17.R3', '%s@operator[%s]' % (f.construct, op),
                       '%s is defined explicitly (total_ordering will not derive it from __lt__) and cannot be folded to decide that it agrees with <: %s' % (op, e))
            continue
        if bad:
            a, b, r = bad
            report.add('C17.R3', '%s@operator[%s]' % (f.construct, op),
                       '%s is defined in %s, so functools.total_ordering does not derive it: %s %s %s is %s while < and == say %s' % (
                           op, f.cls.name if f.cls else '?', a, {'__le__': '<=', '__gt__': '>', '__ge__': '>=', '__ne__': '!='}[op], b, r, want(a, b)))
    # the class's own __lt__ must be the one the matrix was computed from (an inherited explicit __lt__ is shadowed: fine)


# ---- R4: operands that are not versions --------------------------------------------------------------------------------

def foreign_operands(ctx, report, cls):
    """A parsed supported-versions list holds version objects next to GREASE / unknown code point wrappers, so ``version in
    vector``, ``vector.index(version)`` and ``==`` meet operands of another class, and which one is met first depends on the
    order of arrival.  The explicit comparison methods must answer NotImplemented for them: every read of an attribute of
    ``other`` comes after an ``isinstance(other, ...)`` test whose failure returns NotImplemented (or sits in a handler of
    AttributeError that does)."""
    import ast
    report.rule('C17.R4', 'explicit comparison methods return NotImplemented for operands that are not versions (membership tests do not depend on what else is in the list)')
    for op in ('__eq__', '__ne__', '__lt__', '__le__', '__gt__', '__ge__'):
        f = cls.resolve(op)
        if f is None or f.module.external:
            continue
        report.count('C17.R4')
        report.touch(f)
        args = [a.arg for a in f.node.args.args]
        if len(args) < 2:
            continue
        other = args[1]
        guarded_from = None
        for st in f.node.body:
            if isinstance(st, ast.If) and isinstance(st.test, ast.UnaryOp) and isinstance(st.test.op, ast.Not) and \
                    isinstance(st.test.operand, ast.Call) and ast.unparse(st.test.operand.func) == 'isinstance' and \
                    ast.unparse(st.test.operand.args[0]) == other and \
                    any(isinstance(x, ast.Return) and ast.unparse(x.value) == 'NotImplemented' for x in st.body):
                guarded_from = st.end_lineno
                break
        for n in ast.walk(f.node):
            if isinstance(n, ast.Attribute) and isinstance(n.value, ast.Name) and n.value.id == other:
                if guarded_from is not None and n.lineno > guarded_from:
                    continue
                in_try = False
                for t in ast.walk(f.node):
                    if isinstance(t, ast.Try) and any(n is x for b in t.body for x in ast.walk(b)) and \
                            any(h.type is None or 'AttributeError' in ast.unparse(h.type) for h in t.handlers):
                        in_try = True
                if not in_try:
                    report.add('C17.R4', '%s@foreign-operand' % f.construct,
                               '%s reads %s.%s without having established that the operand is a version: comparing with a GREASE wrapper, None or an enum '
                               'member raises AttributeError, so `version in parsed_list` depends on the position of the GREASE entry' % (op, other, n.attr))
                    break
    report.floor('C17.R4', 2, 'explicit comparison methods')
