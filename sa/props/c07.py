"""C07 -- SSH banner, packets, key exchange messages and host keys follow the RFCs."""
from __future__ import annotations

import ast
import json
import os

from .. import speccheck
from ..trace import Alt, Loop, Op, walk
from ..values import BytesV, FieldV, Sym, show

META = {
    'explanation': (
        'R1/R2: parser and composer layouts of every SSH message, host key and OpenSSH certificate vs sa/specs/ssh.json '
        '(RFC 4251 data types, RFC 4253 4.2/6/7.1/8/11, RFC 4419, RFC 5656 3.1, RFC 8709, PROTOCOL.certkeys), message numbers '
        'and reason codes. R3 padding rule by a congruence domain: the arithmetic extracted from SshRecordBase.compose is '
        'evaluated for each of the 8 residues of the payload length mod 8 (the expression depends on the length only through '
        '(len+5) % 8 and linearly): padding in 4..255, 4+1+payload+padding = 0 mod 8, packet_length = 1+payload+padding -- '
        'this covers all payload lengths. R4: the composer emits exactly padding bytes of padding and the parser skips exactly '
        'padding_length. R5: the sign-byte decision of compose_ssh_mpint as a truth table over (negative, non-empty, top bit) '
        'must be: 00 prefix iff non-negative and top bit set, ff prefix iff negative and top bit clear (RFC 4251 5); the '
        'length written counts the prefix. R6: banner grammar pieces in RFC 4253 4.2 order, CR LF terminated, 255 byte limit.'
        ' R5 additionally tabulates the whole mpint pipeline for non-negative values (C11.R6). R7: software version tokens over the ParserText model. R8: the name-list scanner evaluated from its own statements.'),
    'assumptions': ['minimality of the magnitude bytes produced by _compose_mpint for all integers is not decided',
                    'sa/specs/ssh.json transcribed by hand'],
    'trusted_base': ['sa/specs/ssh.json', 'sa.interp/layout/canon/compare/spec'],
    'exhaustive': True,
}

META['explanation'] += ' ' + 'R9: explicit rejections against the reviewed table. R10: certificate validity bounds through the shared timestamp primitives. Spec items of the messages name the attribute they carry (consistent swaps on both sides are findings).'
META['explanation'] += ' ' + "R11: the curve parameter of EdDSA keys per algorithm name (RFC 8709), by evaluation. R12: the SEC1 point of ECDSA keys evaluated for coordinates with leading zero octets, with the dependency's octet_bit_string modelled as asn1crypto's from_coords. The name-list table holds lists with an empty name in every position (must be refused)."

META['explanation'] += ' ' + 'R13: what the composer hands to a primitive is the stored attribute, never a constant in its place. R14: algorithm names of the name-lists are matched exactly (shared with C10.R10). R15: the subtags a language tag accepts are those of RFC 3066 (evaluated setters).'
META['explanation'] += ' ' + 'R16: no de-duplication (set / mapping round trip, membership guarded append) in functions of the SSH and common modules outside the parse functions (shared with C10.R16).'
MODULES = {'cryptoparser.ssh.record', 'cryptoparser.ssh.subprotocol', 'cryptoparser.ssh.key'}
HERE = os.path.dirname(os.path.dirname(os.path.abspath(__file__)))


def check(ctx, report):
    with open(os.path.join(HERE, 'reviewed.json')) as f:
        reviewed = json.load(f).get('C07', {})
    speccheck.run(ctx, report, 'C07', 'ssh.json', MODULES, reviewed)
    padding(ctx, report)
    from .. import rejections
    rejections.check(ctx, report, 'C07.R9', 'ssh')
    mpint_sign(ctx, report)
    software_versions(ctx, report)
    eddsa_curves(ctx, report)
    ecdsa_points(ctx, report)
    # algorithm names of the KEXINIT name-lists are matched exactly (RFC 4251 6: names are case-sensitive); shared with C10.R10
    from .c10 import registry_names_exact
    registry_names_exact(ctx, report, RULE='C07.R14')
    # what a message or certificate holds twice is composed twice (a repeated name of a name-list, a repeated network of a
    # source-address option): no de-duplication on the writing side; rule shared with C10.R16
    from .c10 import no_item_collapse
    no_item_collapse(ctx, report, RULE='C07.R16', only=lambda f: f.module.relpath.startswith(('cryptoparser/ssh/', 'cryptoparser/common/')),
                     title='SSH composers write every item of a stored list: no de-duplication through a set / mapping or a membership test')
    language_tags(ctx, report)
    report.rule('C07.R8', 'name-lists: split at commas, order kept, unknown names preserved one by one')
    from ..textlists import string_array_table
    string_array_table(ctx, report, 'C07.R8', 'ssh')
    banner(ctx, report)
    # certificate validity bounds (uint64 seconds, all-ones = forever) go through the shared timestamp primitives (tabulation shared with C11.R5)
    from .c11 import flags_and_timestamps
    report.rule('C07.R10', 'OpenSSH certificate valid after / valid before: the primitive writes seconds since the epoch in UTC, all-ones for "forever"')
    flags_and_timestamps(ctx, report, R4='C07.R10', R5='C07.R10')
    report.floor('C07.R10', 100, 'tabulated flag words and instants')
    from .c11 import fields_written_as_stored
    fields_written_as_stored(ctx, report, RULE='C07.R13', kinds=None, modules={'cryptoparser.ssh.key', 'cryptoparser.ssh.subprotocol', 'cryptoparser.ssh.record'},
                             title='SSH messages, keys and certificates: what the composer hands to a primitive is the stored attribute, never a constant in its place')
    report.floor('C07.R13', 150, 'fields of SSH structures')
    report.floor('C07.R1', 80, 'layout comparisons')


# ---- R3 / R4 ----------------------------------------------------------------------------------------------------

from ..symeval import NotEvaluable      # noqa: E402  (one exception class for both evaluators)


def ev(v, L, alt_cond):
    """evaluate a Sym tree of the padding arithmetic with len(payload) := L (sa.symeval; a phi without a recorded branch
    condition is resolved through the condition of the function's only branch)"""
    from ..symeval import evaluate

    def leaf(x):
        if isinstance(x, Sym) and x.op in ('len', 'clen', 'composed_length'):
            return L
        if isinstance(x, Sym) and x.op == 'range' and len(x.args) == 1:
            return evaluate(x.args[0], leaf)
        if isinstance(x, Sym) and x.op == 'phi' and len(x.args) == 2 and alt_cond is not None:
            return evaluate(x.args[0], leaf) if evaluate(alt_cond, leaf) else evaluate(x.args[1], leaf)
        raise NotEvaluable(show(x))
    return evaluate(v, leaf)


def padding(ctx, report):
    report.rule('C07.R3', 'padding arithmetic for every residue of the payload length mod 8')
    report.rule('C07.R4', 'composer emits exactly padding bytes; parser skips exactly padding_length')
    c = ctx.model.cls('SshRecordInit')
    f = c.resolve('compose')
    report.touch(f)
    res = ctx.canon.layout(c, 'compose').result
    ops = [n for n in walk(res.block) if isinstance(n, Op) and n.side == 'compose']
    alts = [n for n in walk(res.block) if isinstance(n, Alt)]
    loops = [n for n in walk(res.block) if isinstance(n, Loop)]
    u4 = [o for o in ops if o.prim == 'compose_numeric' and o.args.get('size') == 4]
    u1 = [o for o in ops if o.prim == 'compose_numeric' and o.args.get('size') == 1 and not isinstance(o.args.get('value'), int)]
    cons = f.construct
    if len(u4) != 1 or len(u1) != 1:
        report.error('C07.R3: cannot find packet_length / padding_length in SshRecordBase.compose (%d, %d)' % (len(u4), len(u1)))
        return
    alt_cond = alts[0].cond if alts else None
    plen_v, pad_v = u4[0].args['value'], u1[0].args['value']
    try:
        for r in range(8):
            for k in (range(0, 4376) if ctx.thorough else (0, 1, 4375)):    # periodic in the length: three periods as a cross check; thorough: every length 0..35007
                L = r + 8 * k
                report.count('C07.R3')
                pad = ev(pad_v, L, alt_cond)
                pl = ev(plen_v, L, alt_cond)
                if not 4 <= pad <= 255:
                    report.add('C07.R3', cons + '@padding-range[%d]' % r, 'payload length = %d (mod 8): padding is %d, RFC 4253 6 demands 4..255' % (r, pad))
                if (4 + 1 + L + pad) % 8 != 0:
                    report.add('C07.R3', cons + '@alignment[%d]' % r, 'payload length = %d (mod 8): total packet size %d is not a multiple of 8' % (r, 4 + 1 + L + pad))
                if pl != 1 + L + pad:
                    report.add('C07.R3', cons + '@packet-length[%d]' % r, 'payload length = %d (mod 8): packet_length %d != 1 + payload + padding = %d' % (r, pl, 1 + L + pad))
                if k == 0:
                    report.sample({'rule': 'C07.R3', 'payload_mod_8': r, 'padding': pad, 'packet_length_minus_payload': pl - L})
    except NotEvaluable as e:
        report.add('C07.R3', cons + '@arithmetic', 'padding arithmetic is no longer a function of (payload length) through +,-,%%,compare: %s' % e)
        return
    # periodicity argument holds only if the length enters through `% 8` or linearly: check the shape
    report.count('C07.R3')
    if '% 8' not in show(pad_v):
        report.add('C07.R3', cons + '@shape', 'padding no longer depends on the payload length modulo 8: the residue argument does not apply')
    # R4
    report.count('C07.R4', 2)
    # how many padding bytes are written: a loop over range(n) emitting one byte per pass, or one raw write of n * b'\x00';
    # n has to equal the padding_length field for every payload length (compared by evaluation, not by spelling)
    emitted = []
    for lp in loops:
        if isinstance(lp.iterable, Sym) and lp.iterable.op == 'range' and len(lp.iterable.args) == 1:
            body = [n for n in walk(lp.body) if isinstance(n, Op)]
            if len(body) == 1 and body[0].args.get('size') == 1:
                emitted.append(lp.iterable.args[0])
            else:
                report.add('C07.R4', cons + '@padding-bytes', 'each padding iteration must emit exactly one byte')
    for o in ops:
        v = o.args.get('value')
        if o.prim == 'compose_raw' and isinstance(v, Sym) and v.op == 'mul' and len(v.args) == 2:
            a, b = v.args
            if isinstance(b, bytes) and len(b) == 1:
                emitted.append(a)
            elif isinstance(a, bytes) and len(a) == 1:
                emitted.append(b)

    def same_count(x):
        try:
            return all(ev(x, L, alt_cond) == ev(pad_v, L, alt_cond) for L in list(range(0, 24)) + [255, 256, 35000, 35007])
        except NotEvaluable:
            return False
    if not any(same_count(x) for x in emitted):
        report.add('C07.R4', cons + '@padding-bytes', 'the number of padding bytes emitted (%s) is not the padding_length written (%s)' % (
            ', '.join(show(x) for x in emitted) if emitted else 'none', show(pad_v)))
    pres = ctx.canon.layout(c, 'parse').result
    raws = [n for n in walk(pres.block) if isinstance(n, Op) and n.prim == 'parse_raw']
    ok = any(isinstance(o.args.get('size'), FieldV) and o.args['size'].key == 'padding_length' for o in raws)
    if not ok:
        report.add('C07.R4', c.resolve('_parse').construct + '@padding-skip', 'the parser does not skip exactly padding_length bytes of padding')


# ---- R5 ---------------------------------------------------------------------------------------------------------

def beval(node, env):
    """boolean/int abstraction of the sign decision"""
    if isinstance(node, ast.BoolOp):
        vals = [beval(v, env) for v in node.values]
        if isinstance(node.op, ast.And):
            r = True
            for v in vals:
                r = r and v
            return r
        r = False
        for v in vals:
            r = r or v
        return r
    if isinstance(node, ast.UnaryOp) and isinstance(node.op, ast.Not):
        return not beval(node.operand, env)
    if isinstance(node, ast.Compare) and len(node.ops) == 1:
        a, b = beval(node.left, env), beval(node.comparators[0], env)
        op = node.ops[0]
        if isinstance(op, ast.NotEq):
            return a != b
        if isinstance(op, ast.Eq):
            return a == b
        if isinstance(op, ast.GtE):
            return a >= b
        if isinstance(op, ast.Gt):
            return a > b
        if isinstance(op, ast.Lt):
            return a < b
        if isinstance(op, ast.LtE):
            return a <= b
        if isinstance(op, ast.Is):
            return a is b
    if isinstance(node, ast.Call) and isinstance(node.func, ast.Name) and node.func.id == 'bool' and len(node.args) == 1:
        return bool(beval(node.args[0], env))
    if isinstance(node, ast.BinOp) and isinstance(node.op, ast.BitAnd):
        return beval(node.left, env) & beval(node.right, env)
    if isinstance(node, ast.Subscript) and isinstance(node.value, ast.Name) and node.value.id == 'mpint_bytes':
        return 0x80 if env['topbit'] else 0x7f
    if isinstance(node, ast.Name):
        if node.id == 'mpint_bytes':
            return env['nonempty']
        if node.id == 'negative':
            return env['negative']
    if isinstance(node, ast.Constant):
        return node.value
    raise NotEvaluable(ast.unparse(node))


def mpint_sign(ctx, report):
    report.rule('C07.R5', 'sign byte of SSH mpints: truth table over (negative, non-empty, top bit)')
    cb = ctx.model.cls('ComposerBinary')
    f = cb.methods.get('compose_ssh_mpint')
    if f is None:
        report.error('C07.R5: ComposerBinary.compose_ssh_mpint vanished')
        return
    report.touch(f)
    cons = f.construct
    # decided by evaluating the whole composer / parser pipeline against RFC 4251 section 5 (sign octet, length, order of the
    # pieces, for every boundary bit length); the reading of the sign decision off the source is the fallback
    from .c11 import mpint_pipeline
    if mpint_pipeline(ctx, report, rule='C07.R5', signs=(1, -1), quiet_fallback=True):
        return
    decision = None
    for n in ast.walk(f.node):
        if isinstance(n, ast.If) and 'mpint_bytes' in ast.unparse(n.test):
            decision = n
            break
    if decision is None:
        report.add('C07.R5', cons + '@decision', 'no sign-byte decision found')
        return

    def pad_of(stmts, env):
        for st in stmts:
            if isinstance(st, ast.Assign) and ast.unparse(st.targets[0]) == 'pad_byte':
                v = st.value
                if isinstance(v, ast.IfExp):
                    v = v.body if beval(v.test, env) else v.orelse
                if isinstance(v, ast.Constant) and isinstance(v.value, bytes):
                    return v.value
        return None
    try:
        for negative in (False, True):
            for nonempty in (False, True):
                for topbit in (False, True):
                    if not nonempty and topbit:
                        continue
                    env = {'negative': negative, 'nonempty': nonempty, 'topbit': topbit}
                    report.count('C07.R5')
                    taken = decision.body if beval(decision.test, env) else decision.orelse
                    pad = pad_of(taken, env)
                    want = b''
                    if nonempty and not negative and topbit:
                        want = b'\x00'
                    if nonempty and negative and not topbit:
                        want = b'\xff'
                    if pad != want:
                        report.add('C07.R5', cons + '@truth-table[neg=%s,nonempty=%s,top=%s]' % (negative, nonempty, topbit),
                                   'sign prefix is %r, RFC 4251 5 requires %r' % (pad, want))
                    report.sample({'rule': 'C07.R5', 'negative': negative, 'nonempty': nonempty, 'top_bit': topbit, 'prefix': repr(pad)})
    except NotEvaluable as e:
        report.add('C07.R5', cons + '@decision', 'sign decision is not a boolean function of (negative, non-empty, top bit) any more: %s' % e)
    report.count('C07.R5')
    calls = [n for n in ast.walk(f.node) if isinstance(n, ast.Call) and isinstance(n.func, ast.Attribute) and n.func.attr == 'compose_numeric']
    if not calls or sorted(ast.unparse(calls[0].args[0]).replace(' ', '').split('+')) != ['len(mpint_bytes)', 'len(pad_byte)'] or ast.unparse(calls[0].args[1]) != '4':
        report.add('C07.R5', cons + '@length', 'the uint32 length must be len(prefix) + len(magnitude)')
    raws = [ast.unparse(n.args[0]) for n in ast.walk(f.node) if isinstance(n, ast.Call) and isinstance(n.func, ast.Attribute) and n.func.attr == 'compose_raw']
    if raws != ['pad_byte', 'mpint_bytes']:
        report.add('C07.R5', cons + '@order', 'prefix must precede the magnitude bytes (found %s)' % raws)
    pb = ctx.model.cls('ParserBinary')
    g = pb.methods.get('parse_ssh_mpint')
    report.count('C07.R5')
    if g is None or '>= 128' not in ast.unparse(g.node):
        report.add('C07.R5', (g.construct if g else 'ParserBinary.parse_ssh_mpint') + '@sign', 'parser does not take the sign from the top bit of the first byte')
    # (the pipeline left the evaluable subset: report that too, so that the fallback is not mistaken for the full decision)
    mpint_pipeline(ctx, report, rule='C07.R5', signs=(1, -1))


# ---- R6 ---------------------------------------------------------------------------------------------------------

def banner(ctx, report, RULE='C07.R6'):
    report.rule(RULE, 'identification string: SSH-protoversion-softwareversion SP comments CR LF, at most 255 bytes')
    c = ctx.model.cls('SshProtocolMessage')
    # the line terminator is consumed exactly once: a run-consuming separator parse makes the reported length depend on the
    # bytes that follow the banner
    import ast as _ast
    pf = c.methods.get('_parse')
    if pf is not None:
        for n in _ast.walk(pf.node):
            if isinstance(n, _ast.Call) and isinstance(n.func, _ast.Attribute) and n.func.attr == 'parse_separator' and n.args and \
                    isinstance(n.args[0], _ast.Constant) and n.args[0].value in ('\n', '\r\n'):
                report.count(RULE)
                report.add(RULE, pf.construct + '@terminator-run', 'the line feed that ends the identification string is parsed as a run of separators: '
                           'line feeds that follow the banner are counted as part of it (n depends on the following bytes)')
    lay = ctx.canon.layout(c, 'compose')
    els = lay.elements
    report.count(RULE, 3)
    seq = []
    for e in els:
        if e.kind.startswith('t:'):
            seq.append((e.kind[2:], show(e.val)))
        elif e.kind == 'nested':
            seq.append(('nested', show(e.val)))
        elif e.kind == 'alt':
            seq.append(('alt', [(x.kind[2:], show(x.val)) for x in e.a]))
    want = [('string', "'SSH'"), ('separator', "'-'"), ('nested', 'self.protocol_version'), ('separator', "'-'"),
            ('string', 'self.software_version'), ('alt', [('separator', "' '"), ('string', 'self.comment')]), ('separator', "'\\r\\n'")]
    f = c.resolve('compose')
    composed = banner_compose_tabulation(ctx, report, c, f, RULE)
    if composed is None and seq != want:
        # the composer left the evaluable subset: its layout is compared with the sequence of RFC 4253 4.2
        report.add(RULE, f.construct + '@grammar', 'banner is composed as %s, RFC 4253 4.2 says %s' % (seq, want))
    p = c.resolve('_parse')
    if banner_tabulation(ctx, report, c, p, RULE):
        return
    src = ast.unparse(p.node)
    from ..linform import guard_deficit, single_defs
    limited = False
    for n in ast.walk(p.node):
        # ``<length> > 255`` in any spelling, in front of a TooMuchData
        if isinstance(n, ast.If) and any(isinstance(x, ast.Raise) and x.exc is not None and 'TooMuchData' in ast.unparse(x.exc) for x in n.body):
            gd = guard_deficit(n.test, {}, single_defs(p.node))
            # guard_deficit reads ``A < B`` as "B - A is missing": for ``length > 255`` that is length - 255, strictly positive
            if gd is not None and gd[1] and gd[0].const == -255 and len(gd[0].terms) == 1 and list(gd[0].terms.values()) == [1]:
                limited = True
    if not limited:
        report.add(RULE, p.construct + '@limit', 'the 255 byte limit of RFC 4253 4.2 is not enforced')
    if "!= 'SSH'" not in src:
        report.add(RULE, p.construct + '@prefix', 'the identification string is not required to start with SSH')


def banner_compose_tabulation(ctx, report, c, f, RULE):
    """SshProtocolMessage.compose evaluated (sa.miniexec, a text composer model) for messages with no comment, an empty comment and
    a comment with blanks: ``SSH-protoversion-softwareversion[ SP comments] CR LF`` - an empty comment keeps its blank (the parser
    reads ``srv `` as the empty comment).  True / False: decided; None: the composer is not evaluable."""
    from ..miniexec import Evaluator, Native, Raised, Unsupported, class_call_hook

    class Part(Native):
        def __init__(self, text):
            self.text = text

        def compose(self):
            return self.text.encode('ascii')

        def __str__(self):
            return self.text

    class Composer(Native):
        def __init__(self):
            self.text = ''

        def _t(self, v):
            return v.compose().decode('ascii') if isinstance(v, Part) else (v.decode('ascii') if isinstance(v, (bytes, bytearray)) else str(v))

        def compose_string(self, v):
            self.text += self._t(v)

        def compose_separator(self, v):
            self.text += v

        def compose_parsable(self, v):
            self.text += self._t(v)

        def compose_string_array(self, values, separator=','):
            self.text += separator.join(self._t(v) for v in values)

        def compose_parsable_array(self, values, separator=','):
            self.text += separator.join(self._t(v) for v in values)

        @property
        def composed(self):
            return self.text.encode('ascii')

        @property
        def composed_bytes(self):
            return self.text.encode('ascii')

    def extra(n, ev):
        if ast.unparse(n.func) == 'ComposerText':
            return Composer()
        return NotImplemented
    hook = class_call_hook(c, extra, ctx.model)
    ok = True
    try:
        for comment, want in ((None, 'SSH-2.0-srv_1.0\r\n'), ('', 'SSH-2.0-srv_1.0 \r\n'), ('two words', 'SSH-2.0-srv_1.0 two words\r\n'), (' x', 'SSH-2.0-srv_1.0  x\r\n')):
            report.count(RULE)

            class Me(Native):
                _repo_class = c
            me = Me()
            me.protocol_version, me.software_version, me.comment = Part('2.0'), Part('srv_1.0'), comment
            got = Evaluator({'self': me}, hook, hook.name_hook_for(f.module, None)).function(f.node)
            got = bytes(got).decode('ascii') if isinstance(got, (bytes, bytearray)) else got
            if got != want:
                ok = False
                report.add(RULE, f.construct + '@grammar', 'a message with comment %r is composed as %r, RFC 4253 4.2 gives %r' % (comment, got, want))
                break
    except (Unsupported, Raised, AttributeError, TypeError):
        return None
    return ok


def banner_tabulation(ctx, report, c, p, RULE='C07.R6'):
    """SshProtocolMessage._parse evaluated (sa.miniexec over the ParserText model of sa/textmodel.py; the protocol version
    and software version classes replaced by models that read ``digits.digits`` resp. take the whole token) on identification
    strings with and without comment, with CR LF and with a bare LF, followed by further bytes, with a wrong or lower case
    protocol name, and of exactly 255 and 256 bytes: fields as RFC 4253 4.2 splits them, the reported length ends after the
    line feed, ``SSH`` is required, 255 bytes are the limit.  Returns False when the function is not evaluable"""
    from ..miniexec import Evaluator, Native, Raised, Unsupported, class_call_hook, exception_values
    from ..textmodel import InvalidValue, TextParser

    class BannerParser(TextParser):
        def parse_parsable(self, name, cls_, item_size=None):
            kind = getattr(cls_, 'kind', None)
            rest = self.data[self.pos:]
            if kind == 'version':
                i = 0
                while i < len(rest) and (rest[i:i + 1].isdigit() or rest[i:i + 1] == b'.'):
                    i += 1
                parts = rest[:i].split(b'.')
                if len(parts) != 2 or not all(x.isdigit() for x in parts):
                    raise InvalidValue(name)
                self.values[name] = ('version', int(parts[0]), int(parts[1]))
                self.pos += i
            elif kind == 'software-parsed':
                raise InvalidValue(name)            # no vendor class knows the token: the unparsed class takes it
            elif kind == 'software':
                self.values[name] = ('software', rest.decode('ascii'))
                self.pos = len(self.data)
            else:
                raise Unsupported('parse_parsable of %r' % (cls_,))

    class Kind(Native):
        def __init__(self, kind):
            self.kind = kind
    made = {}
    exc = exception_values('InvalidValue', 'TooMuchData', 'NotEnoughData', 'InvalidType')

    def extra(n, ev):
        d = ast.unparse(n.func)
        if d == 'ParserText':
            return BannerParser(ev.ev(n.args[0]))
        if d in ('SshProtocolMessage', 'cls'):
            args = [ev.ev(a) for a in n.args]
            kw = {k.arg: ev.ev(k.value) for k in n.keywords if k.arg}
            made['object'] = (args, kw)
            return ('message',)
        return exc(n, ev)

    def names(name):
        return {'SshProtocolVersion': Kind('version'), 'SshSoftwareVersionParsedVariant': Kind('software-parsed'),
                'SshSoftwareVersionUnparsed': Kind('software'), 'cls': 'cls'}.get(name) or (_ for _ in ()).throw(Unsupported('free name %s' % name))
    hook = class_call_hook(c, extra, ctx.model)
    names = hook.name_hook_for(c.module, names)         # class level constants and helper methods named as values resolve through the class
    fill = 'x' * (255 - len('SSH-2.0-\r\n'))
    cases = [
        ('SSH-2.0-OpenSSH_8.9 some comment here\r\n', '', ((2, 0), 'OpenSSH_8.9', 'some comment here')),
        ('SSH-2.0-OpenSSH_8.9\r\n', '', ((2, 0), 'OpenSSH_8.9', None)),
        ('SSH-1.99-srv\n', '', ((1, 99), 'srv', None)),
        ('SSH-2.0-srv two words\r\n', '\x00\x00\x01\x0c', ((2, 0), 'srv', 'two words')),
        # the limit of 255 bytes is a limit of the line: a buffer that holds the line and the first packets after it is fine
        ('SSH-2.0-OpenSSH_8.9\r\n', '\x00\x00\x01\x7c\x0b\x14' + 'k' * 400, ((2, 0), 'OpenSSH_8.9', None)),
        # the first SP separates software version and comments; everything after it is the comment, blanks included
        ('SSH-2.0-srv  built with spaces\r\n', '', ((2, 0), 'srv', ' built with spaces')),
        ('SSH-2.0-srv \r\n', '', ((2, 0), 'srv', '')),
        ('SSH-2.0-srv\tx y\r\n', '', ((2, 0), 'srv\tx', 'y')),
        ('SSX-2.0-srv\r\n', '', 'InvalidValue'),
        ('ssh-2.0-srv\r\n', '', 'InvalidValue'),
        ('SSH-2.0-%s\r\n' % fill, '', ((2, 0), fill, None)),
        ('SSH-2.0-%sy\r\n' % fill, '', 'TooMuchData'),
    ]
    problems = {}
    try:
        for banner, tail, want in cases:
            report.count(RULE)
            made.clear()
            data = (banner + tail).encode('latin-1')
            try:
                got = Evaluator({'cls': 'cls', 'parsable': data}, hook, names).function(p.node)
                raised = None
            except Raised as e:
                got, raised = None, e.what.split('(')[0].split('.')[-1]
            what = banner if len(banner) < 60 else '%d byte identification string' % len(banner)
            if isinstance(want, str):
                if raised != want:
                    key = '@limit' if want == 'TooMuchData' else '@prefix'
                    problems.setdefault(key, ('the 255 byte limit of RFC 4253 4.2 is not enforced (a %d byte string gives %s)' % (len(banner), raised or 'a message'))
                                        if want == 'TooMuchData' else 'the identification string is not required to start with SSH (%r gives %s)' % (banner, raised or 'a message'))
                continue
            if raised is not None:
                problems.setdefault('@grammar', '%r is refused with %s' % (what, raised))
                continue
            args, kw = made.get('object', ((), {}))
            fields = list(args) + [kw.get(k) for k in ('protocol_version', 'software_version', 'comment')[len(args):]]
            flat = (fields[0][1:] if isinstance(fields[0], tuple) else fields[0], fields[1][1] if isinstance(fields[1], tuple) else fields[1], fields[2])
            if flat != want:
                problems.setdefault('@grammar', '%r is split into %r, RFC 4253 4.2 gives %r' % (what, flat, want))
            elif not (isinstance(got, tuple) and got[1] == len(banner)):
                problems.setdefault('@length', '%r followed by %d other bytes is reported as %r bytes long, the line ends after %d' % (
                    what, len(tail), got[1] if isinstance(got, tuple) else got, len(banner)))
    except Unsupported as e:
        report.undecided.append('C07.R6: SshProtocolMessage._parse left the subset the tabulation understands (%s); decided on its syntax' % e)
        return False
    for k, v in problems.items():
        report.add(RULE, p.construct + k, v)
    return True


# ---- R7: software version strings -------------------------------------------------------------------------------------

def software_versions(ctx, report):
    """SshSoftwareVersionParsedBase._parse evaluated (sa.miniexec over the ParserText model of sa/textmodel.py) for every
    concrete vendor class: the vendor is everything up to the first separator, the version is everything after it - a
    version that contains the separator again (OpenSSH_for_Windows_8.1) is recovered whole and the whole token is consumed"""
    import ast
    from ..miniexec import Evaluator, Raised, Unsupported, class_call_hook
    from ..textmodel import TextParser
    rule = 'C07.R7'
    report.rule(rule, 'software version token: vendor up to the first separator, version = the whole rest')
    base = ctx.model.try_cls('SshSoftwareVersionParsedBase')
    if base is None or '_parse' not in base.methods:
        report.error('%s: SshSoftwareVersionParsedBase._parse vanished' % rule)
        return
    f = base.resolve('_parse')
    report.touch(f)
    it = ctx.interp
    for c in ctx.model.all_subclasses(base):
        if c.abstract_methods:
            continue
        vendor = it.const_call(c, '_get_vendor')
        sep = it.const_call(c, '_get_version_separator')
        if not isinstance(vendor, str) or not (sep is None or isinstance(sep, str)):
            report.undecided.append('%s: vendor / separator not constant' % c.name)
            continue
        versions = [None] if sep is None else [None, '8.1', '8.1p1 Debian-1', 'for%sWindows%s8.1' % (sep, sep), '2012.55%svendor1' % sep]
        for version in versions:
            report.count(rule)
            token = vendor if version is None else vendor + sep + version
            built = {}

            def extra(n, ev, built=built):
                d = ast.unparse(n.func)
                if d == 'ParserText':
                    return TextParser(ev.ev(n.args[0]))
                if d == 'cls' and 'self' not in ev.env:
                    built['version'] = ev.ev(n.args[0]) if n.args else None
                    return ('object', built['version'])
                return NotImplemented
            try:
                got = Evaluator({'parsable': token.encode('ascii')}, class_call_hook(c, extra, ctx.model), None).function(f.node)
            except Raised as e:
                report.add(rule, '%s@token[%s]' % (c.construct, 'plain' if version is None or sep not in (version or '') else 'separator-in-version'),
                           'the conformant token %r is refused (%s)' % (token, e.what[:50]))
                continue
            except Unsupported as e:
                report.add(rule, f.construct + '@tabulation', 'the software version parser left the subset the tabulation understands: %s' % e)
                return
            consumed = got[1] if isinstance(got, tuple) and len(got) == 2 else None
            if built.get('version') != version or consumed != len(token):
                report.add(rule, '%s@token[%s]' % (c.construct, 'plain' if version is None or sep not in version else 'separator-in-version'),
                           'the token %r is parsed as version %r consuming %s of %d bytes; the composer would have written it for version %r' % (
                               token, built.get('version'), consumed, len(token), version))


# ---- R11: the curve of an EdDSA key is the curve its algorithm name says ----------------------------------------------------

def eddsa_curves(ctx, report, RULE='C07.R11'):
    """RFC 8709: ssh-ed25519 keys are 32 octet Ed25519 points, ssh-ed448 keys 57 octet Ed448 points.  The key object built by
    SshHostKeyEDDSABase._parse_host_key is evaluated (sa.miniexec) for both names: its curve parameter has to be the curve of the
    algorithm - from which the key size and the textual form of the key are derived."""
    import ast
    from ..miniexec import Evaluator, Native, Obj, Raised, Unsupported, class_call_hook
    report.rule(RULE, 'EdDSA host keys: the curve of the parsed key object is the curve of the algorithm name (RFC 8709)')
    c = ctx.model.try_cls('SshHostKeyEDDSABase')
    f = c.methods.get('_parse_host_key') if c is not None else None
    if f is None:
        report.error(RULE + ': SshHostKeyEDDSABase._parse_host_key vanished')
        return
    report.touch(f)

    class Parser(Native):
        def __init__(self, algorithm, key):
            self.values = {'host_key_algorithm': algorithm}
            self.key = key

        def parse_bytes(self, name, size):
            self.values[name] = bytearray(self.key)

        def __getitem__(self, name):
            return self.values[name]

        def __delitem__(self, name):
            del self.values[name]
    made = {}

    def extra(n, ev):
        d = ast.unparse(n.func)
        if d == 'PublicKeyParamsEddsa':
            made.update({k.arg: ev.ev(k.value) for k in n.keywords})
            return Obj(**made)
        if d == 'PublicKey.from_params':
            return Obj(params=ev.ev(n.args[0]))
        return NotImplemented

    def names(name):
        if name.startswith(('NamedGroup.', 'Signature.', 'SshHostKeyAlgorithm.')):
            return name          # members of the dependency's enumerations stand for themselves
        raise Unsupported('free name ' + name)
    hook = class_call_hook(c, extra, ctx.model)
    nh = hook.name_hook_for(c.module, names)
    TABLE = [('ssh-ed25519', 'SshHostKeyAlgorithm.SSH_ED25519', 'Signature.ED25519', 32, 'NamedGroup.CURVE25519'),
             ('ssh-ed448', 'SshHostKeyAlgorithm.SSH_ED448', 'Signature.ED448', 57, 'NamedGroup.CURVE448')]
    params = [a.arg for a in f.node.args.args]
    try:
        for name, member, signature, octets, want in TABLE:
            report.count(RULE)
            made.clear()
            algorithm = Obj(name=member.split('.')[-1], value=Obj(code=name, signature=signature))
            Evaluator(dict(zip(params, ['cls', Parser(algorithm, b'\x11' * octets)])), hook, nh).function(f.node)
            got = made.get('curve_type')
            if got != want:
                report.add(RULE, '%s@curve[%s]' % (f.construct, name), 'a %s key (%d octets) is given the curve %s, RFC 8709 says %s: key size and the rendered key are those of another curve' % (
                    name, octets, got, want))
            else:
                report.sample({'rule': RULE, 'algorithm': name, 'curve': got})
    except (Unsupported, Raised) as e:
        report.add(RULE, f.construct + '@tabulation', 'the EdDSA key parser left the subset the tabulation understands: %s' % e)
    report.floor(RULE, 2, 'EdDSA algorithm names')


# ---- R12: the elliptic curve point of an ECDSA key --------------------------------------------------------------------------

def ecdsa_points(ctx, report, RULE='C07.R12'):
    """RFC 5656 3.1: Q is the SEC1 encoding of the point - 04 || x || y with both coordinates as wide as the field, leading zero
    octets included.  SshHostKeyECDSABase._compose_host_key_params is evaluated (sa.miniexec) on keys whose coordinates start
    with zero octets, with the dependency's ``octet_bit_string`` modelled as what it is (asn1crypto's ECPointBitString.from_coords:
    as wide as the longer of the two numbers).  The composed blob is what the fingerprints and known_hosts lines are made of."""
    import ast
    from ..miniexec import Evaluator, Native, Obj, Raised, Unsupported, class_call_hook
    report.rule(RULE, 'ECDSA host keys: the point is written as 04 || x || y in the width of the field, whatever the leading octets of the coordinates (RFC 5656 3.1, SEC1 2.3.3)')
    c = ctx.model.try_cls('SshHostKeyECDSABase')
    f = c.methods.get('_compose_host_key_params') if c is not None else None
    if f is None:
        report.error(RULE + ': SshHostKeyECDSABase._compose_host_key_params vanished')
        return
    report.touch(f)

    class Params(Native):
        def __init__(self, group, x, y):
            self.named_group, self.point_x, self.point_y = group, x, y

        @property
        def octet_bit_string(self):
            n = max((self.point_x.bit_length() + 7) // 8, (self.point_y.bit_length() + 7) // 8, 1)
            return b'\x04' + self.point_x.to_bytes(n, 'big') + self.point_y.to_bytes(n, 'big')

    class Composer(Native):
        def __init__(self):
            self.out = bytearray()

        def compose_numeric(self, value, size):
            self.out += int(value).to_bytes(size, 'big')

        def compose_mpint(self, value, length):
            self.out += int(value).to_bytes(length, 'big')

        def compose_raw(self, value):
            self.out += bytes(value)

        def compose_bytes(self, value, size):
            self.out += len(value).to_bytes(size, 'big') + bytes(value)

        def compose_string(self, value, encoding, size):
            self.compose_bytes(value.encode(encoding), size)

        @property
        def composed_bytes(self):
            return bytearray(self.out)

        @property
        def composed_length(self):
            return len(self.out)

        composed = composed_bytes
    GROUPS = [Obj(name='SECP256R1', value=Obj(size=256)), Obj(name='SECP384R1', value=Obj(size=384)), Obj(name='SECP521R1', value=Obj(size=521))]
    CODES = ['nistp256', 'nistp384', 'nistp521']
    identifiers = [Obj(name=g.name, value=Obj(named_group=g, code=code)) for g, code in zip(GROUPS, CODES)]

    def extra(n, ev):
        if ast.unparse(n.func) == 'ComposerBinary':
            return Composer()
        return NotImplemented

    def names(name):
        if name == 'SshEllipticCurveIdentifier':
            return identifiers
        raise Unsupported('free name ' + name)
    hook = class_call_hook(c, extra, ctx.model)
    nh = hook.name_hook_for(c.module, names)
    params = [a.arg for a in f.node.args.args]
    problems = {}
    try:
        for g, code in zip(GROUPS, CODES):
            n = (g.value.size + 7) // 8
            full = (1 << (g.value.size - 1)) | (int.from_bytes(b'\x5a' * n, 'big') >> (8 * n - g.value.size + 1))     # top bit of the field set
            for lead_x, lead_y in ((0, 0), (1, 0), (0, 1), (1, 1), (2, 2)):
                report.count(RULE)
                x, y = full >> (8 * lead_x), (full - 5) >> (8 * lead_y)
                comp = Composer()
                me = Obj(public_key=Obj(params=Params(g, x, y)))
                Evaluator(dict(zip(params, [me, comp])), hook, nh).function(f.node)
                point = b'\x04' + x.to_bytes(n, 'big') + y.to_bytes(n, 'big')
                want = len(code).to_bytes(4, 'big') + code.encode() + len(point).to_bytes(4, 'big') + point
                if bytes(comp.out) != want:
                    problems.setdefault('leading-zero' if lead_x or lead_y else 'plain',
                                        'a %s key whose coordinates have %d and %d leading zero octets is written with a point of %d octets, SEC1 gives %d (04 and two coordinates of %d octets): '
                                        'fingerprints and known_hosts lines are computed over other bytes than the key' % (code, lead_x, lead_y, len(bytes(comp.out)) - 8 - len(code), len(point), n))
    except (Unsupported, Raised) as e:
        report.add(RULE, f.construct + '@tabulation', 'the ECDSA key composer left the subset the tabulation understands: %s' % e)
        return
    for k, v in sorted(problems.items()):
        report.add(RULE, '%s@point[%s]' % (f.construct, k), v)
    report.floor(RULE, 15, 'curves x leading zero patterns')


LANGUAGE_SUBTAGS = {
    # RFC 4253 7.1 -> RFC 3066 2.1: Primary-subtag = 1*8ALPHA, Subtag = 1*8(ALPHA / DIGIT)
    'primary_subtag': (('en', True), ('x', True), ('i', True), ('abcdefgh', True), ('EN', True),
                       ('', False), ('abcdefghi', False), ('e1', False), ('419', False), ('a-b', False), ('e n', False)),
    'subsequent_subtags': ((['US'], True), (['419'], True), (['CH', '1996'], True), (['a1b2c3d4'], True), (['abcdefgh'], True), ([], True),
                           ([''], False), (['abcdefghi'], False), (['a-b'], False), (['US', ''], False), (['a b'], False), (['a_b'], False)),
}


def language_tags(ctx, report, RULE='C07.R15'):
    """The languages name-lists of KEXINIT hold RFC 3066 tags: a primary subtag of 1 to 8 letters, further subtags of 1 to 8 letters
    or digits (``es-419``, ``de-CH-1996``, ``x-a1b2c3d4`` are conformant).  The two property setters of LanguageTag decide what
    the parser accepts and what can be composed; they are evaluated (sa.miniexec) on subtags on both sides of every bound of that
    grammar: a conformant subtag must be stored, a malformed one refused with InvalidValue."""
    from ..miniexec import Evaluator, Obj, Raised, Unsupported, class_call_hook
    report.rule(RULE, 'language tags: the subtags accepted are 1*8ALPHA first, 1*8(ALPHA / DIGIT) after it (RFC 3066), evaluated on both sides of every bound')
    c = ctx.model.try_cls('LanguageTag')
    if c is None:
        report.error('%s: LanguageTag not found' % RULE)
        return
    hook = class_call_hook(c, None, ctx.model)
    for attr_name, samples in LANGUAGE_SUBTAGS.items():
        f = c.methods.get(attr_name + '.setter')
        if f is None:
            report.undecided.append('%s: LanguageTag.%s has no setter' % (RULE, attr_name))
            continue
        report.touch(f)
        params = [a.arg for a in f.node.args.args]
        for value, conformant in samples:
            report.count(RULE)
            me = Obj()
            me._repo_class = c
            try:
                Evaluator({params[0]: me, params[1]: value}, hook, hook.name_hook_for(f.module, None)).function(f.node)
                accepted = True
            except Raised as e:
                if 'InvalidValue' not in str(e.what):
                    report.add(RULE, '%s@raises[%s]' % (f.construct, str(e.what)[:30]), '%r: %s is raised, not InvalidValue' % (value, str(e.what)[:60]))
                    break
                accepted = False
            except (Unsupported, AttributeError, TypeError) as e:
                report.undecided.append('%s: setter of %s not evaluable: %s' % (RULE, attr_name, e))
                break
            if accepted != conformant:
                report.add(RULE, '%s@%s[%s]' % (f.construct, 'refused' if conformant else 'accepted', 'digits' if any(
                    ch.isdigit() for ch in ''.join(value)) else 'shape'),
                           'the %s %r is %s, RFC 3066 (1*8ALPHA, then 1*8(ALPHA / DIGIT)) says it is %s: a KEXINIT that carries such a tag is %s' % (
                               attr_name, value, 'accepted' if accepted else 'refused with InvalidValue', 'conformant' if conformant else 'malformed',
                               'refused as a whole' if conformant else 'accepted'))
                break
    report.floor(RULE, 20, 'evaluated subtags')
