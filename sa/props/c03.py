"""C03 -- reported consumed length is exact and framing units are self-delimiting."""
from __future__ import annotations

import ast

from ..canon import _descendants, affine, fixed_size, min_size
from ..compare import leaf_cover
from ..framing import FRAMING
from ..layout import flatten_items
from ..core import representatives
from ..model import ClassInfo
from ..trace import Effect, Op, Raise, Return, walk
from ..values import (BytesV, ClassV, FieldV, InputV, ObjV, ParserV, SelfV, Sym, Unknown, is_const, show)

META = {
    'explanation': (
        'R1: the three public entry points have the contracted shape (one _parse call, del parsable[:n] with n the '
        'reported length and nothing else touching the buffer, TooMuchData iff len(parsable) > n, pass-through for '
        'parse_immutable) and no class overrides them. R2: no function reached from a _parse mutates its parsable '
        'argument (effects on the input value in the interpreter trace; parse_mutable is never called on it). R3: the '
        'length every _parse returns is one of the sound forms (cursor of the parser(s) covering the input, '
        'len(input), a nested parser\'s own report, a constant backed by a successful read). R4: no size/count handed '
        'to a primitive can be negative (affine form over non-negative fields with dominating lower-bound guards), and '
        'every write to ParserBase._parsed_length is a checked quantity. R5: in every framing unit all bytes after the '
        'declared length are governed by it (raw of that size or a sub-parser over it) and a frame is never empty.'
        ' R6: the consumed length a nested parse_immutable/_parse reports is bound and read by the caller. R7: array primitives that take items_size hand their item parsers a slice that ends at offset + items_size.'),
    'assumptions': ['ParserBase copies its input (converter=bytes): checked structurally in R2',
                    'slicing beyond the end of a bytes object is clamped by Python'],
    'trusted_base': ['python ast', 'sa.interp traces', 'sa.canon length links'],
    'exhaustive': True,
}

META['explanation'] += ' ' + "R8: a slice of the input bounded by a declared length is preceded by an availability check. R9: the SSL 2.0 RECORD-LENGTH arithmetic evaluated for every value of the first header byte, both header forms. R10: input handed to an ASN.1 decoder has had the indefinite length form refused (the decoder's dump() omits the end-of-contents octets)."

META['explanation'] += ' ' + 'R4: the byte level primitives of ParserBinary are evaluated with the real struct module around every boundary. R7 follows chains of helper methods. R11: the identification string ends with its line feed, whatever follows (shared with C07.R6).'

META['explanation'] += ' ' + 'R10 also: the ASN.1 decoder is not called in its strict mode (which refuses bytes after the value). R12: a frame whose parser reports a constant size pins its declared length to that size. R13: the length of the whole buffer is compared only to decide that data is missing or left over.'

SIZE_ARGS = {
    'parse_raw': ['size'], 'parse_mpint': ['mpint_length'], 'parse_numeric_array': ['item_num'],
    'parse_parsable_array': ['items_size'], 'parse_parsable_derived_array': ['items_size'],
}


def check(ctx, report):
    model = ctx.model
    report.rule('C03.R1', 'shape of parse_mutable / parse_exact_size / parse_immutable; never overridden')
    report.rule('C03.R2', 'the caller\'s buffer is never mutated by parsing')
    report.rule('C03.R3', 'returned length is a sound form')
    report.rule('C03.R4', 'sizes handed to primitives are non-negative; cursor writes are checked quantities')
    report.rule('C03.R5', 'framing units: body contained in the declared length; frame never empty')
    nested_lengths(ctx, report)
    item_windows(ctx, report)
    declared_windows(ctx, report)
    # SSL 2.0 record: the consumed length is header size + RECORD-LENGTH; the RECORD-LENGTH arithmetic is tabulated over all header
    # values of both header forms (shared with C06.R4)
    from .c06 import ssl2_parse_header
    report.rule('C03.R9', 'SSL 2.0 record: the number of bytes consumed follows the RECORD-LENGTH of the specification for every header value')
    ssl2_parse_header(ctx, report, ctx.model.cls('SslRecord'), RULE='C03.R9')
    report.floor('C03.R9', 1000, 'tabulated SSL 2.0 header values')
    # SSH identification string: a framing unit that ends with its line feed - the reported length must not depend on what follows
    # (tabulation of the banner parser over strings followed by further bytes, shared with C07.R6)
    from .c07 import banner
    banner(ctx, report, RULE='C03.R11')
    declared_constant_lengths(ctx, report)
    buffer_length_decisions(ctx, report)
    library_framing(ctx, report)
    entry_points(ctx, report)
    ownership(ctx, report)
    return_lengths(ctx, report)
    sizes(ctx, report)
    cursor_writes(ctx, report)
    containment(ctx, report)
    report.floor('C03.R3', 100, '_parse definitions')
    report.floor('C03.R4', 60, 'size arguments and cursor writes')


# ---- R1 -------------------------------------------------------------------------------------------

def entry_points_by_evaluation(ctx, report, base):
    """the three public entry points evaluated (sa.miniexec, with the helper methods they call) on a model class whose
    ``_parse`` returns (object, n) for every 0 <= n <= len(buffer) of buffers of 0..6 bytes, or raises: parse_immutable
    returns (object, n) and leaves the buffer as it was; parse_mutable returns the object and removes exactly the first n
    bytes; parse_exact_size returns the object when n == len(buffer) and raises TooMuchData otherwise, buffer untouched; a
    failing ``_parse`` leaves the buffer untouched and its error passes through; ``_parse`` is called exactly once, with the
    caller's buffer.  Returns False when an entry point left the evaluable subset (the syntactic rule decides)"""
    from ..miniexec import Evaluator, Native, NativeError, Obj, Raised, Unsupported, class_call_hook

    class ParseFailed(NativeError):
        pass
    state = {}

    def extra(n, ev):
        d = ast.unparse(n.func)
        if d == 'cls._parse':
            arg = ev.ev(n.args[0])
            state['calls'] = state.get('calls', 0) + 1
            state['same_buffer'] = arg is state['buffer']
            if state['fail']:
                raise ParseFailed()
            return (state['object'], state['n'])
        if d == 'TooMuchData':
            return NotImplemented
        return NotImplemented
    hook = class_call_hook(base, extra, ctx.model)
    runs = 0
    try:
        for name in ('parse_mutable', 'parse_immutable', 'parse_exact_size'):
            f = base.methods.get(name)
            if f is None:
                report.error('C03.R1: ParsableBaseNoABC.%s vanished' % name)
                continue
            report.touch(f)
            cons = f.construct
            problems = {}
            for size in range(0, 7):
                for n in list(range(0, size + 1)) + ['fail']:
                    runs += 1
                    data = bytes(range(0x10, 0x10 + size))
                    buf = bytearray(data)
                    obj = Obj(tag='parsed')
                    state.clear()
                    state.update(buffer=buf, object=obj, n=n if n != 'fail' else 0, fail=(n == 'fail'))
                    try:
                        got = Evaluator({'cls': 'cls', 'parsable': buf}, hook, None).function(f.node)
                        raised = None
                    except Raised as e:
                        got, raised = None, e.what
                    if state.get('calls', 0) != 1 or not state.get('same_buffer', False):
                        problems.setdefault('@call', '_parse must be called exactly once, with the caller\'s buffer (called %d times)' % state.get('calls', 0))
                        continue
                    if n == 'fail':
                        if raised is None or 'ParseFailed' not in raised:
                            problems.setdefault('@error', 'an error raised by _parse does not pass through (%r)' % (raised or got,))
                        if bytes(buf) != data:
                            problems.setdefault('@buffer', 'the buffer is modified although _parse failed')
                        continue
                    if name == 'parse_immutable':
                        if raised is not None or not (isinstance(got, tuple) and len(got) == 2 and got[0] is obj and got[1] == n):
                            problems.setdefault('@return', 'must return (object, length) unchanged and not touch the buffer (n=%d of %d bytes gives %r)' % (n, size, raised or got))
                        if bytes(buf) != data:
                            problems.setdefault('@return', 'must return (object, length) unchanged and not touch the buffer (buffer modified)')
                    elif name == 'parse_mutable':
                        if raised is not None or got is not obj:
                            problems.setdefault('@return', 'must return the parsed object (n=%d of %d bytes gives %r)' % (n, size, raised or got))
                        if bytes(buf) != data[n:]:
                            problems.setdefault('@del', 'must delete exactly parsable[:n] once and touch the buffer nowhere else (n=%d of %d bytes leaves %d)' % (n, size, len(buf)))
                    else:
                        if bytes(buf) != data:
                            problems.setdefault('@buffer', 'parse_exact_size must not modify the buffer')
                        if n == size:
                            if raised is not None or got is not obj:
                                problems.setdefault('@return', 'must return the parsed object (n=%d of %d bytes gives %r)' % (n, size, raised or got))
                        elif raised is None or 'TooMuchData' not in raised:
                            problems.setdefault('@toomuch', 'must raise TooMuchData exactly when len(parsable) > n (n=%d of %d bytes gives %r)' % (n, size, raised or got))
            for k, v in problems.items():
                report.add('C03.R1', cons + k, v)
    except Unsupported as e:
        report.undecided.append('C03.R1: an entry point left the subset the evaluation understands (%s); decided on its syntax' % e)
        return False
    report.count('C03.R1', runs)
    report.sample({'rule': 'C03.R1', 'entry_point_runs': runs, 'domain': 'buffers of 0..6 bytes x every reported length 0..len, and a failing _parse'})
    return True


def entry_points(ctx, report):
    model = ctx.model
    base = model.cls('ParsableBaseNoABC')
    evaluated = entry_points_by_evaluation(ctx, report, base)
    for name in ('parse_mutable', 'parse_immutable', 'parse_exact_size') if not evaluated else ():
        f = base.methods.get(name)
        report.count('C03.R1')
        if f is None:
            report.error('C03.R1: ParsableBaseNoABC.%s vanished' % name)
            continue
        report.touch(f)
        body = [s for s in f.node.body if not (isinstance(s, ast.Expr) and isinstance(s.value, ast.Constant))]
        cons = f.construct
        first = body[0] if body else None
        ok_first = isinstance(first, ast.Assign) and isinstance(first.targets[0], ast.Tuple) and len(first.targets[0].elts) == 2 and \
            isinstance(first.value, ast.Call) and ast.unparse(first.value) == 'cls._parse(parsable)'
        if not ok_first:
            report.add('C03.R1', cons + '@call', 'does not start with `<obj>, <n> = cls._parse(parsable)`')
            continue
        obj, n = [e.id for e in first.targets[0].elts]
        calls = [x for x in ast.walk(f.node) if isinstance(x, ast.Call) and ast.unparse(x.func) == 'cls._parse']
        if len(calls) != 1:
            report.add('C03.R1', cons + '@call', '_parse must be called exactly once')
        rest = body[1:]
        touching = [s for s in rest if any(isinstance(x, ast.Name) and x.id == 'parsable' for x in ast.walk(s))]
        if name == 'parse_mutable':
            dels = [s for s in rest if isinstance(s, ast.Delete)]
            good = len(dels) == 1 and len(touching) == 1 and isinstance(dels[0].targets[0], ast.Subscript) and \
                ast.unparse(dels[0].targets[0]) == 'parsable[:%s]' % n
            if not good:
                report.add('C03.R1', cons + '@del', 'must delete exactly parsable[:%s] once and touch the buffer nowhere else' % n)
            ret = rest[-1] if rest else None
            if not (isinstance(ret, ast.Return) and ast.unparse(ret.value) == obj):
                report.add('C03.R1', cons + '@return', 'must return the parsed object')
        elif name == 'parse_immutable':
            ret = rest[-1] if rest else None
            if touching or not (isinstance(ret, ast.Return) and ast.unparse(ret.value) in ('(%s, %s)' % (obj, n), '%s, %s' % (obj, n))):
                report.add('C03.R1', cons + '@return', 'must return (object, length) unchanged and not touch the buffer')
        else:
            ifs = [s for s in rest if isinstance(s, ast.If)]
            good = False
            if len(ifs) == 1 and isinstance(ifs[0].test, ast.Compare) and len(ifs[0].test.ops) == 1:
                t = ifs[0].test
                l, r, op = ast.unparse(t.left), ast.unparse(t.comparators[0]), t.ops[0]
                cmp_ok = (l == 'len(parsable)' and r == n and isinstance(op, (ast.Gt, ast.NotEq))) or \
                    (r == 'len(parsable)' and l == n and isinstance(op, (ast.Lt, ast.NotEq)))
                raises = [x for x in ifs[0].body if isinstance(x, ast.Raise)]
                good = cmp_ok and len(raises) == 1 and raises[0].exc is not None and ast.unparse(raises[0].exc).startswith('TooMuchData') and not ifs[0].orelse
            if not good:
                report.add('C03.R1', cons + '@toomuch', 'must raise TooMuchData exactly when len(parsable) > %s' % n)
            ret = rest[-1] if rest else None
            if not (isinstance(ret, ast.Return) and ast.unparse(ret.value) == obj):
                report.add('C03.R1', cons + '@return', 'must return the parsed object')
            muts = [s for s in rest if isinstance(s, (ast.Delete, ast.AugAssign)) and s in touching]
            if muts:
                report.add('C03.R1', cons + '@buffer', 'parse_exact_size must not modify the buffer')
    for c in model.repo_classes():
        if c is base or not model.is_parsable(c):
            continue
        for name in ('parse_mutable', 'parse_immutable', 'parse_exact_size'):
            if name in c.methods:
                report.count('C03.R1')
                report.add('C03.R1', c.construct + '@override[%s]' % name, 'public parse entry point overridden')
    report.count('C03.R1', len([c for c in model.repo_classes() if model.is_parsable(c)]))


# ---- R2 -------------------------------------------------------------------------------------------

def rooted_at_input(v, depth=0):
    if isinstance(v, InputV):
        return True
    return False


def ownership(ctx, report):
    model = ctx.model
    pb = model.cls('ParserBase')
    fld = [f for f in pb.own_fields if f.name == '_parsable']
    report.count('C03.R2')
    if not fld or fld[0].converter_node is None or ast.unparse(fld[0].converter_node) != 'bytes':
        report.add('C03.R2', pb.construct + '@_parsable', 'ParserBase no longer copies its input with converter=bytes')
    for c in representatives(ctx, '_parse'):
        f = c.resolve('_parse')
        res = ctx.canon.layout(c, 'parse').result
        report.count('C03.R2')
        report.touch(f)
        for n in walk(res.block):
            if isinstance(n, Effect) and rooted_at_input(n.target):
                site = n.func.construct if n.func is not None else f.construct
                report.add('C03.R2', '%s@%s[parsable]' % (site, n.what), 'the caller\'s buffer is modified while parsing (%s)' % n.what)
            if isinstance(n, Op) and n.target is None and n.prim == 'parse_mutable' and rooted_at_input(n.args.get('parsable')):
                site = n.func.construct if n.func is not None else f.construct
                report.add('C03.R2', '%s@parse_mutable[parsable]' % site, 'parse_mutable is applied to the caller\'s buffer inside a _parse')


# ---- R3 -------------------------------------------------------------------------------------------

REVIEWED_R3 = {
    'StringEnumParsable': 'len(member code) of the member whose code was compared equal with the same-length prefix of the input (decided by evaluating the decoder, C10.R2)',
    'StringEnumCaseInsensitiveParsable': 'len(member code) of the member whose code was compared equal with the same-length prefix of the input (decided by evaluating the decoder, C10.R2)',
    'TlsHandshakeHelloRandomBytes': 'parsed_length - item_num_size: the synthetic prefix prepended by _parse is subtracted again; fact re-checked: '
                                    'the prefix is composed with item_num_size bytes and the same constant is subtracted',
}


_STRING_ENUM = {}


def string_enum_length_decided(ctx, base_name):
    """the prefix matching decoder evaluated (sa.props.c10.decoders_by_evaluation): the reported length is the length of the
    code the input starts with, for every evaluated input.  True / False, None when the decoder is not evaluable"""
    if 'r' not in _STRING_ENUM:
        from ..core import Report
        from .c10 import decoders_by_evaluation
        quiet = Report('C03', ctx.tier)
        decided = decoders_by_evaluation(ctx, quiet)
        _STRING_ENUM['r'] = (decided, [x for x in quiet.findings])
    decided, findings = _STRING_ENUM['r']
    if base_name not in decided:
        return None
    return not any(base_name in x.detail or 'StringEnumParsableBase' in x.construct for x in findings)


def length_form(v, res, lay):
    """classify the length expression returned by a _parse; returns (kind, detail) ; kind None = not recognised"""
    if isinstance(v, Sym) and v.op == 'phi':
        kinds = [length_form(a, res, lay) for a in v.args]
        bad = [k for k in kinds if k[0] is None]
        return bad[0] if bad else ('phi', [k[0] for k in kinds])
    if isinstance(v, Sym) and v.op == 'attr' and v.args[1] == 'parsed_length' and isinstance(v.args[0], Sym) and \
            v.args[0].op == 'phi' and all(isinstance(a, ParserV) for a in v.args[0].args):
        kinds = [length_form(Sym('plen', a, None), res, lay) for a in v.args[0].args]
        bad = [k for k in kinds if k[0] is None]
        return bad[0] if bad else ('phi', [k[0] for k in kinds])
    if isinstance(v, Sym) and v.op == 'plen':
        p, n = v.args
        if p in lay.chain and getattr(p, 'rel', ('?',))[0] in ('root', 'prefix'):
            return ('cursor', 'parsed_length of the parser over the input (or a prefix of it starting at 0)')
        if p in lay.chain:
            return (None, 'parsed_length of a parser that covers only part of the input (%s)' % (p.rel,))
        return (None, 'parsed_length of a parser that is not over the input')
    if isinstance(v, Sym) and v.op == 'add':
        terms = flatten_add(v)
        phis = [t for t in terms if isinstance(t, Sym) and t.op == 'phi']
        if phis:
            # X + (A or B) is (X + A) or (X + B): an optional part whose length is 0 when it is absent
            rest = [t for t in terms if t is not phis[0]]
            kinds = []
            for alt in phis[0].args:
                parts = [t for t in rest + [alt] if not (isinstance(t, int) and not isinstance(t, bool) and t == 0)]
                if not parts:
                    kinds.append(('const', 0))
                    continue
                acc = parts[0]
                for t in parts[1:]:
                    acc = Sym('add', acc, t)
                kinds.append(length_form(acc, res, lay))
            bad = [k for k in kinds if k[0] is None]
            return bad[0] if bad else ('phi', [k[0] for k in kinds])
        plens = [t for t in terms if isinstance(t, Sym) and t.op == 'plen']
        if len(plens) == len(terms) and len(terms) >= 2:
            # the order of the summands is immaterial: the parser that starts at 0 first
            plens = sorted(plens, key=lambda t: 0 if getattr(t.args[0], 'rel', ('?',))[0] in ('root', 'prefix') else 1)
            ps = [t.args[0] for t in plens]
            if all(p in lay.chain for p in ps):
                first = ps[0]
                if len(ps) == 2 and first.rel[0] == 'prefix' and ps[1].rel[0] == 'window' and same_value(first.rel[1], ps[1].rel[1]):
                    return ('cursor-sum', 'cursor over parsable[:w] + cursor over parsable[w:...]')
                ok = first.rel[0] == 'root'
                run = Sym('plen', first, plens[0].args[1])
                for p in ps[1:]:
                    if p.rel[0] != 'cont' or not same_cursor(p.rel[1], run):
                        ok = False
                    run = None
                if ok or (len(ps) == 2 and ps[0].rel[0] == 'root' and ps[1].rel[0] == 'cont'):
                    return ('cursor-sum', 'header cursor + cursor of the parser over parsable[header:]')
            return (None, 'sum of cursors of parsers that do not tile the input')
        if len(plens) == len(terms) - 1:
            other = [t for t in terms if t not in plens][0]
            if isinstance(other, Sym) and other.op == 'plen':
                pass
        return (None, 'arithmetic on the reported length: %s' % show(v))
    if isinstance(v, Sym) and v.op == 'len' and isinstance(v.args[0], InputV):
        return ('whole', 'len(parsable)')
    if isinstance(v, Sym) and v.op == 'len' and isinstance(v.args[0], Sym) and v.args[0].op == 'call':
        return library_length(v.args[0], v)
    if isinstance(v, Sym) and v.op == 'parsedlen':
        return ('nested', 'length reported by the nested parse')
    if isinstance(v, Sym) and v.op == 'index' and isinstance(v.args[0], Sym) and v.args[0].op in ('call', 'phi'):
        return ('nested', 'length component of a nested call')
    if isinstance(v, int) and not isinstance(v, bool):
        return ('const', v)
    return (None, 'unrecognised length expression %s' % show(v)[:80])


def library_length(call, v):
    """len(X.load(bytes(parsable)).dump()): asn1crypto keeps the bytes an object was loaded from and dump() without
    arguments returns exactly those bytes, so their length is the number of bytes consumed; dump(force=True) re-encodes in
    canonical DER (a BER long-form length or an indefinite length changes the size), and any other callee is unknown"""
    kw = getattr(call, 'kwargs', None)
    f = call.args[0]
    rest = call.args[1:]
    if not (isinstance(f, Sym) and f.op == 'attr' and f.args[1] == 'dump'):
        return (None, 'length of the result of a call that is not the library object\'s dump(): %s' % show(v)[:80])
    if rest or kw:
        return (None, 'dump() is called with arguments (%s): a forced re-encoding need not have the length of the bytes consumed' % show(v)[:80])
    obj = f.args[0]
    loaded = isinstance(obj, Sym) and obj.op == 'call' and 'load' in show(obj.args[0]) and len(obj.args) == 2 and \
        isinstance(obj.args[1], Sym) and obj.args[1].op == 'bytes' and isinstance(obj.args[1].args[0], InputV)
    if not loaded:
        return (None, 'dump() of an object that was not loaded from the whole input: %s' % show(v)[:80])
    return ('library', 'length of the bytes the library object was loaded from: %s' % show(v)[:60])


def same_value(a, b):
    try:
        return a == b
    except Exception:      # pylint: disable=broad-except
        return False


def flatten_add(v):
    if isinstance(v, Sym) and v.op == 'add':
        return flatten_add(v.args[0]) + flatten_add(v.args[1])
    return [v]


def same_cursor(a, b):
    return isinstance(a, Sym) and isinstance(b, Sym) and a.op == 'plen' and b.op == 'plen' and a.args[0] is b.args[0]


def return_lengths(ctx, report, RULE='C03.R3', only=None):
    model = ctx.model
    import json, os
    with open(os.path.join(os.path.dirname(os.path.dirname(os.path.abspath(__file__))), 'nondsl.json')) as fh:
        nondsl = json.load(fh)
    for c in representatives(ctx, '_parse'):
        if only is not None and c.name not in only:
            continue
        f = c.resolve('_parse')
        lay = ctx.canon.layout(c, 'parse')
        res = lay.result
        report.count(RULE)
        val = res.value
        if not (isinstance(val, tuple) and len(val) == 2):
            if isinstance(val, Sym) and val.op == 'phi' and all(isinstance(a, tuple) and len(a) == 2 for a in val.args):
                lens = [a[1] for a in val.args]
            else:
                report.undecided.append('%s._parse: return value is not a statically visible (object, length) pair: %s%s' % (
                    c.name, show(val)[:60], ' [%s]' % nondsl[c.name] if c.name in nondsl else ''))
                continue
        else:
            lens = [val[1]]
        for ln in lens:
            kind, detail = length_form(ln, res, lay)
            rev = [b.name for b in c.mro if isinstance(b, ClassInfo) and b.name in REVIEWED_R3]
            if rev:
                src = ast.unparse(f.node)
                if rev[0] == 'TlsHandshakeHelloRandomBytes':
                    fact = isinstance(ln, Sym) and ln.op == 'sub'
                else:
                    fact = string_enum_length_decided(ctx, rev[0])
                    if fact is None:        # not evaluable: the reviewed source fact
                        fact = 'len(enum_item.value.code)' in src and 'code[:len(enum_item.value.code)]' in src
                if fact:
                    report.sample({'rule': RULE, 'class': c.name, 'verdict': 'reviewed', 'reason': REVIEWED_R3[rev[0]]})
                    continue
            if kind is None:
                report.add(RULE, f.construct + '@return-length', 'reported length is not a sound form: %s' % detail)
            elif kind == 'const':
                ms = min_size(ctx.canon.canon(c, 'parse').elements, ctx.canon)
                fs = sum((fixed_size(e, ctx.canon) or 0) for e in ctx.canon.canon(c, 'parse').elements)
                if detail != ms or detail != fs:
                    report.add(RULE, f.construct + '@return-length', 'constant length %s is not the number of bytes the layout reads (%s)' % (detail, fs))
            else:
                report.sample({'rule': RULE, 'class': c.name, 'form': kind, 'length': show(ln)[:60]}, 14)


# ---- R4 -------------------------------------------------------------------------------------------

def lower_bounds(items, upto_op):
    """guards ``F < k -> raise`` seen before ``upto_op`` : {field key: k}"""
    lb = {}
    done = [False]

    def visit(its):
        for it in its:
            if done[0]:
                return
            if it is upto_op:
                done[0] = True
                return
            if isinstance(it, tuple):
                if it[0] == 'check':
                    cond = it[1]
                    note_guard(cond, lb)
                elif it[0] == 'alt':
                    visit(it[2])
                    visit(it[3])
                elif it[0] == 'loop':
                    visit(it[2])
                elif it[0] == 'try':
                    visit(it[2])
                    visit(it[4])
    visit(items)
    return lb


def note_guard(cond, lb):
    """record facts that hold *after* a check that raised when ``cond`` was true"""
    if isinstance(cond, Sym) and cond.op == 'not' and isinstance(cond.args[0], Sym) and cond.args[0].op == 'cmp':
        # ``if not (field >= k): raise`` - also when the comparison was handed to a checking helper as an argument
        flip = {'>=': '<', '>': '<=', '<': '>=', '<=': '>', '==': '!=', '!=': '=='}
        op, a, b = cond.args[0].args
        if op in flip:
            cond = Sym('cmp', flip[op], a, b)
    if isinstance(cond, Sym) and cond.op == 'cmp':
        op, a, b = cond.args
        if isinstance(a, FieldV) and isinstance(b, int):
            if op == '<':
                lb[a.key] = max(lb.get(a.key, 0), b)
            elif op == '<=':
                lb[a.key] = max(lb.get(a.key, 0), b + 1)
            elif op == '!=':
                lb[a.key] = max(lb.get(a.key, 0), b)
                lb[('eq', a.key)] = b
        if isinstance(b, FieldV) and isinstance(a, int) and op == '>':
            lb[b.key] = max(lb.get(b.key, 0), a)
    elif isinstance(cond, Sym) and cond.op == 'not' and isinstance(cond.args[0], FieldV):
        lb[cond.args[0].key] = max(lb.get(cond.args[0].key, 0), 1)
    elif isinstance(cond, Sym) and cond.op == 'boolor':
        pass


def nonneg(v, lb, res, ctxc, depth=0):
    """True if the abstract value is certainly >= 0, False if it may be negative, None unknown"""
    if depth > 8:
        return None
    if isinstance(v, bool):
        return True
    if isinstance(v, int):
        return v >= 0
    if isinstance(v, FieldV):
        return True
    if isinstance(v, Sym):
        if v.op in ('ulen', 'plen', 'len'):
            return True
        if v.op in ('add', 'mul'):
            rs = [nonneg(a, lb, res, ctxc, depth + 1) for a in v.args]
            if all(r is True for r in rs):
                return True
            if v.op == 'add':
                return affine_nonneg(v, lb, res, ctxc)
            return None
        if v.op == 'sub':
            return affine_nonneg(v, lb, res, ctxc)
        if v.op in ('int', 'floordiv', 'div') and v.args:
            return nonneg(v.args[0], lb, res, ctxc, depth + 1)
        if v.op in ('and', 'rshift', 'mod'):
            return True
        if v.op == 'phi':
            rs = [nonneg(a, lb, res, ctxc, depth + 1) for a in v.args]
            if all(r is True for r in rs):
                return True
            if any(r is False for r in rs):
                return False
            return None
    return None


def affine_nonneg(v, lb, res, ctxc):
    def atom(x):
        if isinstance(x, FieldV):
            return ('f', x.key)
        if isinstance(x, Sym) and x.op == 'plen':
            return ('plen', id(x.args[0]), x.args[1])
        if isinstance(x, Sym) and x.op in ('ulen', 'len'):
            return ('nn', show(x))
        return None
    af = affine(v, atom)
    if af is None:
        return None
    const, terms = af
    low = const
    for k, coeff in terms.items():
        if k[0] == 'plen':
            # fold constant cursors
            pc = plen_value(k, res, ctxc)
            if pc is None:
                if coeff > 0:
                    continue
                return None
            low += coeff * pc
            continue
        if coeff > 0:
            low += coeff * (lb.get(k[1], 0) if k[0] == 'f' else 0)
        else:
            return False if k[0] == 'f' else None
    return low >= 0


def plen_value(k, res, ctxc):
    for p in res.parsers:
        if id(p) == k[1]:
            total = 0
            for op in p.ops[:k[2]]:
                from ..layout import parse_op_element
                el = parse_op_element(op)
                fs = fixed_size(el, ctxc)
                if fs is None:
                    return None
                total += fs
            return total
    return None


def sizes(ctx, report):
    model = ctx.model
    for c in representatives(ctx, '_parse'):
        f = c.resolve('_parse')
        lay = ctx.canon.layout(c, 'parse')
        res = lay.result
        for o in flatten_items(lay.items):
            if not (isinstance(o, Op) and o.side == 'parse' and o.target is not None and o.prim in SIZE_ARGS):
                continue
            for an in SIZE_ARGS[o.prim]:
                sv = o.args.get(an)
                if sv is None or isinstance(sv, int) and not isinstance(sv, bool) and sv >= 0:
                    report.count('C03.R4', 1, nontrivial=0)
                    continue
                report.count('C03.R4')
                lb = lower_bounds(lay.items, o)
                r = nonneg(sv, lb, res, ctx.canon)
                site = o.func.construct if o.func is not None else f.construct
                if r is False:
                    report.add('C03.R4', '%s@%s(%s)' % (site, o.prim, o.key),
                               'size `%s` can be negative: no dominating lower-bound guard on the field it is computed from '
                               '(a negative size moves the cursor backwards / reports a wrong consumed length)' % show(sv),
                               witness={'size': show(sv), 'known_lower_bounds': {str(k): v for k, v in lb.items()}})
                elif r is None:
                    report.undecided.append('%s: sign of size %s for %s not decided' % (c.name, show(sv)[:60], o.prim))
                else:
                    report.sample({'rule': 'C03.R4', 'class': c.name, 'primitive': o.prim, 'size': show(sv)[:60], 'verdict': 'non-negative'}, 16)


CHECKED_HELPERS = {'_parse_numeric_array', '_parse_string_by_length', '_parse_string_until_separator', '_check_separators',
                   '_parse_parsable_derived_array'}
REVIEWED_CURSOR = {
    'ParserBinary.parse_mpint': 'advance by mpint_length: _parse_mpint reads ceil(mpint_length/4) words with parse_numeric_array over the '
                                'padded remainder, which raises NotEnoughData when fewer than mpint_length bytes remain (fact re-checked: '
                                'the call to self._parse_mpint precedes the write)',
    'ParserBinary.parse_ssh_mpint': 'advance by 4 + mpint_length after _parse_mpint(mpint_length, 4, ...) succeeded (same argument)',
    'ParserBinary.parse_string_null_terminated': 'advance by the checked string length + 1 for the terminator that was found in the remainder',
    'ParserText._parse_string_array': 'cursor assigned from item_offset which only advances by checked separator/item lengths',
    'ParserText.parse_date_time': 'consumes the whole remainder',
}


def parse_parsable_tabulation(ctx, report):
    """ParserBase.parse_parsable (with the helper methods and properties it uses; the numeric read replaced by a model that
    reads a big-endian number or raises NotEnoughData) evaluated at offsets 0 and 3, without a length prefix and with prefixes
    of 1, 2 and 4 bytes, for every declared length 0..5 against 0..declared+2 bytes present: the cursor moves by exactly
    what was consumed (nested report, resp. prefix + declared length), the item parser sees exactly the declared bytes, a
    short buffer raises NotEnoughData with the number of missing bytes and leaves cursor and values untouched.
    Returns the qualified names of the functions decided this way (empty when not evaluable)"""
    from ..miniexec import Evaluator, ExcVal, Native, NativeError, Obj, Raised, Unsupported, class_call_hook, exception_values
    c = ctx.model.try_cls('ParserBase')
    f = c.methods.get('parse_parsable') if c is not None else None
    if f is None:
        report.error('C03.R4: ParserBase.parse_parsable vanished')
        return set()

    class NotEnoughData(NativeError):
        pass

    class Parser(Native):
        _repo_class = c

        def __init__(self, data, offset):
            self._parsable, self._parsed_length, self._parsed_values = data, offset, {}

        def _parse_numeric_array(self, name, item_num, item_size, item_class):
            need = item_num * item_size
            have = len(self._parsable) - self._parsed_length
            if need > have:
                raise NotEnoughData(need - have)
            vals = [int.from_bytes(self._parsable[self._parsed_length + i * item_size:self._parsed_length + (i + 1) * item_size], 'big') for i in range(item_num)]
            return vals, need
    seen = {}

    class Item(Native):
        def parse_immutable(self, data):
            data = bytes(data)
            seen['immutable'] = data
            if len(data) < 2:
                raise NotEnoughData(2 - len(data))
            return ('object', data[:2]), 2

        def parse_exact_size(self, data):
            seen['exact'] = bytes(data)
            return ('object', bytes(data))
    exc = exception_values('NotEnoughData', 'InvalidValue', 'TooMuchData')
    hook = class_call_hook(c, exc, ctx.model)
    params = [a.arg for a in f.node.args.args if a.arg != 'self']
    bad, runs = [], 0

    def missing(e):
        v = e.value
        if isinstance(v, ExcVal) and v.name == 'NotEnoughData':
            return v.args[0] if v.args else v.kwargs.get('bytes_needed')
        return None
    try:
        for offset in (0, 3):
            for item_size in (None, 1, 2, 4):
                for declared in range(0, 6):
                    for present in range(0, declared + 3):
                        runs += 1
                        body = bytes(range(0x41, 0x41 + present))
                        prefix = b'' if item_size is None else declared.to_bytes(item_size, 'big')
                        for cut in ([len(prefix)] if item_size is None else sorted({0, len(prefix) - 1, len(prefix)})):
                            data = b'\xee' * offset + prefix[:cut] + (body if cut == len(prefix) else b'')
                            me = Parser(data, offset)
                            seen.clear()
                            env = dict(zip(params, ['field', Item(), item_size]))
                            env['self'] = me
                            try:
                                Evaluator(env, hook, None).function(f.node)
                                raised = None
                            except Raised as e:
                                raised = e
                            have = len(data) - offset
                            if item_size is None:
                                want_ok, want_missing, want_adv = have >= 2, 2 - have, 2
                            elif cut < len(prefix):
                                want_ok, want_missing, want_adv = False, len(prefix) - have, None
                            else:
                                want_ok, want_missing, want_adv = present >= declared, item_size + declared - have, item_size + declared
                            what = 'prefix of %s bytes, %d declared, %d of the input present' % (item_size, declared, have)
                            if want_ok:
                                if raised is not None:
                                    bad.append('%s: raises %s' % (what, raised.what[:60]))
                                elif me._parsed_length != offset + want_adv:
                                    bad.append('%s: the cursor moves by %d instead of %d' % (what, me._parsed_length - offset, want_adv))
                                elif item_size is not None and seen.get('exact') != body[:declared]:
                                    bad.append('%s: the item parser is handed %r instead of the %d declared bytes' % (what, seen.get('exact'), declared))
                                elif 'field' not in me._parsed_values:
                                    bad.append('%s: the parsed object is not stored' % what)
                            else:
                                if raised is None:
                                    bad.append('%s: accepted although %d bytes are missing' % (what, want_missing))
                                elif missing(raised) != want_missing and 'NotEnoughData' in raised.what:
                                    bad.append('%s: NotEnoughData carries %r, %d bytes are missing' % (what, missing(raised), want_missing))
                                elif 'NotEnoughData' not in raised.what:
                                    bad.append('%s: raises %s instead of NotEnoughData' % (what, raised.what[:40]))
                                elif me._parsed_length != offset or me._parsed_values:
                                    bad.append('%s: the failed call moved the cursor / stored a value' % what)
    except Unsupported as e:
        report.undecided.append('C03.R4: ParserBase.parse_parsable left the subset the evaluation understands (%s); decided on its syntax' % e)
        return set()
    report.count('C03.R4', runs)
    if bad:
        report.add('C03.R4', f.construct + '@tabulation', '%d of %d evaluated calls: %s' % (len(bad), runs, bad[0]))
    else:
        report.sample({'rule': 'C03.R4', 'site': f.construct, 'verdict': 'evaluated', 'runs': runs})
    decided = {f.qualname}
    for n in ast.walk(f.node):
        if isinstance(n, ast.Call) and isinstance(n.func, ast.Attribute) and isinstance(n.func.value, ast.Name) and n.func.value.id in ('self', 'cls'):
            m = c.resolve(n.func.attr)
            if m is not None and m.cls is c and m.name != '_parse_numeric_array':
                decided.add(m.qualname)
    return decided


def binary_primitive_tabulation(ctx, report):
    """the byte level primitives of ParserBinary (raw, length prefixed bytes / strings, fixed and SSH multiple precision integers,
    numbers, flags, timestamps) evaluated from their own statements with the real ``struct`` module on inputs around every boundary -
    the bytes the call needs exactly present, one short, absent, and with other bytes after them - at cursor 0 and at a later
    cursor.  A call that returns has advanced the cursor by exactly the octets of the field and never past the end of the input; a
    call that cannot be served raises NotEnoughData carrying at least 1 and at most the number of octets really missing.
    Returns the qualified names of the primitives decided this way (the syntactic cursor rule skips them)."""
    import struct as _struct
    from ..miniexec import Evaluator, EnumVal, ExcVal, Native, NativeError, Raised, Unsupported, class_call_hook, exception_values
    model = ctx.model
    pb = model.cls('ParserBinary')
    bo = model.try_cls('ByteOrder')
    if bo is None or not bo.enum_members:
        return set()

    class State(Native):
        _repo_class = pb

        def __init__(self, data, offset, order):
            self._parsable, self._parsed_length, self._parsed_values, self.byte_order = bytearray(data), offset, {}, order

        def __getitem__(self, key):
            return self._parsed_values[key]

    class Flags(Native):
        def __iter__(self):
            return iter([1, 2, 4, 0x80])

        def __call__(self, v):
            return v
    exc = exception_values('NotEnoughData', 'InvalidValue', 'TooMuchData', 'InvalidType')

    def extra(n, ev):
        d = ast.unparse(n.func)
        if d in ('datetime.datetime.fromtimestamp', 'datetime.datetime.utcfromtimestamp'):
            import datetime as _dt
            a = [ev.ev(x) for x in n.args]
            return _dt.datetime.fromtimestamp(a[0], _dt.timezone.utc)       # OverflowError / ValueError / OSError as the real call
        if d == 'datetime.timedelta':
            import datetime as _dt
            return _dt.timedelta(**{k.arg: ev.ev(k.value) for k in n.keywords})
        if d in ('ParserBinary', 'type(self)') and n.args:
            # a parser over derived bytes (the mpint reader builds one over padded words)
            st = State(bytes(ev.ev(n.args[0])), 0, ev.env['self'].byte_order if isinstance(ev.env.get('self'), State) else order_be)
            return st
        return exc(n, ev)

    def names(name):
        if name == 'int':
            return int
        if name == 'struct.error':
            return _struct.error
        import datetime as _dt
        if name == 'dateutil.tz.UTC':
            return _dt.timezone.utc
        if name in ('datetime.datetime', 'datetime.timedelta'):
            return getattr(_dt, name.split('.')[1])
        raise Unsupported('free name ' + name)
    hook = class_call_hook(pb, extra, model)
    nh = hook.name_hook_for(pb.module, names)
    order_be = EnumVal.of(bo, 'NETWORK') if 'NETWORK' in bo.enum_members else EnumVal.of(bo, list(bo.enum_members)[0])

    def field(kind, *a):
        """(octets of the call's arguments, needed octets given the data) for the primitive kinds"""
        return kind, a
    # (method, keyword arguments, bytes in front of the body that declare its length (0: none), fixed size or None)
    PLAN = []
    for size in (1, 2, 3, 4, 8):
        PLAN.append(('parse_numeric', {'name': 'x', 'size': size}, 0, size))
    for size in (1, 2, 4):
        PLAN.append(('parse_numeric_flags', {'name': 'x', 'size': size, 'flags_class': Flags()}, 0, size))
    for num, isz in ((0, 2), (1, 1), (3, 2), (2, 3), (2, 4)):
        PLAN.append(('parse_numeric_array', {'name': 'x', 'item_num': num, 'item_size': isz}, 0, num * isz))
    for size in (0, 1, 5):
        PLAN.append(('parse_raw', {'name': 'x', 'size': size}, 0, size))
    for hdr in (1, 2, 3, 4):
        PLAN.append(('parse_bytes', {'name': 'x', 'size': hdr}, hdr, None))
        PLAN.append(('parse_string', {'name': 'x', 'item_size': hdr, 'encoding': 'ascii'}, hdr, None))
    for length in (0, 1, 3, 4, 5, 8, 9):
        PLAN.append(('parse_mpint', {'name': 'x', 'mpint_length': length}, 0, length))
    PLAN.append(('parse_ssh_mpint', {'name': 'x'}, 4, None))
    for isz, ms in ((4, False), (8, False), (8, True)):
        PLAN.append(('parse_timestamp', {'name': 'x', 'milliseconds': ms, 'item_size': isz}, 0, isz))
    decided, bad, runs = set(), {}, 0
    for mname, kw, hdr, fixed in PLAN:
        f = pb.resolve(mname)
        if f is None:
            continue
        params = [a.arg for a in f.node.args.args if a.arg != 'self']
        if not set(kw) <= set(params):
            # renamed parameters: by position
            kw = dict(zip(params, list(kw.values())))
        defaults = f.node.args.defaults
        for prm, dflt in zip(params[len(params) - len(defaults):], defaults):
            if prm not in kw:
                try:
                    kw = dict(kw, **{prm: Evaluator({}, hook, nh).ev(dflt)})
                except Unsupported:
                    pass
        try:
            for declared in ((0, 1, 3) if hdr else (None,)):
                body = bytes([0x41 + i for i in range(declared or 0)]) if hdr else b''
                need = (hdr + declared) if hdr else fixed
                full = (declared.to_bytes(hdr, 'big') + body) if hdr else bytes([(0x10 + i) & 0x7f for i in range(fixed)])
                for offset in (0, 2):
                    for present in sorted({0, max(need - 1, 0), need, need + 3, max(hdr - 1, 0) if hdr else 0}):
                        data = b'\x7e' * offset + (full + b'\x01\x02\x03')[:present]
                        me = State(data, offset, order_be)
                        runs += 1
                        try:
                            Evaluator(dict({'self': me}, **kw), hook, nh).function(f.node)
                            raised = None
                        except Raised as e:
                            raised = e
                        what = '%s(%s) with %d of the %d octets it needs present' % (mname, ', '.join('%s=%r' % (k, v) for k, v in kw.items() if k != 'name' and not isinstance(v, Native)), present, need)
                        if present >= need:
                            if raised is not None:
                                if 'InvalidValue' in raised.what and mname == 'parse_timestamp':
                                    continue
                                bad.setdefault(f.qualname, '%s raises %s' % (what, raised.what[:50]))
                            elif me._parsed_length != offset + need:
                                bad.setdefault(f.qualname, '%s moves the cursor by %d' % (what, me._parsed_length - offset))
                        else:
                            missing_now = need - present if present >= hdr else None      # the length is not known before its prefix is there
                            if raised is None:
                                bad.setdefault(f.qualname, '%s returns (cursor %d of %d)' % (what, me._parsed_length, len(data)))
                            elif 'NotEnoughData' not in raised.what:
                                bad.setdefault(f.qualname, '%s raises %s instead of NotEnoughData' % (what, raised.what[:40]))
                            else:
                                v = raised.value
                                cnt = (v.kwargs.get('bytes_needed') if isinstance(v, ExcVal) and v.kwargs else (v.args[0] if isinstance(v, ExcVal) and v.args else None))
                                upper = missing_now if missing_now is not None else hdr - present
                                if not (isinstance(cnt, int) and 1 <= cnt <= max(upper, 1)) or (missing_now is not None and cnt != missing_now and hdr == 0):
                                    bad.setdefault(f.qualname, '%s: NotEnoughData carries %r, %s octets are missing' % (what, cnt, upper))
            decided.add(f.qualname)
        except Unsupported as e:
            report.undecided.append('C03.R4: ParserBinary.%s left the subset the evaluation understands (%s); decided on its syntax' % (mname, e))
    report.count('C03.R4', runs)
    for q, text in sorted(bad.items()):
        report.add('C03.R4', '%s@tabulation' % pb.resolve(q.split('.')[-1]).construct, text)
    if decided:
        report.sample({'rule': 'C03.R4', 'verdict': 'evaluated with the real struct module', 'primitives': sorted(decided), 'runs': runs})
    # helpers of the class the decided primitives call are decided with them
    for q in list(decided):
        f = pb.resolve(q.split('.')[-1])
        for n in ast.walk(f.node):
            if isinstance(n, ast.Call) and isinstance(n.func, ast.Attribute) and isinstance(n.func.value, ast.Name) and n.func.value.id in ('self', 'cls'):
                m = pb.resolve(n.func.attr)
                if m is not None and m.cls is pb:
                    decided.add(m.qualname)
    return decided


def cursor_writes(ctx, report):
    model = ctx.model
    evaluated = parse_parsable_tabulation(ctx, report)
    evaluated |= binary_primitive_tabulation(ctx, report)
    for cname in ('ParserBase', 'ParserText', 'ParserBinary'):
        c = model.cls(cname)
        for name, f in c.methods.items():
            if f.qualname in evaluated:
                continue
            for st in ast.walk(f.node):
                tgt = None
                if isinstance(st, ast.AugAssign):
                    tgt = st.target
                elif isinstance(st, ast.Assign) and len(st.targets) == 1:
                    tgt = st.targets[0]
                if not (isinstance(tgt, ast.Attribute) and tgt.attr == '_parsed_length' and isinstance(tgt.value, ast.Name) and tgt.value.id == 'self'):
                    continue
                report.count('C03.R4')
                report.touch(f)
                verdict = classify_cursor_write(f, st)
                inc = cursor_increment(st)
                key = '%s@_parsed_length %s %s' % (f.construct, '+=' if inc is not None else ('-=' if isinstance(st, ast.AugAssign) else '='),
                                                  ast.unparse(inc if inc is not None else st.value))
                if verdict is None:
                    q = '%s.%s' % (cname, name)
                    if q in REVIEWED_CURSOR and reviewed_cursor_fact(q, f, st):
                        report.sample({'rule': 'C03.R4', 'site': key, 'verdict': 'reviewed', 'reason': REVIEWED_CURSOR[q]}, 40)
                        continue
                    report.add('C03.R4', key, 'the cursor is advanced by a quantity that was not checked against the bytes present')
                else:
                    report.sample({'rule': 'C03.R4', 'site': key, 'verdict': verdict}, 40)


def classify_cursor_write(f, st):
    inc = cursor_increment(st)
    val = inc if inc is not None else st.value        # ``c = c + x`` is classified like ``c += x``
    src = ast.unparse(val)
    defs = {}
    for n in ast.walk(f.node):
        if isinstance(n, ast.Assign) and len(n.targets) == 1:
            t = n.targets[0]
            if isinstance(t, ast.Tuple):
                for i, e in enumerate(t.elts):
                    if isinstance(e, ast.Name):
                        defs.setdefault(e.id, []).append((n.value, i))
            elif isinstance(t, ast.Name):
                defs.setdefault(t.id, []).append((n.value, None))
    # ``pair = f(); a = pair[0]; n = pair[1]`` is ``a, n = f()``
    for name, ds in list(defs.items()):
        for v, i in list(ds):
            if i is None and isinstance(v, ast.Subscript) and isinstance(v.value, ast.Name) and isinstance(v.slice, ast.Constant) and \
                    isinstance(v.slice.value, int) and len(defs.get(v.value.id, [])) == 1 and defs[v.value.id][0][1] is None and \
                    isinstance(defs[v.value.id][0][0], ast.Call):
                ds.remove((v, i))
                ds.append((defs[v.value.id][0][0], v.slice.value))

    def from_helper(name, idx=1):
        for v, i in defs.get(name, []):
            if isinstance(v, ast.Call) and isinstance(v.func, ast.Attribute) and v.func.attr in CHECKED_HELPERS and i == idx:
                return v.func.attr
        return None

    dec = None
    if isinstance(st, ast.AugAssign) and isinstance(st.op, ast.Sub):
        dec = st.value
    elif isinstance(st, ast.Assign) and isinstance(st.value, ast.BinOp) and isinstance(st.value.op, ast.Sub) and \
            ast.unparse(st.value.left) == 'self._parsed_length':
        dec = st.value.right
    if dec is not None:
        # parse_bytes undoing its own advance inside the NotEnoughData handler
        if isinstance(dec, ast.Name) and from_helper(dec.id):
            return 'undo of a checked advance'
        return None
    if isinstance(val, ast.Name):
        h = from_helper(val.id)
        if h:
            return 'length returned by checked helper %s' % h
        if val.id in f.params and any(isinstance(n, ast.Call) and isinstance(n.func, ast.Attribute) and n.func.attr == '_parse_bytes'
                                      and n.args and isinstance(n.args[0], ast.Name) and n.args[0].id == val.id for n in ast.walk(f.node)):
            return 'size that passed _parse_bytes'
        ds = defs.get(val.id, [])
        if ds and all(isinstance(v, ast.Call) and isinstance(v.func, ast.Attribute) and v.func.attr in ('parse_immutable', 'parse')
                      and i == 1 for v, i in ds):
            return 'length reported by a nested parse'
        if ds and all(isinstance(v, ast.Call) and isinstance(v.func, ast.Attribute) and isinstance(v.func.value, ast.Name) and v.func.value.id == 'self'
                      and i is not None and helper_returns_checked_length(f, v.func.attr, i) for v, i in ds):
            return 'length returned by a helper of the class whose every return is a nested parse report or a declared length compared with the bytes present'
        if ds and len(ds) > 1:
            # several definitions: each must be a nested parse report or a sum of an item size that was read and a
            # declared length that is compared with the bytes present before the write
            ok = True
            for v, i in ds:
                if isinstance(v, ast.Call) and isinstance(v.func, ast.Attribute) and v.func.attr in ('parse_immutable', 'parse') and i == 1:
                    continue
                if isinstance(v, ast.BinOp) and isinstance(v.op, ast.Add):
                    names = {n.id for n in ast.walk(v) if isinstance(n, ast.Name)}
                    guarded = False
                    for n in ast.walk(f.node):
                        if isinstance(n, ast.If) and any(isinstance(x, ast.Raise) and x.exc is not None and 'NotEnoughData' in ast.unparse(x.exc) for x in n.body):
                            tn = {x.id for x in ast.walk(n.test) if isinstance(x, ast.Name)}
                            if 'unparsed_length' in ast.unparse(n.test) and (names & tn):
                                guarded = True
                    if guarded:
                        continue
                ok = False
            if ok:
                return 'nested parse report or declared length compared with the bytes present'
        if val.id == 'item_offset':
            return None
        return None
    if isinstance(val, ast.Call) and isinstance(val.func, ast.Name) and val.func.id == 'len' and val.args:
        a = val.args[0]
        if isinstance(a, ast.Name):
            for v, i in defs.get(a.id, []):
                if isinstance(v, ast.Call) and isinstance(v.func, ast.Attribute) and v.func.attr == '_parse_bytes':
                    return 'len() of the slice returned by _parse_bytes'
        if isinstance(a, ast.Attribute) and a.attr == '_parsable':
            return 'to the end of the input'
    if isinstance(val, ast.Call) and isinstance(val.func, ast.Attribute) and val.func.attr in CHECKED_HELPERS:
        return 'length returned by checked helper %s' % val.func.attr
    if isinstance(val, ast.BinOp) and isinstance(val.op, ast.Add):
        parts = [val.left, val.right]
        oks = []
        for p in parts:
            if isinstance(p, ast.Name) and (from_helper(p.id)):
                oks.append(True)
            elif isinstance(p, ast.Constant) and isinstance(p.value, int) and p.value >= 0:
                oks.append('const')
            else:
                oks.append(False)
        if all(x is True for x in oks):
            return 'sum of checked lengths'
    return None


def helper_returns_checked_length(f, name, idx, depth=0):
    """``x, n = self.<name>(...)``: element ``idx`` of every tuple the helper returns is the length a nested parse reported,
    the result of a checked primitive, or a sum of non-negative parts one of which was compared with the bytes present
    (``if <part> > <...unparsed_length...>: raise NotEnoughData``) inside the helper"""
    g = f.cls.resolve(name) if f.cls is not None else None
    if g is None or depth > 2:
        return False
    defs = {}
    for n in ast.walk(g.node):
        if isinstance(n, ast.Assign) and len(n.targets) == 1:
            t = n.targets[0]
            if isinstance(t, ast.Tuple):
                for i, e in enumerate(t.elts):
                    if isinstance(e, ast.Name):
                        defs.setdefault(e.id, []).append((n.value, i))
            elif isinstance(t, ast.Name):
                defs.setdefault(t.id, []).append((n.value, None))

    def expand(node):
        txt = ast.unparse(node)
        for nm in {x.id for x in ast.walk(node) if isinstance(x, ast.Name)}:
            for v, i in defs.get(nm, []):
                if i is None:
                    txt += ' | ' + ast.unparse(v)
        return txt
    guards = []
    for n in ast.walk(g.node):
        if isinstance(n, ast.If) and any(isinstance(x, ast.Raise) and x.exc is not None and 'NotEnoughData' in ast.unparse(x.exc) for x in n.body):
            if 'unparsed_length' in expand(n.test) or 'len(self._parsable)' in expand(n.test):
                guards.append({x.id for x in ast.walk(n.test) if isinstance(x, ast.Name)})

    def nested_report(v, i):
        return isinstance(v, ast.Call) and isinstance(v.func, ast.Attribute) and (
            (v.func.attr in ('parse_immutable', 'parse') and i == 1) or (v.func.attr in CHECKED_HELPERS and i == 1) or
            (isinstance(v.func.value, ast.Name) and v.func.value.id == 'self' and i is not None and helper_returns_checked_length(g, v.func.attr, i, depth + 1)))

    def ok_expr(e):
        if isinstance(e, ast.Constant) and isinstance(e.value, int) and e.value >= 0:
            return True
        if isinstance(e, ast.Name):
            if e.id in [a.arg for a in g.node.args.args]:
                return 'param'
            ds = defs.get(e.id, [])
            if ds and all(nested_report(v, i) for v, i in ds):
                return True
            if any(e.id in gd for gd in guards):
                return True
            if ds and all(i is None and isinstance(v, ast.Subscript) and isinstance(v.value, ast.Name) and
                          any(nested_report(v2, i2) for v2, i2 in defs.get(v.value.id, [])) for v, i in ds):
                return 'read'       # an element of what a checked primitive returned (a length that was read)
            return False
        if isinstance(e, ast.BinOp) and isinstance(e.op, ast.Add):
            l, r = ok_expr(e.left), ok_expr(e.right)
            names = {x.id for x in ast.walk(e) if isinstance(x, ast.Name)}
            if l and r and (l is True or r is True or any(names & gd for gd in guards)):
                return True
            return False
        return False
    rets = [r for r in ast.walk(g.node) if isinstance(r, ast.Return) and r.value is not None]
    if not rets:
        return False
    for r in rets:
        v = r.value
        if isinstance(v, ast.Tuple) and idx < len(v.elts):
            res = ok_expr(v.elts[idx])
            if res is not True:
                return False
        elif nested_report(v, idx):
            continue
        else:
            return False
    return True


def cursor_increment(st):
    """the amount a cursor write adds: ``self._parsed_length += X`` and ``self._parsed_length = self._parsed_length + X`` both
    give X; None for a plain assignment of another value"""
    if isinstance(st, ast.AugAssign) and isinstance(st.op, ast.Add):
        return st.value
    if isinstance(st, ast.Assign) and isinstance(st.value, ast.BinOp) and isinstance(st.value.op, ast.Add):
        for a, b in ((st.value.left, st.value.right), (st.value.right, st.value.left)):
            if ast.unparse(a) == 'self._parsed_length':
                return b
    return None


def reviewed_cursor_fact(q, f, st):
    calls_before = [n for n in ast.walk(f.node) if isinstance(n, ast.Call) and isinstance(n.func, ast.Attribute) and
                    isinstance(n.func.value, ast.Name) and n.func.value.id == 'self' and n.lineno < st.lineno]
    inc = cursor_increment(st)
    if q.endswith('parse_mpint') and not q.endswith('ssh_mpint'):
        return any(n.func.attr == '_parse_mpint' for n in calls_before)
    if q.endswith('parse_ssh_mpint'):
        return any(n.func.attr == '_parse_mpint' for n in calls_before) and 'NotEnoughData' in ast.unparse(f.node)
    if q.endswith('parse_string_null_terminated'):
        by_length = [n for n in calls_before if n.func.attr == '_parse_string_by_length' and len(n.args) >= 3 and
                     ast.unparse(n.args[1]) == ast.unparse(n.args[2])]
        return bool(by_length) and inc is not None and isinstance(inc, ast.BinOp) and isinstance(inc.op, ast.Add) and \
            any(isinstance(x, ast.Constant) and x.value == 1 for x in (inc.left, inc.right))
    if q.endswith('_parse_string_array'):
        return isinstance(st, ast.Assign) and ast.unparse(st.value) == 'item_offset'
    if q.endswith('parse_date_time'):
        return isinstance(st, ast.Assign) and ast.unparse(st.value) == 'len(self._parsable)'
    return False


# ---- R5 -------------------------------------------------------------------------------------------

def containment(ctx, report, RULE='C03.R5', only=None):
    model = ctx.model
    for cname, lenkey, kind in FRAMING:
        if only is not None and not only(cname, lenkey, kind):
            continue
        c = model.try_cls(cname)
        if c is None:
            report.error(RULE + ': framing unit %s vanished' % cname)
            continue
        report.count(RULE)
        if kind in ('asn1', 'text'):
            continue
        cn = ctx.canon.canon(c, 'parse')
        cons = c.resolve('_parse').construct
        from ..codecs import EVALUATED_CODECS
        if cname in EVALUATED_CODECS and lenkey and not [e for e in cn.flat if e.key == lenkey]:
            # the declared length is no longer a field of its own (one header word split arithmetically): the unit is
            # evaluated against its wire format - length reported, trailing bytes ignored, every prefix short (sa/codecs.py)
            ev = EVALUATED_CODECS[cname](ctx)
            if ev['evaluated']:
                report.count(RULE, ev['runs'])
                if 'parse' in ev['problems']:
                    report.add(RULE, cons + '@codec', ev['problems']['parse'])
                continue
        ms = min_size(cn.elements, ctx.canon)
        if ms < 1:
            report.add(RULE, cons + '@empty', 'the layout accepts an empty input: a frame would consume 0 bytes')
        if not lenkey:
            if cname == 'SslRecord':
                ssl_record(ctx, report, c, cn, cons)
            continue
        lens = [e for e in cn.flat if e.kind == 'u' and e.key == lenkey]
        if not lens:
            # the key names the body now (parse_bytes split into parse_numeric + parse_raw): the declared length is the
            # numeric element the body's size is linked to
            body = [e for e in cn.flat if e.key == lenkey and e.kind in ('raw', 'nested', 'array')]
            for le in [e for e in cn.flat if e.kind == 'u' and getattr(e, 'link', None)]:
                if body and any(t is body[0] for t in le.link[2]):
                    lens = [le]
                    lenkey = le.key
                    break
        if not lens:
            report.add(RULE, cons + '@length[%s]' % lenkey, 'declared length field is not read')
            continue
        le = lens[0]
        link = getattr(le, 'link', None)
        top = cn.elements
        idx = top.index(le) if le in top else None
        after = top[idx + 1:] if idx is not None else []
        governed = set()
        if link:
            for t in link[2]:
                governed.add(id(t))
                for d in _descendants([t]):
                    governed.add(id(d))
                if t.kind == 'raw' and 'subbody' in t.extra:
                    for d in _descendants(t.extra['subbody']):
                        governed.add(id(d))
        loose = [e for e in after if id(e) not in governed and fixed_size(e, ctx.canon) is None]
        if loose:
            report.add(RULE, cons + '@containment[%s]' % lenkey,
                       'elements after the declared length are parsed on the unbounded remainder, not inside the declared %s bytes: %s' % (
                           lenkey, ', '.join(x.sig() + ('@%s' % x.key if x.key else '') for x in loose)))
        else:
            report.sample({'rule': RULE, 'class': cname, 'length': lenkey, 'body': [x.sig() for x in after][:6], 'verdict': 'contained'}, 30)


def is_governed_by(e, lenkey):
    """fixed size trailer fields sized by other header fields (e.g. padding) are not contained by the length"""
    return False


def ssl_record(ctx, report, c, cn, cons):
    # the record length is assembled from two header bytes; the body is parsed by parse_variant on the remainder
    kinds = [e.kind for e in cn.flat]
    if 'variant' in kinds:
        report.add('C03.R5', cons + '@containment[record_length]',
                   'the SSL 2.0 message is parsed on the unbounded remainder (parse_variant), not inside the declared record_length bytes')


# ---- R6: the length a nested parse reports is not thrown away -----------------------------------------------------

def nested_lengths(ctx, report, RULE='C03.R6', scope=None):
    """a call of K.parse_immutable / K.parse_mutable / K._parse returns (object, consumed length). A caller that keeps
    only the object accepts any input the nested parser consumed a *prefix* of (string enums match their longest known
    prefix, vectors stop at their declared size): the rest of the field is silently dropped and a longer unknown value
    is decoded as a shorter known one. The length must be bound to a name that is read afterwards, or the pair must be
    returned / used whole."""
    model = ctx.model
    report.rule(RULE, 'the consumed length reported by a nested parse call is used by the caller')
    for f in model.functions():
        if f.module.external or (scope is not None and not f.module.relpath.startswith(scope)):
            continue
        parents = {}
        for n in ast.walk(f.node):
            for ch in ast.iter_child_nodes(n):
                parents[id(ch)] = n
        for n in ast.walk(f.node):
            if not (isinstance(n, ast.Call) and isinstance(n.func, ast.Attribute) and n.func.attr in ('parse_immutable', 'parse_mutable', '_parse')):
                continue
            report.count(RULE)
            report.touch(f)
            par = parents.get(id(n))
            ok = True
            why = ''
            if isinstance(par, ast.Assign) and len(par.targets) == 1:
                t = par.targets[0]
                if isinstance(t, (ast.Tuple, ast.List)) and len(t.elts) == 2:
                    ln = t.elts[1]
                    if not isinstance(ln, ast.Name) or not name_read_after(f.node, ln.id, par):
                        ok, why = False, 'the length is bound to %s and never read' % ast.unparse(ln)
                    elif only_dead_stores(f.node, ln.id, par):
                        ok, why = False, 'the length is bound to %s, which only feeds assignments that are never read' % ast.unparse(ln)
                elif isinstance(t, ast.Name):
                    uses = [x for x in ast.walk(f.node) if isinstance(x, ast.Subscript) and isinstance(x.value, ast.Name) and x.value.id == t.id]
                    idx = {ast.unparse(u.slice) for u in uses}
                    whole = any(isinstance(x, ast.Return) and isinstance(x.value, ast.Name) and x.value.id == t.id for x in ast.walk(f.node))
                    if not whole and '1' not in idx and '-1' not in idx:
                        ok, why = False, 'only the object part of %s is used' % t.id
            elif isinstance(par, ast.Subscript) and ast.unparse(par.slice) in ('0',):
                ok, why = False, 'the call is indexed with [0]: the length is dropped'
            elif isinstance(par, ast.Expr):
                ok, why = False, 'the result is discarded'
            if not ok and isinstance(n.func.value, (ast.Name, ast.Attribute)):
                k = model.resolve_expr(f.module, n.func.value)
                if hasattr(k, 'mro') and takes_whole_input(ctx, k):
                    ok = True               # nothing can be left over: the dropped length is always the length of the input
                    report.sample({'rule': RULE, 'site': f.qualname, 'nested': k.name, 'verdict': 'the nested parser consumes its whole input on every path'})
                elif k is None and isinstance(n.func.value, ast.Name) and f.cls is not None and f.cls.name == 'ParserText' and \
                        n.func.value.id in [a.arg for a in f.node.args.args]:
                    # the nested class is a parameter of a text primitive: every class the repository hands to the text
                    # primitives as item / fallback class has to take its whole input
                    flow = text_item_classes(ctx)
                    partial = sorted(c.name for c in flow if not takes_whole_input(ctx, c))
                    if flow and not partial:
                        ok = True
                        report.sample({'rule': RULE, 'site': f.qualname, 'nested': sorted(c.name for c in flow),
                                       'verdict': 'every item class handed to the text primitives consumes its whole input'})
                    elif partial:
                        why += '; item classes that can stop before the end of the item: %s' % ', '.join(partial[:6])
            if not ok:
                report.add(RULE, '%s@nested[%s]' % (f.construct, ast.unparse(n.func)[:50]),
                           'nested parse %s: %s - a value longer than what the nested parser consumed is accepted and truncated' % (ast.unparse(n)[:60], why))
    if scope is None:
        report.floor(RULE, 8, 'nested parse calls')


def only_dead_stores(fnode, name, after):
    """is every read of ``name`` after ``after`` the right hand side of a plain assignment to a local that is never read
    afterwards (``item_end = item_offset + parsed_length`` with item_end unused)?"""
    parents = {}
    for n in ast.walk(fnode):
        for ch in ast.iter_child_nodes(n):
            parents[id(ch)] = n
    reads = [x for x in ast.walk(fnode) if isinstance(x, ast.Name) and x.id == name and isinstance(x.ctx, ast.Load) and getattr(x, 'lineno', 0) >= after.lineno]
    rebinds = [st for st in ast.walk(fnode) if isinstance(st, ast.Assign) and st is not after and
               any(isinstance(t, ast.Name) and t.id == name for tg in st.targets for t in ast.walk(tg))]

    def sees_other_definition(x):
        # a later, unconditional re-binding in a block that encloses the read and comes before it
        chain = [x] + list(_ancestors(x, parents))
        for node, anc in zip(chain, chain[1:]):
            for field in ('body', 'orelse', 'finalbody'):
                block = getattr(anc, field, None)
                if isinstance(block, list) and any(b is node for b in block):
                    idx = [i for i, b in enumerate(block) if b is node][0]
                    if any(r is b for b in block[:idx] for r in rebinds) and not any(_inside(after, b) for b in block[:idx + 1]):
                        return True
        return False
    reads = [x for x in reads if not sees_other_definition(x)]
    if not reads:
        return False
    for x in reads:
        p = x
        while id(p) in parents and not isinstance(p, ast.stmt):
            p = parents[id(p)]
        if not (isinstance(p, ast.Assign) and len(p.targets) == 1 and isinstance(p.targets[0], ast.Name)):
            return False
        tgt = p.targets[0].id
        if tgt == name:
            return False
        later = [y for y in ast.walk(fnode) if isinstance(y, ast.Name) and y.id == tgt and isinstance(y.ctx, ast.Load) and
                 (getattr(y, 'lineno', 0), getattr(y, 'col_offset', 0)) > (p.lineno, p.col_offset) and not _inside(y, p) and
                 not _exclusive(p, y, parents)]
        in_loop = any(isinstance(q, (ast.While, ast.For)) for q in _ancestors(p, parents))
        if later or in_loop:
            return False
    return True


def _exclusive(a, b, parents):
    """are the two nodes in different arms of one ``if`` statement (so that control cannot pass from one to the other
    without leaving the statement)?"""
    def arms(node):
        out = {}
        prev = node
        for anc in _ancestors(node, parents):
            if isinstance(anc, ast.If):
                if any(x is prev for x in anc.body):
                    out[id(anc)] = 'body'
                elif any(x is prev for x in anc.orelse):
                    out[id(anc)] = 'orelse'
            prev = anc
        return out
    aa, bb = arms(a), arms(b)
    return any(k in bb and bb[k] != v for k, v in aa.items())


def _inside(node, stmt):
    return any(x is node for x in ast.walk(stmt))


def _ancestors(node, parents):
    while id(node) in parents:
        node = parents[id(node)]
        yield node


_TEXT_ITEM_CLASSES = {}


def text_item_classes(ctx):
    """parsable repository classes handed to the text primitives as item_class / fallback_class: keyword or positional
    arguments of parse_string* calls, and the item / fallback class of every VectorString parameter object"""
    if 'v' in _TEXT_ITEM_CLASSES:
        return _TEXT_ITEM_CLASSES['v']
    from ..values import ClassV, ObjV
    model = ctx.model
    out = set()

    def add(k):
        if hasattr(k, 'mro') and model.is_parsable(k):
            out.add(k)
    for f in model.functions():
        if f.module.external:
            continue
        for n in ast.walk(f.node):
            if isinstance(n, ast.Call) and isinstance(n.func, ast.Attribute) and n.func.attr.startswith('parse_string'):
                for kw in n.keywords:
                    if kw.arg in ('item_class', 'fallback_class'):
                        add(model.resolve_expr(f.module, kw.value))
                for a in n.args[1:]:
                    if isinstance(a, (ast.Name, ast.Attribute)):
                        add(model.resolve_expr(f.module, a))
    for c in model.repo_classes():
        if not c.is_subclass_of('VectorString') or c.abstract_methods or c.resolve('get_param') is None or c.resolve('get_param').abstract:
            continue
        prm = ctx.interp.const_call(c, 'get_param')
        if isinstance(prm, ObjV):
            for attr_name in ('item_class', 'fallback_class'):
                v = prm.attrs.get(attr_name)
                if isinstance(v, ClassV):
                    add(v.cls)
    _TEXT_ITEM_CLASSES['v'] = out
    return out


def takes_whole_input(ctx, k):
    """does every successful path of K._parse consume the input to its end?  Decided on the layout: the last element is a
    string without an upper bound on its length, or an alternative on ``unparsed_length`` whose non-empty branch ends that way
    (and whose other branch is empty: nothing was left). Anything else: not known (False)"""
    from ..values import show
    try:
        val = ctx.canon.layout(k, 'parse').result.value
        pairs = list(val.args) if isinstance(val, Sym) and val.op == 'phi' else [val]
        if pairs and all(isinstance(a, tuple) and len(a) == 2 and isinstance(a[1], Sym) and a[1].op == 'len' and isinstance(a[1].args[0], InputV)
                         for a in pairs):
            return True                 # every return reports len(parsable): success means the whole input was taken (exact size variants)
    except Exception:       # pylint: disable=broad-except
        pass
    try:
        cn = ctx.canon.canon(k, 'parse')
    except Exception:       # pylint: disable=broad-except
        return False

    def rest(seq):
        if not seq:
            return False
        e = seq[-1]
        if e.kind == 't:string_by_length':
            targs = e.extra.get('targs', {})
            return 'max_length' in targs and targs['max_length'] is None
        if e.kind == 't:string_array':
            targs = e.extra.get('targs', {})
            return 'max_item_num' in targs and targs['max_item_num'] is None      # the item loop runs until nothing is left
        if e.kind == 'alt':
            cond = getattr(e.op, 'cond', None)
            text = show(cond) if cond is not None else ''
            if '.unparsed_length' in text and not any(o in text for o in ('<', '>', '=', '-', '+')):
                return rest(e.a) and not e.b
        return False
    return rest(list(cn.elements))


def name_read_after(fnode, name, after):
    for x in ast.walk(fnode):
        if isinstance(x, ast.Name) and x.id == name and isinstance(x.ctx, ast.Load) and getattr(x, 'lineno', 0) >= after.lineno:
            return True
    return False


# ---- R7: items of a sized array are parsed inside the declared window ------------------------------------------------

def item_windows(ctx, report):
    """the array primitives that take the byte size of the array (``items_size``) must hand their item parsers a buffer that
    ends where the declared array ends: the initial binding of the buffer variable is a slice of the input whose upper
    bound is offset + items_size, and it is only ever re-bound to a suffix of itself. Otherwise the last item can read
    bytes that belong to the next field (n exceeds the declared size)."""
    model = ctx.model
    report.rule('C03.R7', 'sized array primitives parse their items from a slice bounded by the declared size')
    for cname in ('ParserBase', 'ParserBinary', 'ParserText'):
        c = model.try_cls(cname)
        if c is None:
            continue
        for name, f in c.methods.items():
            params = [a.arg for a in f.node.args.args]
            if 'items_size' not in params:
                continue
            calls = [(n, n.args[0]) for n in ast.walk(f.node)
                     if isinstance(n, ast.Call) and isinstance(n.func, ast.Attribute) and n.func.attr == 'parse_immutable' and n.args]
            # item parses done by a helper method that is handed the buffer (also through further helpers): the argument of the
            # helper call is the buffer; a helper that re-binds the parameter is not followed, except to a suffix of itself
            def through_helpers(fn, depth, seen):
                """[(parse_immutable call, index of the parameter of ``fn`` that reaches it unchanged or as a suffix)]"""
                out = []
                hp = [a.arg for a in fn.node.args.args if a.arg not in ('self', 'cls')]
                rebound = {t.id for st in ast.walk(fn.node) if isinstance(st, ast.Assign) for t in st.targets if isinstance(t, ast.Name)}

                def param_of(e):
                    if isinstance(e, ast.Subscript) and isinstance(e.slice, ast.Slice) and e.slice.upper is None:
                        e = e.value         # a suffix of the buffer ends where the buffer ends
                    if isinstance(e, ast.Name) and e.id in hp and e.id not in rebound:
                        return hp.index(e.id)
                    return None
                for x in ast.walk(fn.node):
                    if not (isinstance(x, ast.Call) and isinstance(x.func, ast.Attribute) and x.args):
                        continue
                    if x.func.attr == 'parse_immutable':
                        k = param_of(x.args[0])
                        if k is not None:
                            out.append((x, k))
                    elif depth < 3 and isinstance(x.func.value, ast.Name) and (
                            x.func.value.id in ('self', 'cls') or x.func.value.id in [k_.name for k_ in c.mro if hasattr(k_, 'name')]):
                        g = c.resolve(x.func.attr)
                        if g is None or g.module.external or (g is fn and depth > 0 and id(x) in seen):
                            continue
                        if id(g) in seen and g is not fn:
                            continue
                        inner = through_helpers(g, depth + 1, seen | {id(g), id(x)}) if g is not fn else []
                        for call_, gi in inner:
                            if gi < len(x.args):
                                k = param_of(x.args[gi])
                                if k is not None:
                                    out.append((call_, k))
                                    report.touch(g)
                return out
            for n in ast.walk(f.node):
                if isinstance(n, ast.Call) and isinstance(n.func, ast.Attribute) and isinstance(n.func.value, ast.Name) and \
                        (n.func.value.id in ('self', 'cls') or n.func.value.id in [k.name for k in c.mro if hasattr(k, 'name')]):
                    h = c.resolve(n.func.attr)
                    if h is None or h is f or h.module.external:
                        continue
                    for x, k in through_helpers(h, 0, {id(h)}):
                        if k < len(n.args):
                            calls.append((x, n.args[k]))
                            report.touch(h)
            if not calls:
                continue
            report.touch(f)
            for call, arg in calls:
                report.count('C03.R7')
                if not isinstance(arg, ast.Name):
                    if not (isinstance(arg, ast.Subscript) and isinstance(arg.slice, ast.Slice) and arg.slice.upper is not None and 'items_size' in ast.unparse(arg.slice.upper)):
                        report.add('C03.R7', '%s@window[%s]' % (f.construct, ast.unparse(call.func)[:40]), 'item parser input %s is not bounded by items_size' % ast.unparse(arg)[:60])
                    continue
                assigns = sorted([st for st in ast.walk(f.node) if isinstance(st, ast.Assign) and any(isinstance(t, ast.Name) and t.id == arg.id for t in st.targets)],
                                 key=lambda st: st.lineno)
                if not assigns:
                    report.add('C03.R7', '%s@window[%s]' % (f.construct, arg.id), 'item parser input %s is never bound' % arg.id)
                    continue
                first = assigns[0].value

                def mentions_size(e, depth=0):
                    # the upper bound itself, or a local name bound once to an expression that mentions items_size
                    if 'items_size' in ast.unparse(e):
                        return True
                    if depth < 3:
                        for nm in [x for x in ast.walk(e) if isinstance(x, ast.Name)]:
                            defs = [st.value for st in ast.walk(f.node) if isinstance(st, ast.Assign) and len(st.targets) == 1 and
                                    isinstance(st.targets[0], ast.Name) and st.targets[0].id == nm.id]
                            if len(defs) == 1 and mentions_size(defs[0], depth + 1):
                                return True
                    return False
                bounded = isinstance(first, ast.Subscript) and isinstance(first.slice, ast.Slice) and first.slice.upper is not None and \
                    mentions_size(first.slice.upper) and '_parsable' in ast.unparse(first.value)
                suffix_only = all(isinstance(st.value, ast.Subscript) and isinstance(st.value.value, ast.Name) and st.value.value.id == arg.id and
                                  isinstance(st.value.slice, ast.Slice) and st.value.slice.upper is None for st in assigns[1:])
                if not bounded or not suffix_only:
                    report.add('C03.R7', '%s@window[%s]' % (f.construct, arg.id),
                               'the buffer handed to the item parsers (%s = %s) does not end at offset + items_size: the last item can read past the declared array' % (
                                   arg.id, ast.unparse(first)[:60]))
    report.floor('C03.R7', 2, 'sized array item parses')


# ---- R8: a window cut out of the input by a declared length is checked against the bytes present ----------------------

def declared_windows(ctx, report):
    """``parsable[a:<expression over a parsed length field>]`` silently yields fewer bytes than declared when the buffer is
    short (python slices never fail): the structure is then accepted from a proper prefix with a smaller n. Such a slice
    must be dominated by a comparison of the declared end with len(parsable) that raises NotEnoughData."""
    model = ctx.model
    report.rule('C03.R8', 'a slice of the input bounded by a declared length is preceded by an availability check')
    n = 0
    for f in model.functions():
        if f.module.external or not f.name.lstrip('_').startswith('parse') or not f.node.args.args:
            continue
        params = [a.arg for a in f.node.args.args]
        buf = 'parsable' if 'parsable' in params else None
        if buf is None:
            continue
        for s in ast.walk(f.node):
            if not (isinstance(s, ast.Subscript) and isinstance(s.value, ast.Name) and s.value.id == buf and isinstance(s.slice, ast.Slice) and s.slice.upper is not None):
                continue
            up = s.slice.upper
            from ..rejections import fields_read
            from ..astutil import inline_locals
            fields = sorted(fields_read(up, f))       # through locals, tuple components and the values helper methods return
            if not fields:
                continue
            n += 1
            report.count('C03.R8')
            report.touch(f)
            key = fields[0]
            guarded = False
            for g in ast.walk(f.node):
                if isinstance(g, ast.If) and g.lineno < s.lineno and 'len(%s)' % buf in ast.unparse(inline_locals(g.test, f.node)) and \
                        key in fields_read(g.test, f) and any(isinstance(x, ast.Raise) and 'NotEnoughData' in ast.unparse(x) for x in ast.walk(g)):
                    guarded = True
            if not guarded:
                report.add('C03.R8', '%s@window[%s]' % (f.construct, key),
                           'the input is sliced up to an offset computed from the parsed field %r without checking that the buffer is that long: a '
                           'buffer that ends early is accepted as a shorter structure (n smaller than the declared size)' % key)
    if n < 1:
        report.error('C03.R8: no length bounded window slice found (anchor moved)')


# ---- R10: messages framed by a library decoder ---------------------------------------------------------------------------

def constant_of_source(e):
    """an integer literal, an upper case name or class level constant (``cls.HEADER_SIZE``), or arithmetic over those"""
    if isinstance(e, ast.Constant):
        return isinstance(e.value, int)
    if isinstance(e, ast.Name):
        return e.id.isupper() or e.id.lstrip('_').isupper()
    if isinstance(e, ast.Attribute):
        return isinstance(e.value, ast.Name) and e.attr.lstrip('_').replace('_', 'A').isupper()
    if isinstance(e, ast.BinOp):
        return constant_of_source(e.left) and constant_of_source(e.right)
    if isinstance(e, ast.UnaryOp):
        return constant_of_source(e.operand)
    return False


def buffer_length_decisions(ctx, report, RULE='C03.R13'):
    """What a frame is parsed into depends on its own n bytes only: the same frame followed by other data gives the same object
    and the same n.  The one quantity through which the bytes *after* the frame reach the parser is the length of the whole
    buffer.  ``len(parsable)`` of a parse function may be compared only to decide that data is missing or left over (the test of
    an ``if`` that raises NotEnoughData / TooMuchData); every other comparison that reads it - a look-ahead that asks whether a
    vector "lasts until the end", a branch on what is left - decides differently for the same frame in a longer buffer.
    Functions with a parameter ``parsable`` are read; comparisons against an item's own length while selecting candidates
    (``len(code) <= len(parsable)``, a filter that cannot accept more than the buffer holds) and comparisons with a constant of the
    source ("are the first k octets there", the guard in front of reading them) are the reviewed exceptions."""
    report.rule(RULE, 'the length of the whole buffer is compared only to decide that data is missing or left over (a frame is parsed the same whatever follows it)')
    n = 0
    for f in ctx.model.functions():
        if f.module.external:
            continue
        params = [a.arg for a in f.node.args.args + f.node.args.kwonlyargs]
        if 'parsable' not in params:
            continue
        n += 1
        report.touch(f)
        parents = {}
        for x in ast.walk(f.node):
            for ch in ast.iter_child_nodes(x):
                parents[id(ch)] = x

        def mentions(e):
            return any(isinstance(y, ast.Call) and isinstance(y.func, ast.Name) and y.func.id == 'len' and len(y.args) == 1 and
                       isinstance(y.args[0], ast.Name) and y.args[0].id == 'parsable' for y in ast.walk(e))
        for x in ast.walk(f.node):
            if not (isinstance(x, ast.Compare) and mentions(x)):
                continue
            # the statement the comparison decides
            p, top = x, x
            while id(p) in parents and not isinstance(parents[id(p)], ast.stmt):
                p = parents[id(p)]
            st = parents.get(id(p))
            ok = False

            def raises_length_error(stmts):
                raised = [ast.unparse(r.exc).split('(')[0] for b in stmts for r in ast.walk(b) if isinstance(r, ast.Raise) and r.exc is not None]
                raised += [ast.unparse(c_.args[0]).split('(')[0] for b in stmts for c_ in ast.walk(b)
                           if isinstance(c_, ast.Call) and ast.unparse(c_.func).endswith('raise_from') and c_.args]
                return bool(raised) and all(r in ('NotEnoughData', 'TooMuchData') for r in raised)
            if isinstance(st, ast.If) and any(y is x for y in ast.walk(st.test)):
                ok = raises_length_error(st.body) or (bool(st.orelse) and raises_length_error(st.orelse))
                if not ok and st.body and isinstance(st.body[-1], (ast.Return, ast.Continue, ast.Break)):
                    # ``if len(parsable) <= n: return obj`` in front of ``raise TooMuchData(...)``: the same decision, inverted
                    holder = parents.get(id(st))
                    for field in ('body', 'orelse', 'finalbody'):
                        block = getattr(holder, field, None)
                        if isinstance(block, list) and any(b is st for b in block):
                            idx = [i for i, b in enumerate(block) if b is st][0]
                            ok = idx + 1 < len(block) and isinstance(block[idx + 1], (ast.Raise, ast.Expr)) and raises_length_error([block[idx + 1]])
            # "are the first k octets there" (k a constant of the source): a guard in front of reading them, not a look at what follows
            others = [e for e in [x.left] + list(x.comparators) if not mentions(e)]
            if not ok and others and all(constant_of_source(e) for e in others):
                ok = True
            if not ok and isinstance(parents.get(id(x)), ast.comprehension) and len(x.ops) == 1 and (
                    (isinstance(x.ops[0], (ast.LtE, ast.Lt)) and mentions(x.comparators[0]) and not mentions(x.left)) or
                    (isinstance(x.ops[0], (ast.GtE, ast.Gt)) and mentions(x.left) and not mentions(x.comparators[0]))):
                ok = True       # candidates no longer than the buffer: a longer buffer admits more candidates only for a longer frame
            if not ok:
                report.add(RULE, '%s@buffer-length[%s]' % (f.construct, ast.unparse(x)[:50]),
                           'the decision `%s` reads the length of the whole buffer: the same frame followed by other bytes is parsed differently '
                           '(the result depends on bytes beyond the n that are reported)' % ast.unparse(x)[:90])
    report.count(RULE, n)
    report.floor(RULE, 150, 'functions that take the buffer')


def declared_constant_lengths(ctx, report, RULE='C03.R12'):
    """A frame whose parser reports a constant length although the frame declares its length on the wire: the declared length has to
    be *that* constant - every other value is refused - otherwise n is not the declared length and the bytes the peer announced
    stay in the stream.  Decided on the guards of the parse trace, evaluated for the good value and for values on both sides of it
    (rule shared with the TPKT / SSLRequest constants of C09.R5)."""
    from ..spec import load_spec
    from .c09 import field_pinned
    report.rule(RULE, 'frames of constant size: the declared length is pinned to the size the parser reports')
    spec = load_spec('opp.json')['constants']
    for cname, key, good in (('SslRequest', 'length', spec['postgresql_sslrequest_length']),):
        c = ctx.model.try_cls(cname)
        if c is None or c.resolve('_parse') is None:
            report.error('%s: %s vanished' % (RULE, cname))
            continue
        report.count(RULE)
        report.touch(c.resolve('_parse'))
        if not field_pinned(ctx, c, key, good, (0, good - 1, good + 1, good + 4, 0x100, 0xffffffff)):
            report.add(RULE, '%s@declared[%s]' % (c.construct, key),
                       'the %s field of %s is not pinned to %d: a frame that declares another length is accepted and reported %d bytes long' % (key, cname, good, good))


def library_framing(ctx, report):
    """len(load(input).dump()) is the number of bytes the message occupies only for the definite length form: for a BER
    value of indefinite length the library returns header and contents without the end-of-contents octets, so two bytes of
    the message would be left in the stream.  Every function that hands the input to a library ``load`` has to refuse the
    indefinite form first (second octet 0x80) - which the protocol that uses it forbids anyway (RFC 4511 5.1)."""
    report.rule('C03.R10', 'messages framed by an ASN.1 decoder: the indefinite length form is refused before the decoder sees the input')
    from ..ldapbridge import evaluate
    br = evaluate(ctx)
    bridge = ctx.model.try_cls('LDAPMessageParsableBase')
    bridge_f = bridge.methods.get('_parse_asn1') if bridge is not None else None
    decided_by_evaluation = set()
    if br['evaluated'] and bridge_f is not None:
        report.count('C03.R10', br['runs'])
        report.touch(bridge_f)
        if 'indefinite' in br['problems']:
            report.add('C03.R10', bridge_f.construct + '@indefinite-length',
                       'the input goes to the library decoder without the indefinite length form (30 80 ... 00 00) having been refused: the reported '
                       'length then leaves the two end-of-contents octets of the message in the stream (%s)' % br['problems']['indefinite'])
        # load() calls in the bridge and in the helper methods it calls are covered by the evaluation
        decided_by_evaluation = {bridge_f.qualname} | {
            m.qualname for m in bridge.methods.values()
            if any(isinstance(x, ast.Call) and isinstance(x.func, ast.Attribute) and x.func.attr == m.name for x in ast.walk(bridge_f.node))}
    n = 0
    for f in ctx.model.functions():
        if f.module.external or not f.module.relpath.startswith('cryptoparser/tls/ldap.py'):
            continue
        loads = [c for c in ast.walk(f.node) if isinstance(c, ast.Call) and isinstance(c.func, ast.Attribute) and c.func.attr == 'load' and
                 c.args and not isinstance(c.func.value, ast.Name) or
                 isinstance(c, ast.Call) and isinstance(c.func, ast.Attribute) and c.func.attr == 'load' and c.args and
                 isinstance(c.func.value, ast.Name) and c.func.value.id not in ('json', 'pickle')]
        for ld in loads:
            n += 1
            # the decoder's ``strict`` flag means "raise when bytes follow the value" (sa/external.json): the message would parse only
            # when the buffer ends where it ends, which a framing unit must not depend on
            strict = None
            for k in ld.keywords:
                if k.arg == 'strict':
                    strict = k.value
                elif k.arg is None:
                    v = f.cls.resolve_var(ast.unparse(k.value).split('.')[-1]) if f.cls is not None and isinstance(k.value, ast.Attribute) else None
                    node = getattr(v, 'node', v)
                    if isinstance(node, ast.Dict):
                        for kk, vv in zip(node.keys, node.values):
                            if isinstance(kk, ast.Constant) and kk.value == 'strict':
                                strict = vv
                    elif node is None or not isinstance(node, ast.Dict):
                        strict = k.value        # not a table of the source: the flag cannot be excluded
            if len(ld.args) > 1:
                strict = ld.args[1]
            report.count('C03.R10')
            if strict is not None and not (isinstance(strict, ast.Constant) and strict.value in (False, None)):
                report.add('C03.R10', f.construct + '@strict-decoder',
                           'the library decoder is called with strict=%s: it then raises when bytes follow the value, so the message parses only when '
                           'the buffer ends with it - the result depends on what comes after the frame' % ast.unparse(strict)[:30])
            if f.qualname in decided_by_evaluation:
                continue
            report.count('C03.R10')
            report.touch(f)
            ok = False
            for i in ast.walk(f.node):
                if isinstance(i, ast.If) and i.lineno < ld.lineno and any(isinstance(x, ast.Raise) for x in i.body):
                    t = i.test
                    consts = set()
                    for c in ast.walk(t):
                        if isinstance(c, ast.Constant) and isinstance(c.value, int):
                            consts.add(c.value)
                        elif isinstance(c, ast.Constant) and isinstance(c.value, bytes) and len(c.value) == 1:
                            consts.add(c.value[0])
                    if 0x80 in consts and 1 in consts and 'parsable' in ast.unparse(t) and \
                            any(isinstance(c, ast.Compare) and any(isinstance(o, ast.Eq) for o in c.ops) for c in ast.walk(t)):
                        ok = True       # the second octet (index 1, or the slice [1:2]) compared with 0x80
            if not ok:
                report.add('C03.R10', f.construct + '@indefinite-length',
                           'the input goes to the library decoder without the indefinite length form (30 80 ... 00 00) having been refused: the reported '
                           'length then leaves the two end-of-contents octets of the message in the stream')
    if n == 0:
        report.error('C03.R10: no library load() call found in cryptoparser/tls/ldap.py (anchor moved)')
