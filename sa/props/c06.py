"""C06 -- SSL/TLS messages are laid out exactly as the RFCs specify (independent table oracle)."""
from __future__ import annotations

import ast
import json
import os

from .. import speccheck

META = {
    'explanation': (
        'For every SSL 2.0/3.0/TLS structure the package implements, the wire layout extracted from the parser and the '
        'layout extracted from the composer (abstract interpretation, see C01) are each compared with the layout written '
        'down from the RFC text in sa/specs/tls.json (field order, widths, big-endian integers, which length field governs '
        'which bytes with what offset, optional parts, repetition, vector floor/ceiling and the prefix width the ceiling '
        'implies). A mistake made consistently on both sides changes both extracted layouts and disagrees with the table. '
        'R2 compares the numeric registries (content/handshake/alert types, SSL 2.0 codes, extension numbers the registries '
        'are keyed on, SCSV code points) with the RFC/IANA numbers. R3 demands an entry for every wire structure of the TLS '
        'modules. R4 checks the SSL 2.0 two-byte record header.'
        ' R4 is decided by tabulation of the extracted header arithmetic over every value of the first header byte (both header forms) and of the composer\'s header over body lengths.'),
    'assumptions': ['sa/specs/tls.json was transcribed by hand from RFC 5246/8446/6066/7301/7627/7685/8449/8472/8879/6962/5746/5077/4492 and '
                    'draft-hickman-netscape-ssl-00 without network access; an error there shows up as a disagreement with both sides',
                    'value conversions (IDNA names, Random.time, certificate contents) are not decided'],
    'trusted_base': ['sa/specs/tls.json', 'sa.interp/layout/canon/compare', 'sa.spec'],
    'exhaustive': True,
}

META['explanation'] += ' ' + 'R1: both extracted layouts against sa/specs/tls.json, length fields computed from the written data, attribute names of spec items (a named position that is read and dropped, or composed as a constant, is a finding). R5: variant lists - every class but the last can decline. R6: explicit rejections against the reviewed table. R7: the shared flag / timestamp primitives tabulated (gmt_unix_time, SCT timestamps incl. values beyond 2^32). R8: the two extension dispatch tables evaluated; a type whose body differs between client and server hello (sent_by in sa/specs/tls.json) goes to the structure of the table\'s own side.'

META['explanation'] += ' ' + 'R9: SCSV fold / unfold tabulated, with and without a renegotiation_info extension (shared with C05.R3).'

META['explanation'] += ' ' + 'R10: what the composer hands to a primitive is the stored attribute - no constant, no clamp (shared with C01.R2).'
META['explanation'] += ' ' + 'R11: no case folding in the TLS parse functions and the helpers they call. R12: the code point wrappers tabulated over every code of the width (shared with C10.R6). R13: no quiet return from a parse function while a positive number of octets is unread.'
MODULES = {'cryptoparser.tls.record', 'cryptoparser.tls.subprotocol', 'cryptoparser.tls.extension', 'cryptoparser.tls.version',
           'cryptoparser.tls.grease', 'cryptoparser.common.x509'}
HERE = os.path.dirname(os.path.dirname(os.path.abspath(__file__)))



def octets_kept_as_received(ctx, report, RULE='C06.R11', prefix='cryptoparser/tls/'):
    """TLS carries octet strings (host names, protocol names, opaque values) whose letter case is part of the value on the wire:
    a decoder that folds the case hands back an object that composes to other bytes than the ones received.  Examined: every
    function of the TLS modules whose name contains ``parse`` together with the helpers it calls through ``cls`` / ``self`` / a
    module level name (followed through the class chain, three calls deep).  Reported: a call of ``lower`` / ``upper`` /
    ``casefold`` / ``title`` / ``swapcase`` / ``capitalize`` in one of them unless the receiver is the ``name`` of an
    enumeration member (text of the package, not of the wire)."""
    report.rule(RULE, 'TLS decoders keep octet strings in the letter case received: no case folding on the parse side')
    FOLD = ('lower', 'upper', 'casefold', 'title', 'swapcase', 'capitalize')

    def folds(node):
        out = []
        for x in ast.walk(node):
            if isinstance(x, ast.Call) and isinstance(x.func, ast.Attribute) and x.func.attr in FOLD and not x.args:
                recv = x.func.value
                if isinstance(recv, ast.Attribute) and recv.attr == 'name':
                    continue
                out.append(ast.unparse(x)[:70])
        return out
    if not folds(ast.parse("def _decode(cls, v):\n    return six.ensure_text(v.lower(), 'idna')\n")) or folds(ast.parse('x = self.version.name.lower()')):
        report.error('%s: the rule does not recognise its own samples' % RULE)
        return
    model = ctx.model
    by_module = {}
    for f in model.functions():
        if not f.module.external and f.cls is None:
            by_module.setdefault(f.module.relpath, {})[f.name] = f
    n = 0
    for f in model.functions():
        if f.module.external or not f.module.relpath.startswith(prefix) or 'parse' not in f.name:
            continue
        n += 1
        todo, seen = [(f, 0)], {id(f.node)}
        while todo:
            g, depth = todo.pop()
            for text in folds(g.node):
                report.add(RULE, '%s@folds[%s]' % (f.construct, g.name), '%s%s folds the letter case of what was read: %s' % (
                    g.construct, '' if g is f else ' (called from %s)' % f.name, text))
            if depth >= 3:
                continue
            for x in ast.walk(g.node):
                if not isinstance(x, ast.Call):
                    continue
                callee = None
                if isinstance(x.func, ast.Attribute) and isinstance(x.func.value, ast.Name) and x.func.value.id in ('cls', 'self') and g.cls is not None:
                    callee = g.cls.resolve(x.func.attr)
                elif isinstance(x.func, ast.Name):
                    callee = by_module.get(g.module.relpath, {}).get(x.func.id)
                if callee is not None and getattr(callee, 'node', None) is not None and not callee.module.external and id(callee.node) not in seen:
                    seen.add(id(callee.node))
                    todo.append((callee, depth + 1))
    report.count(RULE, n)
    report.floor(RULE, 60, 'parse functions of the TLS modules')


def optional_trailers_read(ctx, report, RULE='C06.R13', title=None):
    """An optional trailing block (the extensions of a hello) is there when anything is left of the enclosing body.  A parse
    function that leaves quietly - ``return`` without a value or with ``None`` - when what is left is *at most* some positive
    number of octets drops a short but well-formed block (an extension block holding one empty extension is six octets) and
    leaves its octets unread.  Reported in every function whose name contains ``parse``: an ``if`` over ``unparsed_length`` or
    ``len(...) - parsed_length`` compared with ``<`` / ``<=`` against a positive constant (literals, arithmetic of literals, locals
    bound to those) whose body returns nothing instead of raising."""
    report.rule(RULE, title or 'optional trailing blocks are read whenever anything is left: no quiet return while a positive number of octets is unread')

    def const(e, env):
        if isinstance(e, ast.Constant) and isinstance(e.value, int) and not isinstance(e.value, bool):
            return e.value
        if isinstance(e, ast.Name) and e.id in env:
            return env[e.id]
        if isinstance(e, ast.BinOp) and isinstance(e.op, (ast.Add, ast.Sub, ast.Mult)):
            a, b = const(e.left, env), const(e.right, env)
            if a is not None and b is not None:
                return a + b if isinstance(e.op, ast.Add) else a - b if isinstance(e.op, ast.Sub) else a * b
        return None

    def is_left(e):
        t = ast.unparse(e)
        if t.endswith('.unparsed_length') and isinstance(e, ast.Attribute):
            return True
        return isinstance(e, ast.BinOp) and isinstance(e.op, ast.Sub) and ast.unparse(e.left).startswith('len(') and ast.unparse(e.right).endswith('.parsed_length')

    def findings(fnode):
        env = {}
        for st in ast.walk(fnode):
            if isinstance(st, ast.Assign) and len(st.targets) == 1 and isinstance(st.targets[0], ast.Name):
                v = const(st.value, env)
                if v is not None:
                    env[st.targets[0].id] = v
        out = []
        for x in ast.walk(fnode):
            if not (isinstance(x, ast.If) and isinstance(x.test, ast.Compare) and len(x.test.ops) == 1):
                continue
            l, op, r = x.test.left, x.test.ops[0], x.test.comparators[0]
            bound = None
            if is_left(l) and isinstance(op, (ast.Lt, ast.LtE)):
                k = const(r, env)
                bound = None if k is None else (k - 1 if isinstance(op, ast.Lt) else k)
            elif is_left(r) and isinstance(op, (ast.Gt, ast.GtE)):
                k = const(l, env)
                bound = None if k is None else (k - 1 if isinstance(op, ast.Gt) else k)
            if bound is None or bound <= 0:
                continue
            quiet = any(isinstance(y, ast.Return) and (y.value is None or (isinstance(y.value, ast.Constant) and y.value.value is None)) for y in x.body) and \
                not any(isinstance(y, ast.Raise) for y in ast.walk(ast.Module(body=x.body, type_ignores=[])))
            if quiet:
                out.append((ast.unparse(x.test)[:80], bound))
        return out
    good = "def _parse_x(cls, p, parser):\n    if parser.parsed_length >= len(p['payload']):\n        return None\n    parser.parse_parsable('e', E)\n"
    bad = "def _parse_x(cls, p, parser):\n    k = 2 + 4\n    if len(p['payload']) - parser.parsed_length <= k:\n        return None\n    parser.parse_parsable('e', E)\n"
    if findings(ast.parse(good).body[0]) or not findings(ast.parse(bad).body[0]):
        report.error('%s: the rule does not recognise its own samples' % RULE)
        return
    n = 0
    for f in ctx.model.functions():
        if f.module.external or 'parse' not in f.name:
            continue
        n += 1
        for test, bound in findings(f.node):
            report.add(RULE, '%s@quiet-return[%s]' % (f.construct, test[:40]),
                       'the function returns without a result while up to %d octet(s) are unread (%s): a block that short is dropped and its octets are left over' % (bound, test))
    report.count(RULE, n)
    report.floor(RULE, 200, 'parse functions')

def check(ctx, report):
    with open(os.path.join(HERE, 'reviewed.json')) as f:
        reviewed = json.load(f).get('C06', {})
    speccheck.run(ctx, report, 'C06', 'tls.json', MODULES, reviewed)
    ssl2_header(ctx, report)
    octets_kept_as_received(ctx, report)
    optional_trailers_read(ctx, report)
    # unknown and GREASE code points of vectors are kept behind the wrapper classes: the wrapper can be built for every integer of
    # the width, and is GREASE exactly for the RFC 8701 values (tabulation shared with C10.R6)
    report.rule('C06.R12', 'code point wrappers of the vector fallbacks: built for every code of the width, GREASE exactly for the RFC 8701 values')
    from .c10 import grease_classification
    grease_classification(ctx, report, 'C06.R12')
    from .. import rejections
    rejections.check(ctx, report, 'C06.R6', 'tls')
    from .c10 import variant_order
    variant_order(ctx, report, 'C06.R5')
    # gmt_unix_time of the hello random and the SCT timestamps go through the shared timestamp primitives: what those write
    # for an instant is part of the layout (tabulation shared with C11.R5)
    from .c11 import flags_and_timestamps
    report.rule('C06.R7', 'timestamp fields (gmt_unix_time, SCT): the primitive writes seconds / milliseconds since the epoch in UTC, width-sized sentinel')
    flags_and_timestamps(ctx, report, R4='C06.R7', R5='C06.R7')
    report.floor('C06.R7', 100, 'tabulated flag words and instants')
    dispatch_sides(ctx, report)
    # the encoded value of a field is the value of the attribute: a composer that writes a constant for some values of an attribute
    # the parser stores as read (TLS 1.2 in place of every later version) does not write the specified encoding of the object
    # (binding comparison shared with C01.R2 / C11.R8)
    from .c11 import fields_written_as_stored
    fields_written_as_stored(ctx, report, RULE='C06.R10', kinds=None, modules=MODULES,
                             title='SSL/TLS structures: what the composer hands to a primitive is the stored attribute, never a constant in its place')
    report.floor('C06.R10', 200, 'fields of SSL/TLS structures')
    # the two signalling cipher suites of a client hello: what the parser folds into flags and the composer unfolds, evaluated over
    # every short suite sequence (shared with C05.R3 / C01.R10)
    report.rule('C06.R9', 'client hello: fallback and renegotiation SCSV are written exactly for the flags that are set, and read back as those flags')
    from .c05 import scsv_tabulation
    hello = ctx.model.try_cls('TlsHandshakeClientHello')
    if hello is not None and hello.methods.get('_parse') is not None and hello.methods.get('compose') is not None:
        if not scsv_tabulation(ctx, report, hello, hello.resolve('_parse'), hello.resolve('compose'), RULE='C06.R9'):
            report.undecided.append('C06.R9: the client hello left the subset the tabulation understands (C05.R3 reads its shape)')
    report.floor('C06.R1', 150, 'layout comparisons')
    report.floor('C06.R2', 100, 'registry members')


def dispatch_sides(ctx, report, RULE='C06.R8'):
    """Several extension types have one body in the client hello and another in the server hello (RFC 6962 3.3.1: empty against
    the SCT list; RFC 8446 4.2.8: three key share forms).  sa/specs/tls.json records which hello a structure is sent in; the two
    dispatch tables are evaluated and every type of a table must go to the structure of that table's side: a structure of the
    other side declines conformant data (the vector then keeps the extension as unparsed bytes, so the encoded values are not
    recovered although nothing fails)."""
    from ..values import ClassV, DictV
    from ..model import ClassInfo
    report.rule(RULE, 'extension dispatch tables: a type with side specific bodies goes to the structure of the table\'s own side')
    with open(os.path.join(HERE, 'specs', 'tls.json')) as f:
        spec = json.load(f)
    sent_by = {k: v['sent_by'] for k, v in spec['structures'].items() if v.get('sent_by')}
    model, it = ctx.model, ctx.interp
    by_type = {}
    for name, side in sorted(sent_by.items()):
        c = model.try_cls(name)
        if c is None:
            report.error('%s: %s of sa/specs/tls.json vanished' % (RULE, name))
            continue
        t = it.const_call(c, 'get_extension_type')
        by_type.setdefault((show_member(t), side), []).append(name)
    for table, side in sorted(spec['dispatch']['tables'].items()):
        c = model.try_cls(table)
        if c is None or c.resolve('_get_variants') is None:
            report.error('%s: dispatch table %s vanished' % (RULE, table))
            continue
        report.touch(c.resolve('get_parsed_extensions'))
        v = it.const_call(c, '_get_variants')
        if not isinstance(v, DictV):
            report.error('%s: dispatch table %s is not statically evaluable' % (RULE, table))
            continue
        for tag, lst in v.pairs:
            items = [x.cls.name for x in (it.iter_items(lst) or []) if isinstance(x, ClassV) and isinstance(x.cls, ClassInfo)]
            for n in items:
                if n in sent_by:
                    report.count(RULE)
                    if sent_by[n] != side:
                        report.add(RULE, '%s@dispatch[%s]' % (c.construct, show_member(tag)),
                                   'the %s table decodes %s with %s, the structure sent by the %s (%s): conformant data of a %s hello is '
                                   'declined and kept as unparsed bytes' % (side, show_member(tag), n, sent_by[n],
                                                                          spec['structures'][n].get('sent_by_ref', ''), side))
            want = by_type.get((show_member(tag), side), [])
            if want:
                report.count(RULE)
                missing = [n for n in want if n not in items]
                if missing:
                    report.add(RULE, '%s@dispatch[%s]' % (c.construct, show_member(tag)),
                               'the %s table does not decode %s with %s (decoded with %s)' % (side, show_member(tag), missing, items))
    report.floor(RULE, 20, 'side specific dispatch entries')


def show_member(t):
    from ..values import show
    return show(t)


def ssl2_header(ctx, report, RULE='C06.R4'):
    """R4: SSL 2.0 record header: two bytes, MSB of the first set, low 15 bits = record length (draft-hickman 5.1)."""
    import ast
    report.rule(RULE, 'SSL 2.0 record header: 2 bytes, MSB set, 15 bit length of what follows')
    c = ctx.model.cls('SslRecord')
    report.count(RULE, 2)
    from ..symeval import NotEvaluable, evaluate
    from ..values import Sym, show
    comp = ctx.canon.canon(c, 'compose')
    f = c.resolve('compose')
    head, width = [], 0
    for e in comp.elements:
        if e.kind != 'u' or width >= 2:
            break
        head.append(e)
        width += e.w
    if width != 2:
        report.add(RULE, f.construct + '@header', 'composer does not start with a 2 byte header')
    else:
        # tabulate the header bytes over body lengths on both sides of every bit boundary of the 15 bit length
        def leaf_for(n):
            def leaf(v):
                if isinstance(v, Sym) and v.op in ('len', 'clen', 'composed_length'):
                    return n
                raise NotEvaluable(show(v))
            return leaf
        try:
            for n in (range(0, 32768) if ctx.thorough else (0, 1, 255, 256, 259, 16383, 16384, 20033, 32767)):
                report.count(RULE)
                got = b''
                for e in head:
                    got += (evaluate(e.val, leaf_for(n)) & ((1 << (8 * e.w)) - 1)).to_bytes(e.w, 'big')
                want = (n | 0x8000).to_bytes(2, 'big')
                if got != want:
                    report.add(RULE, f.construct + '@header-value',
                               'a body of %d bytes is announced by the header %s, the specification says %s' % (n, got.hex(), want.hex()))
                    break
            # a body that does not fit the 15 bit length must be refused, not announced modulo 32768
            from ..trace import Alt, Raise, walk
            res = ctx.canon.layout(c, 'compose').result
            guards = [a for a in walk(res.block) if isinstance(a, Alt) and any(isinstance(x, Raise) for x in walk(a.then))]
            for n in (32768, 40000, 65535):
                report.count(RULE)
                refused = False
                for g in guards:
                    try:
                        if evaluate(g.cond, leaf_for(n)):
                            refused = True
                    except NotEvaluable:
                        pass
                if not refused:
                    report.add(RULE, f.construct + '@header-range', 'a body of %d bytes is composed with the header length %d (15 bits): it must be refused' % (n, n & 0x7fff))
                    break
        except NotEvaluable as e:
            report.add(RULE, f.construct + '@header', 'header value is not a function of the body length: %s' % e)
    ssl2_parse_header(ctx, report, c, RULE)


def declared_length(cond):
    """the guard in front of NotEnoughData compares what the header declares with what is there: ``declared > available``,
    ``available < declared`` or ``declared - available > 0`` (the difference held in a local).  Returns the declared side:
    the terms of (greater - smaller) that are not the parser's unparsed_length"""
    from ..values import Sym
    op, a, b = cond.args
    big, small = (a, b) if op == '>' else (b, a)

    def terms(v, sign, out):
        if isinstance(v, Sym) and v.op == 'add':
            terms(v.args[0], sign, out)
            terms(v.args[1], sign, out)
        elif isinstance(v, Sym) and v.op == 'sub':
            terms(v.args[0], sign, out)
            terms(v.args[1], -sign, out)
        else:
            out.append((sign, v))
        return out
    ts = terms(big, 1, []) + terms(small, -1, [])
    avail = [(sg, v) for sg, v in ts if isinstance(v, Sym) and v.op == 'ulen']
    rest = [(sg, v) for sg, v in ts if not (isinstance(v, Sym) and v.op == 'ulen')]
    if len(avail) != 1 or avail[0][0] != -1:
        return None
    rest = [(sg, v) for sg, v in rest if not (isinstance(v, int) and v == 0)]
    if not rest or any(sg != 1 for sg, v in rest):
        return None
    out = rest[0][1]
    for sg, v in rest[1:]:
        out = Sym('add', out, v)
    return out


def ssl2_parse_header(ctx, report, c, RULE='C06.R4'):
    """parser side of R4, decided by tabulating the extracted header arithmetic over every value of the first header byte
    (draft-hickman-netscape-ssl-00 5.1): MSB set -> 2 byte header, RECORD-LENGTH = ((b0 & 0x7f) << 8) | b1, no padding;
    MSB clear -> 3 byte header, RECORD-LENGTH = ((b0 & 0x3f) << 8) | b1 (0x40 is IS-ESCAPE), PADDING = third byte"""
    from ..symeval import NotEvaluable, evaluate
    from ..trace import Alt, Op, Raise, walk
    from ..values import FieldV, Sym, show
    p = c.resolve('_parse')
    report.touch(p)
    res = ctx.canon.layout(c, 'parse').result
    nodes = list(walk(res.block))
    ops = [n for n in nodes if isinstance(n, Op) and n.side == 'parse']
    u1 = [o for o in ops if o.prim == 'parse_numeric' and o.args.get('size') == 1]
    if len(u1) < 3:
        report.add(RULE, p.construct + '@header', 'parser does not read the header as single bytes (2 or 3 byte form)')
        return
    k0, k1 = u1[0].args.get('name'), u1[1].args.get('name')
    length = None
    for n in nodes:
        if isinstance(n, Alt) and isinstance(n.cond, Sym) and n.cond.op == 'cmp' and n.cond.args[0] in ('>', '<') and \
                any(isinstance(x, Raise) and 'NotEnoughData' in show(x.exc) for x in walk(n.then)):
            length = declared_length(n.cond)
            if length is not None:
                break
    pad_ops = [o for o in ops if o.prim == 'parse_raw' and o.args.get('name') == 'padding']
    if length is None or not pad_ops:
        report.add(RULE, p.construct + '@header', 'cannot find the declared record length check / the padding read of the SSL 2.0 record parser')
        return
    pad = pad_ops[0].args.get('size')
    PADV = 7

    def leaf_for(b0, b1):
        def leaf(v):
            if isinstance(v, FieldV):
                if v.key == k0:
                    return b0
                if v.key == k1:
                    return b1
                if v.op is not None and v.op.prim == 'parse_numeric' and v.op.args.get('size') == 1:
                    return PADV
            raise NotEvaluable(show(v))
        return leaf
    try:
        for b0 in range(256):
            for b1 in (range(256) if ctx.thorough else (0, 1, 0x41, 0xff)):
                report.count(RULE)
                got = evaluate(length, leaf_for(b0, b1))
                gpad = evaluate(pad, leaf_for(b0, b1))
                want = ((b0 & 0x7f) << 8 | b1) if b0 & 0x80 else ((b0 & 0x3f) << 8 | b1)
                wpad = 0 if b0 & 0x80 else PADV
                form = '2-byte' if b0 & 0x80 else '3-byte'
                if got != want:
                    report.add(RULE, p.construct + '@record-length[%s]' % form,
                               'header bytes %02x %02x: RECORD-LENGTH computed as %d, the specification says %d' % (b0, b1, got, want))
                if gpad != wpad:
                    report.add(RULE, p.construct + '@padding[%s]' % form,
                               'header bytes %02x %02x: %s padding bytes skipped, the specification says %s' % (
                                   b0, b1, gpad, 'the value of the third header byte' if wpad else 0))
    except NotEvaluable as e:
        report.add(RULE, p.construct + '@header', 'record length / padding is not a function of the header bytes: %s' % e)
        return
    report.sample({'rule': RULE, 'parser_length_expr': show(length), 'padding_expr': show(pad),
                   'tabulated': '256 values of byte 0 x %d values of byte 1, both header forms' % (256 if ctx.thorough else 4)})
