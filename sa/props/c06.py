"""C06 -- SSL/TLS messages are laid out exactly as the RFCs specify (independent table oracle)."""
from __future__ import annotations

import json
import os

from .. import speccheck

META = {
    'explanation': (
        'For every SSL 2.0/3.0/TLS structure the package implements, the wire layout extracted from the parser and the '
        'layout extracted from the composer (abstract interpretation, see C01) are each compared with the layout written '
        'down from the RFC text in sa/specs/tls.json (field order, widths, big-endian integers, which length field governs '
        'which bytes with what offset, optional parts, repetition, vector floor/ceiling and the prefix width the ceiling '
        'implies). A mistake made consistently on both sides changes both extracted layouts and disagrees with the table. '
        'R2 compares the numeric registries (content/handshake/alert types, SSL 2.0 codes, extension numbers the registries '
        'are keyed on, SCSV code points) with the RFC/IANA numbers. R3 demands an entry for every wire structure of the TLS '
        'modules. R4 checks the SSL 2.0 two-byte record header.'),
    'assumptions': ['sa/specs/tls.json was transcribed by hand from RFC 5246/8446/6066/7301/7627/7685/8449/8472/8879/6962/5746/5077/4492 and '
                    'draft-hickman-netscape-ssl-00 without network access; an error there shows up as a disagreement with both sides',
                    'value conversions (IDNA names, Random.time, certificate contents) are not decided'],
    'trusted_base': ['sa/specs/tls.json', 'sa.interp/layout/canon/compare', 'sa.spec'],
    'exhaustive': True,
}
MODULES = {'cryptoparser.tls.record', 'cryptoparser.tls.subprotocol', 'cryptoparser.tls.extension', 'cryptoparser.tls.version',
           'cryptoparser.tls.grease', 'cryptoparser.common.x509'}
HERE = os.path.dirname(os.path.dirname(os.path.abspath(__file__)))


def check(ctx, report):
    with open(os.path.join(HERE, 'reviewed.json')) as f:
        reviewed = json.load(f).get('C06', {})
    speccheck.run(ctx, report, 'C06', 'tls.json', MODULES, reviewed)
    ssl2_header(ctx, report)
    report.floor('C06.R1', 150, 'layout comparisons')
    report.floor('C06.R2', 100, 'registry members')


def ssl2_header(ctx, report):
    """R4: SSL 2.0 record header: two bytes, MSB of the first set, low 15 bits = record length (draft-hickman 5.1)."""
    import ast
    report.rule('C06.R4', 'SSL 2.0 record header: 2 bytes, MSB set, 15 bit length of what follows')
    c = ctx.model.cls('SslRecord')
    report.count('C06.R4', 2)
    comp = ctx.canon.canon(c, 'compose')
    us = [e for e in comp.elements if e.kind == 'u']
    f = c.methods['compose']
    if not us or us[0].w != 2:
        report.add('C06.R4', f.construct + '@header', 'composer does not start with a 2 byte header')
        return
    from ..values import Sym, show
    v = us[0].val
    ok = isinstance(v, Sym) and v.op == 'or' and 32768 in v.args and any(isinstance(a, Sym) and a.op == 'len' for a in v.args)
    if not ok:
        report.add('C06.R4', f.construct + '@header', 'header value is %s, expected (length of the body) | 0x8000' % show(v))
    link_ok = False
    for a in (v.args if isinstance(v, Sym) else ()):
        if isinstance(a, Sym) and a.op == 'len':
            link_ok = True
    p = c.methods['_parse']
    src = ast.unparse(p.node)
    if '& 128' not in src or '& 127' not in src or '2 ** 8' not in src:
        report.add('C06.R4', p.construct + '@header', 'parser does not split the header into MSB flag and 15 bit length')
