"""C08 -- DNSSEC and mail-related DNS record data follow the RFCs, key tag included."""
from __future__ import annotations

import ast
import json
import os

from .. import speccheck
from ..model import ClassInfo, EnumMember
from ..spec import load_spec

META = {
    'explanation': (
        'R1/R2: parser and composer layouts of DNSKEY/DS/RRSIG/MX/TXT RDATA and uncompressed names vs sa/specs/dns.json '
        '(RFC 1035 3.3, 2536, 3110, 4034 2-5, 5933, 6605, 8080) and the numeric registries. R3 key tag as a linear form: '
        'DnsRecordDnskey.key_tag must add big-endian 16 bit words (weights 256, 1), add an odd trailing byte with weight 256 '
        '(RFC 4034 App. B: key[i] << 8 for even i), fold with += (ac >> 16) & 0xffff and mask with 0xffff; algorithm 1 takes '
        'bits 8..23 of the modulus (B.1). R4 key material table: the curve and byte counts the parser uses per DNSSEC '
        'algorithm (read from the dispatch in _parse_public_key_ecdsa/_eddsa and the dependency\'s named-group table) vs the RFCs.'
        ' R3 is decided by tabulation: the statements of key_tag are evaluated on RDATA whose 16 bit word sum sits on both sides of every carry boundary (even and odd lengths) and compared with the transcription of RFC 4034 Appendix B. R5: RSA exponent length forms (RFC 3110).'),
    'assumptions': ['fixed-length mpint arithmetic for all integers is not decided', 'sa/specs/dns.json transcribed by hand'],
    'trusted_base': ['sa/specs/dns.json', 'sa.interp/layout/canon/compare/spec', 'cryptodatahub named-group.json'],
    'exhaustive': True,
}

META['explanation'] += ' ' + 'R6: explicit rejections against the reviewed table. R7: TXT character-strings (tabulated). R8: RRSIG timestamps and DNSKEY flags through the shared primitives (tabulated). R9: fixed length integers exact for every bit length, refusal instead of truncation. R5 also tabulates the RSA modulus width for moduli that are exact powers of two, with the key size modelled as the dependency computes it. R10: a parser whose consumed length is not reported tests that nothing is left unread. Spec items name the attribute they carry.'
META['explanation'] += ' ' + 'R11: DSA key fields (T and one common width of 64 + 8T octets) as a parse-compose-parse pipeline over primes shorter than their field; ts items of the specification carry whether all-ones means no limit.'

META['explanation'] += ' ' + 'R12: DNSKEY records evaluated per algorithm (RSA, DSA incl. a prime just above a power of two, ECDSA / GOST with leading zero octets, EdDSA). R13: the length demanded up front against the shortest RDATA of the specification (min_rdata in sa/specs/dns.json). R14: compose_bytes / compose_string around the largest length the prefix holds (shared with C11.R13). R15: the string primitives convert with the codec they are given (shared with C11.R14). R16: the TXT parser evaluated over RDATA with empty character-strings at every position.'
MODULES = {'cryptoparser.dnsrec.record'}
HERE = os.path.dirname(os.path.dirname(os.path.abspath(__file__)))


def check(ctx, report):
    with open(os.path.join(HERE, 'reviewed.json')) as f:
        reviewed = json.load(f).get('C08', {})
    speccheck.run(ctx, report, 'C08', 'dns.json', MODULES, reviewed)
    key_tag(ctx, report)
    from .. import rejections
    rejections.check(ctx, report, 'C08.R6', 'dns')
    key_material(ctx, report)
    rsa_exponent_length(ctx, report)
    report.rule('C08.R11', 'DSA public key (RFC 2536): T and one common field width of 64 + 8T octets for every size of prime; composed keys read back as the same key')
    dss_key_round_trip(ctx, report)
    report.rule('C08.R12', 'DNSKEY records of every algorithm of the registry, in the key format of their RFC, are read completely and composed back to the same octets')
    dnskey_round_trip(ctx, report)
    report.floor('C08.R12', 30, 'evaluated DNSKEY records')
    # the length a record parser demands before it starts is at most the length of the shortest record of its layout (the root
    # name as signer, an empty signature): conformant RDATA is not refused as too short (rule shared with C04.R4)
    from .c04 import header_constants
    report.rule('C08.R13', 'the minimum length a record parser demands up front does not exceed the shortest RDATA of its layout')
    from ..spec import load_spec
    minimum = {k: (v['min_rdata'], v.get('min_rdata_ref', '')) for k, v in load_spec('dns.json')['structures'].items() if 'min_rdata' in v}
    header_constants(ctx, report, RULE='C08.R13', scope=('cryptoparser.dnsrec.',), floor=4, spec_minimum=minimum)
    # a TXT chunk of exactly 255 octets, a label of 63: the longest string the one octet prefix holds is composed (shared with C11.R13)
    # labels are decoded with the codec the name parser names (idna): no literal codec inside the primitive (shared with C11.R14)
    txt_strings_parsed(ctx, report)
    from .c11 import codec_as_named
    codec_as_named(ctx, report, RULE='C08.R15', title='domain name labels are decoded with the codec the caller names (idna), no literal codec inside the string primitives')
    from .c11 import length_prefixed_bytes
    length_prefixed_bytes(ctx, report, RULE='C08.R14',
                          title='character-strings and labels: the longest string the length octet holds (255) is composed, 256 is refused (compose_bytes / compose_string evaluated)')
    txt_chunks(ctx, report)
    complete_consumption(ctx, report)
    # RRSIG inception / expiration (32 bit seconds) and the DNSKEY flag word go through the shared primitives; RSA exponent and
    # modulus through the fixed length integer primitives (tabulations shared with C11.R4/R5/R6)
    from .c11 import fixed_mpint, flags_and_timestamps
    report.rule('C08.R8', 'RRSIG timestamps and DNSKEY flags: the shared primitives write the instant in UTC seconds / the OR of the flags, and read them back')
    flags_and_timestamps(ctx, report, R4='C08.R8', R5='C08.R8')
    report.rule('C08.R9', 'RFC 3110 exponent and modulus: the fixed length integer primitives are exact for every bit length and refuse what does not fit')
    fixed_mpint(ctx, report, ctx.model.cls('ComposerBinary'), ctx.model.cls('ParserBinary'), 'C08.R9', negatives=False)   # RFC 3110 integers are unsigned
    report.floor('C08.R8', 100, 'tabulated flag words and instants')
    report.floor('C08.R9', 300, 'tabulated integers')
    report.floor('C08.R1', 12, 'layout comparisons')


from ..miniexec import Native


def rfc4034_key_tag(rdata):
    """RFC 4034 Appendix B (the C code, transcribed)"""
    ac = 0
    for i, byte in enumerate(rdata):
        ac += byte if i & 1 else byte << 8
    ac += (ac >> 16) & 0xffff
    return ac & 0xffff


def key_tag_samples(thorough):
    """RDATA byte strings whose 16 bit word sums sit on both sides of every carry boundary, in even and odd lengths"""
    out = []
    sums = [0, 1, 0xfffe, 0xffff, 0x10000, 0x10001, 0x1fffe, 0x1ffff, 0x20000, 0x2fffe, 0x3fffe, 0x3ffff, 0x4ffff, 0x5fffa, 0xfffe1]
    if thorough:
        sums += [k * 0xffff + d for k in range(1, 40) for d in (-2, -1, 0, 1, 2)] + [k * 0x10000 + d for k in range(1, 40) for d in (-2, -1, 0, 1)]
    def body_for(total):
        words = []
        rest = max(total, 0)
        while rest > 0xffff:
            words.append(0xffff)
            rest -= 0xffff
        words.append(rest)
        return b''.join(w.to_bytes(2, 'big') for w in words)
    for total in sums:
        # the word sum of the whole RDATA (header words included) is ``total``
        out.append(b'\x01\x01\x03\x0d' + body_for(total - 0x0101 - 0x030d))           # flags 257, protocol 3, algorithm 13
        for tail in (0x00, 0x01, 0x80, 0xff):
            out.append(b'\x01\x00\x03\x08' + body_for(total - 0x0100 - 0x0308 - (tail << 8)) + bytes([tail]))
    return out


class _TagParser(Native):
    def __init__(self, data, order):
        self.data, self.pos, self.order, self.values = bytes(data), 0, order, {}

    @property
    def unparsed_length(self):
        return len(self.data) - self.pos

    @property
    def parsed_length(self):
        return self.pos

    def parse_numeric(self, name, size):
        if self.pos + size > len(self.data):
            from ..miniexec import Unsupported
            raise Unsupported('key tag reader runs past the RDATA')
        self.values[name] = int.from_bytes(self.data[self.pos:self.pos + size], self.order)
        self.pos += size

    def __getitem__(self, k):
        return self.values[k]


def key_tag(ctx, report):
    """the statements of DnsRecordDnskey.key_tag evaluated (sa.miniexec) over crafted RDATA and compared with the
    transcription of RFC 4034 Appendix B; algorithm 1 (B.1) over sample moduli"""
    from ..miniexec import Evaluator, Obj, Raised, Unsupported
    report.rule('C08.R3', 'key tag: 16 bit big-endian word sum, trailing byte << 8, carry fold, 16 bit mask; algorithm 1 rule')
    c = ctx.model.cls('DnsRecordDnskey')
    f = c.methods.get('key_tag')
    if f is None:
        report.error('C08.R3: DnsRecordDnskey.key_tag vanished')
        return
    report.touch(f)
    cons = f.construct
    state = {}
    from ..miniexec import class_call_hook

    class Record(Native):
        # the record under evaluation: algorithm, key parameters and compose() are the sample's; helper methods the class
        # defines (a summing helper, a folding helper ...) are evaluated from their own statements through the MRO
        def __init__(self, alg, rdata, modulus):
            self.algorithm = alg
            self.key = Obj(params=Obj(modulus=modulus))
            self._rdata = rdata

        def compose(self):
            state['composed'] = True
            return self._rdata

    def names(name):
        if name.startswith('DnsSecAlgorithm.'):
            return name.split('.', 1)[1]
        if name.startswith('ByteOrder.') and name.endswith('.value'):
            return {'BIG_ENDIAN': '>', 'NETWORK': '!', 'LITTLE_ENDIAN': '<', 'NATIVE': '='}.get(name.split('.')[1], '?')
        if name.startswith('ByteOrder.'):
            return name
        raise Unsupported('free name %s' % name)

    def extra(n, ev):
        d = ast.unparse(n.func)
        if d == 'ParserBinary':
            data = ev.ev(n.args[0])
            kw = {k.arg: ev.ev(k.value) for k in n.keywords}
            order = kw.get('byte_order', ev.ev(n.args[1]) if len(n.args) > 1 else 'ByteOrder.NETWORK')
            big = order in ('ByteOrder.BIG_ENDIAN', 'ByteOrder.NETWORK')
            return _TagParser(data, 'big' if big else 'little')
        if d in ('six.iterbytes', 'six.indexbytes'):
            args = [ev.ev(a) for a in n.args]
            return list(bytes(args[0])) if d.endswith('iterbytes') else bytes(args[0])[args[1]]
        return NotImplemented
    hook = class_call_hook(c, extra, ctx.model)

    def run(alg, rdata=b'', modulus=0):
        state.update(composed=False)
        ev = Evaluator({'self': Record(alg, rdata, modulus)}, hook, hook.name_hook_for(c.module, names))
        return Evaluator.function(ev, f.node)
    bad = {'even': [], 'odd': []}
    try:
        for rdata in key_tag_samples(ctx.thorough):
            report.count('C08.R3')
            got = run('ECDSAP256SHA256', rdata)
            if not state['composed']:
                report.add('C08.R3', cons + '@input', 'the key tag is not computed over the composed RDATA')
                return
            want = rfc4034_key_tag(rdata)
            if got != want:
                bad['odd' if len(rdata) & 1 else 'even'].append((rdata, got, want))
        for modulus in (0x010203, 0xffffffffffffff, (1 << 1024) - 159, 0xabcdef0123456789, 0x80, 0x8000):
            report.count('C08.R3')
            got = run('RSAMD5', b'', modulus)
            want = (modulus >> 8) & 0xffff
            if got != want:
                report.add('C08.R3', cons + '@rsamd5', 'algorithm 1: modulus ..%x gives key tag %s, RFC 4034 B.1 says %d (most significant 16 of the least '
                                                        'significant 24 bits)' % (modulus & 0xffffff, got, want))
                break
    except (Unsupported, Raised) as e:
        report.add('C08.R3', cons + '@tabulation', 'key_tag left the subset the tabulation understands: %s' % e)
        return
    if bad['even']:
        rdata, got, want = bad['even'][0]
        report.add('C08.R3', cons + '@value', '%d even-length RDATA samples get a wrong key tag, e.g. word sum 0x%x: %s instead of %d (RFC 4034 Appendix B)' % (
            len(bad['even']), sum(int.from_bytes(rdata[i:i + 2], 'big') for i in range(0, len(rdata), 2)), got, want))
    if bad['odd']:
        rdata, got, want = bad['odd'][0]
        if bad['even']:
            pass        # already reported: the odd samples share the defect
        else:
            report.add('C08.R3', cons + '@odd-byte', 'the trailing byte of odd-length RDATA is not added as key[i] << 8 (RFC 4034 App. B): %d of the odd-length '
                                                     'samples differ, e.g. %d byte RDATA gives %s instead of %d' % (len(bad['odd']), len(rdata), got, want))
    report.sample({'rule': 'C08.R3', 'rdata_samples': len(key_tag_samples(ctx.thorough)), 'word_sums': 'both sides of every carry boundary, even and odd lengths'})


def key_material(ctx, report):
    report.rule('C08.R4', 'per algorithm curve and key byte counts vs RFC 6605/5933/8080')
    spec = load_spec('dns.json')['keys']
    model, it = ctx.model, ctx.interp
    c = model.cls('DnsRecordDnskey')
    ng = model.try_cls('NamedGroup')
    fe = c.methods.get('_parse_public_key_ecdsa')
    fd = c.methods.get('_parse_public_key_eddsa')
    if fe is None or fd is None:
        report.error('C08.R4: DnsRecordDnskey key parsers vanished')
        return
    report.touch(fe)
    report.touch(fd)

    def dispatch(f, value_of):
        out = {}
        for n in ast.walk(f.node):
            if isinstance(n, ast.If) and isinstance(n.test, ast.Compare) and isinstance(n.test.comparators[0], ast.Attribute) and \
                    ast.unparse(n.test.comparators[0].value) == 'DnsSecAlgorithm':
                out[n.test.comparators[0].attr] = value_of(n.body)
        return out

    def group_of(body):
        for st in body:
            if isinstance(st, ast.Assign) and ast.unparse(st.targets[0]) in ('named_group', 'curve_type') and isinstance(st.value, ast.Attribute):
                return st.value.attr
        return None

    def raw_size(body):
        for st in ast.walk(ast.Module(body=body, type_ignores=[])):
            if isinstance(st, ast.Call) and isinstance(st.func, ast.Attribute) and st.func.attr == 'parse_raw' and len(st.args) > 1:
                fr = it.new_frame(None, c.module)
                fr.quiet = True
                return it.eval(st.args[1], fr)
        return None
    groups = dispatch(fe, group_of)
    sizes = dispatch(fd, raw_size)
    evaluated = key_material_by_evaluation(ctx, c, fe, fd, spec)
    if evaluated is not None:
        # the two key parsers evaluated per algorithm: the curve handed to the key object and the byte counts read
        groups, coord_sizes, sizes = evaluated
    else:
        coord_sizes = {}
        report.undecided.append('C08.R4: the DNSKEY key parsers left the subset the evaluation understands; decided on their syntax')
    for alg, want in spec.items():
        report.count('C08.R4')
        if 'coordinate_bytes' in want:
            g = groups.get(alg)
            if g is None:
                report.add('C08.R4', fe.construct + '@algorithm[%s]' % alg, 'algorithm %s is not handled' % alg)
                continue
            size = ng.enum_members[g].get('size') if ng is not None and g in (ng.enum_members or {}) else None
            if alg in coord_sizes:
                size = coord_sizes[alg] * 8
            if g not in want['curves']:
                report.add('C08.R4', fe.construct + '@curve[%s]' % alg, '%s keys are parsed as curve %s; %s' % (alg, g, want['ref']))
            if size is not None and size // 8 != want['coordinate_bytes']:
                report.add('C08.R4', fe.construct + '@size[%s]' % alg, '%s coordinates are read with %d bytes; %s' % (alg, size // 8, want['ref']))
        else:
            got = sizes.get(alg)
            if got != want['key_bytes']:
                report.add('C08.R4', fd.construct + '@size[%s]' % alg, '%s public key is read with %s bytes; %s' % (alg, got, want['ref']))
        report.sample({'rule': 'C08.R4', 'algorithm': alg, 'ref': want['ref'], 'code': groups.get(alg) or sizes.get(alg)})


def key_material_by_evaluation(ctx, c, fe, fd, spec):
    """_parse_public_key_ecdsa / _parse_public_key_eddsa evaluated (sa.miniexec) for every algorithm of the table with a
    recording key parser and a recording key constructor: returns ({algorithm: curve handed to the key parameters},
    {algorithm: bytes read per coordinate}, {algorithm: bytes read for an EdDSA key}) or None when not evaluable"""
    from ..miniexec import Evaluator, EnumVal, Native, Obj, Raised, Unsupported, class_call_hook
    alg_cls = ctx.model.try_cls('DnsSecAlgorithm')
    if alg_cls is None or not alg_cls.enum_members:
        return None

    class KeyParser(Native):
        def __init__(self):
            self.reads = []
            self.values = {}

        def parse_mpint(self, name, size, *a, **k):
            self.reads.append(('mpint', name, size))
            self.values[name] = 1

        def parse_raw(self, name, size):
            self.reads.append(('raw', name, size))
            self.values[name] = b'\x01' * (size if isinstance(size, int) and 0 <= size < 4096 else 0)

        def __getitem__(self, name):
            return self.values[name]
    made = {}

    def extra(n, ev):
        d = ast.unparse(n.func)
        if d in ('PublicKeyParamsEcdsa', 'PublicKeyParamsEddsa'):
            kw = {k.arg: ev.ev(k.value) for k in n.keywords if k.arg}
            made['params'] = kw
            return Obj(**kw)
        if d == 'PublicKey.from_params':
            return Obj(params=ev.ev(n.args[0]))
        return NotImplemented
    hook = class_call_hook(c, extra, ctx.model)
    groups, coords, sizes = {}, {}, {}
    try:
        for alg, want in spec.items():
            if alg not in alg_cls.enum_members:
                continue
            f = fe if 'coordinate_bytes' in want else fd
            params = [a.arg for a in f.node.args.args if a.arg not in ('self', 'cls')]
            kp = KeyParser()
            made.clear()
            try:
                Evaluator(dict(zip(params, [EnumVal.of(alg_cls, alg), kp])), hook, None).function(f.node)
            except Raised:
                continue            # not handled: reported by the caller as such
            curve = next((v for k, v in made.get('params', {}).items() if isinstance(v, EnumVal)), None)
            if 'coordinate_bytes' in want:
                groups[alg] = curve.name if curve is not None else None
                ms = [r[2] for r in kp.reads if r[0] == 'mpint']
                if ms and all(isinstance(x, int) for x in ms) and len(set(ms)) == 1 and len(ms) == 2:
                    coords[alg] = ms[0]
                elif ms:
                    coords[alg] = -1
            else:
                raws = [r[2] for r in kp.reads if r[0] == 'raw']
                sizes[alg] = raws[0] if len(raws) == 1 else None
    except Unsupported:
        return None
    return groups, coords, sizes


def rsa_exponent_length(ctx, report):
    """RFC 3110 section 2: the exponent length is one octet for 1..255 and 0x00 + two octets for longer exponents.
    DnsRecordDnskey._compose_public_key_rsa is evaluated (sa.miniexec) with a recording composer for exponent lengths on
    both sides of the boundary and compared with that rule; the parser side is the layout comparison of R1."""
    from ..miniexec import Evaluator, Obj, Raised, Unsupported, class_call_hook
    rule = 'C08.R5'
    report.rule(rule, 'RSA public key: exponent length form (one octet up to 255, three octets above), exponent and modulus widths')
    c = ctx.model.cls('DnsRecordDnskey')
    f = c.methods.get('_compose_public_key_rsa')
    if f is None:
        report.error('%s: DnsRecordDnskey._compose_public_key_rsa vanished' % rule)
        return
    report.touch(f)

    class Composer(Native):
        def __init__(self):
            self.calls = []

        def compose_numeric(self, value, size):
            self.calls.append(('u', value, size))

        def compose_mpint(self, value, length):
            self.calls.append(('mpint', value, length))

        def compose_raw(self, value):
            self.calls.append(('raw', bytes(value)))
    params = [a.arg for a in f.node.args.args if a.arg not in ('self', 'cls')]
    hook = class_call_hook(c, None, ctx.model)       # helpers and class level constants the composer may use
    nh = hook.name_hook_for(c.module, None)
    try:
        for length in (1, 3, 4, 127, 254, 255, 256, 257, 300, 1000):
            report.count(rule)
            exponent = 1 << (8 * length - 1)
            modulus = (1 << 2047) + 1
            key = Obj(params=Obj(public_exponent=exponent, modulus=modulus), key_size=2048)
            comp = Composer()
            Evaluator(dict(zip(params, [comp, key])), hook, nh).function(f.node)
            prefix = [('u', length, 1)] if length <= 255 else [('u', 0, 1), ('u', length, 2)]
            want = prefix + [('mpint', exponent, length), ('mpint', modulus, 256)]
            if comp.calls != want:
                report.add(rule, '%s@exponent-length[%s]' % (f.construct, 'one-octet' if length <= 255 else 'three-octet'),
                           'an exponent of %d octets is written as %s, RFC 3110 2 says %s' % (
                               length, [c[:1] + c[2:] if c[0] == 'mpint' else c for c in comp.calls][:4], [c[:1] + c[2:] if c[0] == 'mpint' else c for c in want]))
        # modulus width: the field is the rest of the RDATA, as many octets as the modulus needs (no leading zero octet).  The
        # key object reports key_size the way asn1crypto computes it: ceil(log2(n)) rounded up to a multiple of 8
        import math
        for modulus in ((1 << 2047) + 1, (1 << 1017) - 1, 1 << 1016, (1 << 1016) + 1, 255, 256, (1 << 512) - 1, 1 << 511):
            report.count(rule)
            bits = int(math.ceil(math.log(modulus, 2)))
            key = Obj(params=Obj(public_exponent=65537, modulus=modulus), key_size=bits + (-bits % 8))
            comp = Composer()
            Evaluator(dict(zip(params, [comp, key])), hook, nh).function(f.node)
            need = (modulus.bit_length() + 7) // 8
            got = [c for c in comp.calls if c[0] == 'mpint' and c[1] == modulus]
            if not got or got[-1][2] != need:
                report.add(rule, '%s@modulus-width' % f.construct,
                           'a %d bit modulus (%s) is written into %s octets, it needs %d: the fixed length integer writer refuses it, so a parsed key cannot be '
                           'composed, serialised or given a key tag' % (modulus.bit_length(), 'a power of two' if modulus & (modulus - 1) == 0 else 'odd size',
                                                                       got[-1][2] if got else 'no', need))
                break
    except (Unsupported, Raised) as e:
        report.add(rule, f.construct + '@tabulation', 'the RSA key composer left the subset the tabulation understands: %s' % e)


def rsa_key_round_trip(ctx, report, rule='C08.R5'):
    """DnsRecordDnskey._parse_public_key_rsa and _compose_public_key_rsa evaluated as a pipeline on RFC 3110 key fields the
    parser may let through although the composer, which derives every width from the value, has no way to write them back:
    exponent 0 (zero octets wide: the length octet 0 then announces the three octet form), a zero length three octet form,
    leading zero octets. Whatever is accepted must be composed to bytes that read as the same numbers."""
    from ..miniexec import Evaluator, NativeError, Obj, Raised, Unsupported, class_call_hook, exception_values
    c = ctx.model.cls('DnsRecordDnskey')
    fp, fc = c.methods.get('_parse_public_key_rsa'), c.methods.get('_compose_public_key_rsa')
    if fp is None or fc is None:
        report.error('%s: DnsRecordDnskey._parse_public_key_rsa / _compose_public_key_rsa vanished' % rule)
        return
    report.touch(fp)

    class NotEnoughData(NativeError):
        pass

    class InvalidValueError(NativeError):
        pass
    InvalidValueError.__name__ = 'InvalidValue'

    class Parser(Native):
        def __init__(self, data):
            self.data, self.parsed_length, self.values = bytes(data), 0, {}

        @property
        def unparsed_length(self):
            return len(self.data) - self.parsed_length

        def take(self, n):
            if self.unparsed_length < n:
                raise NotEnoughData(n - self.unparsed_length)
            raw = self.data[self.parsed_length:self.parsed_length + n]
            self.parsed_length += n
            return raw

        def parse_numeric(self, name, size, converter=None):
            self.values[name] = int.from_bytes(self.take(size), 'big')

        def parse_mpint(self, name, length):
            self.values[name] = int.from_bytes(self.take(length), 'big')

        def __getitem__(self, name):
            return self.values[name]

    class Composer(Native):
        def __init__(self):
            self.out = bytearray()

        def compose_numeric(self, value, size):
            self.out += int(value).to_bytes(size, 'big')

        def compose_mpint(self, value, length):
            try:
                self.out += int(value).to_bytes(length, 'big')
            except OverflowError:
                raise InvalidValueError(value)
    exc = exception_values('InvalidValue', 'NotEnoughData', 'TooMuchData')

    def extra(n, ev):
        d = ast.unparse(n.func)
        if d == 'PublicKeyParamsRsa':
            return Obj(**{k.arg: ev.ev(k.value) for k in n.keywords})
        if d == 'PublicKey.from_params':
            return Obj(params=ev.ev(n.args[0]))
        return exc(n, ev)
    hook = class_call_hook(c, extra, ctx.model)
    nh = hook.name_hook_for(c.module, None)
    pparams = [a.arg for a in fp.node.args.args]
    cparams = [a.arg for a in fc.node.args.args if a.arg not in ('self', 'cls')]
    modulus = bytes([0xc1]) * 128
    KEYS = [(b'\x01\x03' + modulus, 'plain', 'exponent 3'), (b'\x03\x01\x00\x01' + modulus, 'plain', 'exponent 65537'),
            (b'\x00\x01\x00' + b'\x80' + b'\x00' * 255 + modulus, 'plain', 'an exponent of 256 octets'),
            (b'\x01\x00' + modulus, 'zero-exponent', 'exponent 0 in one octet'), (b'\x00\x00\x00' + modulus, 'zero-exponent', 'an exponent of no octets (three octet form)'),
            (b'\x02\x00\x03' + modulus, 'leading-zero', 'exponent 3 in two octets'), (b'\x01\x03\x00' + modulus, 'leading-zero', 'a modulus with a leading zero octet')]
    problems = {}
    try:
        for wire, key, what in KEYS:
            report.count(rule)
            try:
                k1 = Evaluator(dict(zip(pparams, ['cls', Parser(wire)])), hook, nh).function(fp.node)
            except Raised as e:
                if key == 'plain':
                    problems.setdefault(key, 'an RSA key with %s is refused (%s)' % (what, e.what[:60]))
                continue
            comp = Composer()
            try:
                Evaluator(dict(zip(cparams, [comp, Obj(params=k1.params, key_size=1024)])), hook, nh).function(fc.node)
            except Raised as e:
                problems.setdefault(key, 'an RSA key with %s is accepted and cannot be composed (%s)' % (what, e.what[:60]))
                continue
            try:
                k2 = Evaluator(dict(zip(pparams, ['cls', Parser(bytes(comp.out))])), hook, nh).function(fp.node)
            except Raised as e:
                problems.setdefault(key, 'an RSA key with %s is accepted and composed as %s..., which is refused (%s)' % (what, bytes(comp.out)[:6].hex(), e.what[:60]))
                continue
            a, b = k1.params, k2.params
            if (a.public_exponent, a.modulus) != (b.public_exponent, b.modulus):
                problems.setdefault(key, 'an RSA key with %s is composed as %s..., which reads as another key (exponent %d, %d bit modulus)' % (
                    what, bytes(comp.out)[:6].hex(), b.public_exponent, b.modulus.bit_length()))
    except Unsupported as e:
        report.add(rule, fp.construct + '@tabulation', 'the RSA key functions left the subset the tabulation understands: %s' % e)
        return
    for key, text in sorted(problems.items()):
        report.add(rule, '%s@accepted[%s]' % (fp.construct, key), text)


def dss_key_round_trip(ctx, report, rule='C08.R11'):
    """DnsRecordDnskey._parse_public_key_dss and _compose_public_key_dss evaluated as a pipeline (RFC 2536 2: T, Q of 20 octets, then
    P, G, Y of 64 + 8T octets each): keys whose prime is shorter than its field (leading zero octets), T = 0 and T = 8. The composer
    has to derive T and one common field width from the numbers; whatever is accepted must be composed to bytes that read as the same key."""
    from ..miniexec import Evaluator, NativeError, Obj, Raised, Unsupported, class_call_hook, exception_values
    c = ctx.model.cls('DnsRecordDnskey')
    fp, fc = c.methods.get('_parse_public_key_dss'), c.methods.get('_compose_public_key_dss')
    if fp is None or fc is None:
        report.error('%s: DnsRecordDnskey._parse_public_key_dss / _compose_public_key_dss vanished' % rule)
        return
    report.touch(fp)

    class NotEnoughData(NativeError):
        pass

    class InvalidValueError(NativeError):
        pass
    InvalidValueError.__name__ = 'InvalidValue'

    class Parser(Native):
        def __init__(self, data):
            self.data, self.parsed_length, self.values = bytes(data), 0, {}

        @property
        def unparsed_length(self):
            return len(self.data) - self.parsed_length

        def take(self, n):
            if self.unparsed_length < n:
                raise NotEnoughData(n - self.unparsed_length)
            raw = self.data[self.parsed_length:self.parsed_length + n]
            self.parsed_length += n
            return raw

        def parse_numeric(self, name, size, converter=None):
            self.values[name] = int.from_bytes(self.take(size), 'big')

        def parse_mpint(self, name, length):
            self.values[name] = int.from_bytes(self.take(length), 'big')

        def __getitem__(self, name):
            return self.values[name]

    class Composer(Native):
        def __init__(self):
            self.out = bytearray()

        def compose_numeric(self, value, size):
            self.out += int(value).to_bytes(size, 'big')

        def compose_mpint(self, value, length):
            try:
                self.out += int(value).to_bytes(length, 'big')
            except OverflowError:
                raise InvalidValueError(value)
    exc = exception_values('InvalidValue', 'NotEnoughData', 'TooMuchData')

    def extra(n, ev):
        d = ast.unparse(n.func)
        if d == 'PublicKeyParamsDsa':
            return Obj(**{k.arg: ev.ev(k.value) for k in n.keywords})
        if d == 'PublicKey.from_params':
            return Obj(params=ev.ev(n.args[0]))
        return exc(n, ev)
    hook = class_call_hook(c, extra, ctx.model)
    nh = hook.name_hook_for(c.module, None)
    pparams = [a.arg for a in fp.node.args.args]
    cparams = [a.arg for a in fc.node.args.args if a.arg not in ('self', 'cls')]
    import math

    def fields(t, p_octets):
        n = 64 + 8 * t
        p = (b'\x00' * (n - p_octets) + b'\xd5' * p_octets)
        # generator and public value are residues modulo the prime: shorter than it
        return bytes([t]) + b'\x11' * 20 + p + (b'\x22' * (p_octets - 1)).rjust(n, b'\x00') + (b'\x33' * (p_octets - 2)).rjust(n, b'\x00')
    KEYS = [(fields(0, 64), 'plain', 'T = 0 and a prime of 64 octets'), (fields(1, 72), 'plain', 'T = 1 and a prime of 72 octets'), (fields(8, 128), 'plain', 'T = 8 and a prime of 128 octets'),
            (fields(1, 71), 'short-prime', 'T = 1 and a prime of 71 octets'), (fields(2, 70), 'short-prime', 'T = 2 and a prime of 70 octets'),
            (fields(0, 60), 'short-prime', 'T = 0 and a prime of 60 octets')]
    def bit_size(prime):
        # asn1crypto: ceil(log2(p)), rounded up to a multiple of 8
        bits = int(math.ceil(math.log(prime, 2)))
        return bits + (-bits % 8)
    problems = {}
    try:
        for wire, key, what in KEYS:
            report.count(rule)
            try:
                k1 = Evaluator(dict(zip(pparams, ['cls', Parser(wire)])), hook, nh).function(fp.node)
            except Raised as e:
                if key == 'plain':
                    problems.setdefault(key, 'a DSA key with %s is refused (%s)' % (what, e.what[:60]))
                continue
            comp = Composer()
            try:
                Evaluator(dict(zip(cparams, [comp, Obj(params=k1.params, key_size=bit_size(k1.params.prime))])), hook, nh).function(fc.node)
            except Raised as e:
                problems.setdefault(key, 'a DSA key with %s is accepted and cannot be composed (%s)' % (what, e.what[:60]))
                continue
            try:
                k2 = Evaluator(dict(zip(pparams, ['cls', Parser(bytes(comp.out))])), hook, nh).function(fp.node)
            except Raised as e:
                problems.setdefault(key, 'a DSA key with %s is accepted and composed as %s..., which is refused (%s)' % (what, bytes(comp.out)[:6].hex(), e.what[:60]))
                continue
            a, b = k1.params, k2.params
            if (a.prime, a.generator, a.order, a.public_key_value) != (b.prime, b.generator, b.order, b.public_key_value):
                problems.setdefault(key, 'a DSA key with %s is composed as %s..., which reads as another key (%d bit prime)' % (
                    what, bytes(comp.out)[:6].hex(), b.prime.bit_length()))
    except Unsupported as e:
        report.add(rule, fp.construct + '@tabulation', 'the DSA key functions left the subset the tabulation understands: %s' % e)
        return
    for key, text in sorted(problems.items()):
        report.add(rule, '%s@accepted[%s]' % (fp.construct, key), text)


def dnskey_round_trip(ctx, report, rule='C08.R12'):
    """one DNSKEY record per algorithm of the registry, in the key format of its RFC (coordinates with leading zero octets
    included), through _parse and compose evaluated from their own statements (sa/codecs.py dnskey_record): read completely,
    composed back to the same octets"""
    from ..codecs import dnskey_record
    c = ctx.model.cls('DnsRecordDnskey')
    ev = dnskey_record(ctx)
    if not ev['evaluated']:
        report.add(rule, c.construct + '@evaluation', 'DnsRecordDnskey left the subset the evaluation understands: %s' % ev['why'])
        return
    report.count(rule, ev['runs'])
    for f in ('_parse', 'compose', 'parse_key', 'compose_key'):
        if c.resolve(f) is not None:
            report.touch(c.resolve(f))
    for side, text in sorted(ev['problems'].items()):
        report.add(rule, '%s@record[%s]' % (c.construct, side), text)


def txt_strings_parsed(ctx, report, rule='C08.R16'):
    """DnsRecordTxt._parse evaluated (sa.miniexec) with a model parser over RDATA made of one to three character-strings, empty
    ones included at every position (RFC 1035 3.3.14 allows them; ``compose`` of an empty text writes one): the text is the
    concatenation of the strings and the reported length is the whole RDATA - a loop that stops while a length octet is still
    unread drops a trailing empty string and reports one octet too few."""
    from ..miniexec import Evaluator, Native, NativeError, Raised, Unsupported, class_call_hook
    report.rule(rule, 'TXT data: every character-string of the RDATA is read (empty ones included), the reported length is the whole RDATA')
    c = ctx.model.try_cls('DnsRecordTxt')
    f = c.resolve('_parse') if c is not None else None
    if f is None:
        report.error('%s: DnsRecordTxt._parse vanished' % rule)
        return
    report.touch(f)

    class Short(NativeError):
        pass
    Short.__name__ = 'NotEnoughData'

    class Parser(Native):
        def __init__(self, data):
            self.data, self.pos, self.values = bytes(data), 0, {}

        @property
        def unparsed_length(self):
            return len(self.data) - self.pos

        @property
        def parsed_length(self):
            return self.pos

        @property
        def unparsed(self):
            return self.data[self.pos:]

        def parse_string(self, name, item_size, encoding='ascii', converter=str):
            if self.unparsed_length < item_size:
                raise Short(item_size - self.unparsed_length)
            size = int.from_bytes(self.data[self.pos:self.pos + item_size], 'big')
            if self.unparsed_length < item_size + size:
                raise Short(item_size + size - self.unparsed_length)
            self.values[name] = self.data[self.pos + item_size:self.pos + item_size + size].decode(encoding)
            self.pos += item_size + size

        def __getitem__(self, name):
            return self.values[name]
    box = {}

    def extra(node, ev):
        d = ast.unparse(node.func)
        if d in ('ParserBinary', 'ParserText'):
            return Parser(ev.ev(node.args[0]))
        if d in ('cls', 'DnsRecordTxt') and 'self' not in ev.env:
            box['value'] = ev.ev(node.args[0]) if node.args else ev.ev(node.keywords[0].value)
            return ('object',)
        return NotImplemented
    hook = class_call_hook(c, extra, ctx.model)

    def s(text):
        return bytes([len(text)]) + text.encode('ascii')
    samples = [('', ), ('hello', ), ('hello', ''), ('', 'hello'), ('a', '', 'b'), ('', ''), ('x' * 255, ''), ('x' * 255, 'y')]

    class Cls(Native):
        _repo_class = c
    try:
        for strings in samples:
            report.count(rule)
            rdata = b''.join(s(t) for t in strings)
            box.clear()
            try:
                got = Evaluator({'cls': Cls(), 'parsable': rdata}, hook, hook.name_hook_for(f.module, None)).function(f.node)
            except (Short, Raised) as e:
                report.add(rule, f.construct + '@strings[%s]' % '/'.join(str(len(t)) for t in strings),
                           'RDATA of character-strings with %s octets is refused (%s)' % ([len(t) for t in strings], str(e)[:60]))
                return
            n = got[1] if isinstance(got, tuple) and len(got) == 2 else None
            if box.get('value') != ''.join(strings) or n != len(rdata):
                report.add(rule, f.construct + '@strings[%s]' % '/'.join(str(len(t)) for t in strings),
                           'RDATA of character-strings with %s octets (%d octets): the text read has %s characters of %d and the reported length is %s' % (
                               [len(t) for t in strings], len(rdata), len(box.get('value') or ''), len(''.join(strings)), n))
                return
    except (Unsupported, AttributeError, TypeError) as e:
        report.undecided.append('%s: DnsRecordTxt._parse not evaluable: %s' % (rule, str(e)[:100]))
        return
    report.floor(rule, 8, 'evaluated TXT RDATA samples')


def txt_chunks(ctx, report, rule='C08.R7'):
    """DnsRecordTxt.compose evaluated (sa.miniexec) with a recording composer for texts of 0, 1, 254..257, 510..512, 600 and
    1000 characters: the character-strings it writes are at most 255 octets each and their concatenation is the text"""
    from ..miniexec import Evaluator, Obj, Raised, Unsupported, class_call_hook
    report.rule(rule, 'TXT data: character-strings of at most 255 octets whose concatenation is the whole text')
    c = ctx.model.try_cls('DnsRecordTxt')
    f = c.methods.get('compose') if c is not None else None
    if f is None:
        report.error('%s: DnsRecordTxt.compose vanished' % rule)
        return
    report.touch(f)

    class Composer(Native):
        def __init__(self):
            self.strings = []

        def compose_string(self, value, encoding, item_size):
            self.strings.append((value, item_size))

        @property
        def composed_bytes(self):
            return b''.join(bytes([len(v)]) + v.encode('ascii') for v, _ in self.strings)

        composed = composed_bytes

    def hook(n, ev):
        if ast.unparse(n.func) == 'ComposerBinary':
            return Composer()
        return NotImplemented
    try:
        for n in (0, 1, 254, 255, 256, 257, 510, 511, 512, 600, 1000):
            report.count(rule)
            text = ''.join(chr(ord('a') + (i % 26)) for i in range(n))
            comp_box = {}

            def hook2(node, ev, box=comp_box):
                r = hook(node, ev)
                if isinstance(r, Composer):
                    box['c'] = r
                return r
            # helper methods and class level constants of the record class are evaluated from their own statements
            h = class_call_hook(c, hook2, ctx.model)
            Evaluator({'self': Obj(value=text, _repo_class=c)}, h, h.name_hook_for(c.module, None)).function(f.node)
            strings = comp_box['c'].strings if 'c' in comp_box else []
            joined = ''.join(v for v, _ in strings)
            too_long = [len(v) for v, _ in strings if len(v) > 255]
            if joined != text or too_long or any(sz != 1 for _, sz in strings) or (not strings):
                what = 'loses %d character(s) (first difference at index %d)' % (len(text) - len(joined), next((i for i, (x, y) in enumerate(zip(joined, text)) if x != y), len(joined))) \
                    if joined != text else ('writes a character-string of %s octets' % too_long if too_long else 'writes %r' % strings[:2])
                report.add(rule, f.construct + '@chunks', 'a text of %d characters: the composer %s' % (n, what))
                return
            want_count = max(1, -(-n // 255))
            if len(strings) != want_count:
                # the chunking is the canonical one (full strings, then the rest): an extra empty character-string is valid RDATA
                # but not the bytes the text was parsed from - composing what was parsed changes the record
                report.add(rule, f.construct + '@chunks', 'a text of %d characters is written as %d character-strings (sizes %s), %d are needed: '
                           'RDATA that was parsed is not composed back byte for byte' % (n, len(strings), [len(v) for v, _ in strings][-3:], want_count))
                return
    except (Unsupported, Raised) as e:
        report.add(rule, f.construct + '@tabulation', 'DnsRecordTxt.compose left the subset the tabulation understands: %s' % e)


# ---- R10: a parser whose consumed length is not reported has to have consumed everything ---------------------------------

def makes_parser(f, call):
    """is the call one to a helper method of the class (``cls.m(...)`` / ``self.m(...)``) every return of which hands back a
    parser constructed there over the bytes it was given?"""
    from ..astutil import returned
    fn = call.func
    if isinstance(fn, ast.Name) and f.module.bindings.get(fn.id, (None,))[0] == 'func':
        m = f.module.bindings[fn.id][1]       # a helper function of the module (``parser = _get_record_parser(cls, parsable)``)
        rets = returned(m.node)
        return bool(rets) and all(isinstance(r, ast.Call) and ast.unparse(r.func) in ('ParserBinary', 'ParserText') for r in rets)
    if not (isinstance(fn, ast.Attribute) and isinstance(fn.value, ast.Name) and fn.value.id in ('cls', 'self') and f.cls is not None):
        return False
    m = f.cls.resolve(fn.attr)
    if m is None or m.module.external or m is f:
        return False
    rets = returned(m.node)
    return bool(rets) and all(isinstance(r, ast.Call) and ast.unparse(r.func) in ('ParserBinary', 'ParserText') for r in rets)


def complete_consumption(ctx, report, rule='C08.R10', scope=('cryptoparser/dnsrec/record.py',)):
    """A function that builds a parser over bytes it was handed and returns an object without that parser's parsed_length
    gives its caller no way to notice unread bytes: it has to test ``<parser>.unparsed_length`` itself (and raise), otherwise
    bytes after a fixed size key are dropped silently and the record is composed back shorter than it was."""
    from ..astutil import returned
    report.rule(rule, 'a parser whose consumed length is not handed to the caller checks that nothing is left unread')
    for f in ctx.model.functions():
        if f.module.external or not f.module.relpath.startswith(scope) or not f.name.lstrip('_').startswith('parse'):
            continue
        made = {}
        for n in ast.walk(f.node):
            if isinstance(n, ast.Assign) and len(n.targets) == 1 and isinstance(n.targets[0], ast.Name) and isinstance(n.value, ast.Call) and \
                    (ast.unparse(n.value.func) in ('ParserBinary', 'ParserText') or makes_parser(f, n.value)):
                made[n.targets[0].id] = n
        for name in made:
            report.count(rule)
            report.touch(f)
            src = ast.unparse(f.node)
            reported = any(('%s.parsed_length' % name) in ast.unparse(v) for v in returned(f.node))
            # a parser handed on to helpers that return nothing either is still this function's responsibility
            # (the test with locals that are bound once written out: ``rest = parser.unparsed_length; if rest: raise``)
            from ..astutil import inline_locals
            checked = any(isinstance(i, ast.If) and ('%s.unparsed_length' % name) in ast.unparse(inline_locals(i.test, f.node)) and
                          any(isinstance(x, ast.Raise) for x in ast.walk(i)) for i in ast.walk(f.node))
            reads_rest = ('%s.unparsed_length)' % name) in src or ('%s.unparsed)' % name) in src    # a final field that takes the rest
            if not reported and not checked and not reads_rest:
                report.add(rule, '%s@unread[%s]' % (f.construct, name),
                           'the parser %s is created here and neither its parsed_length is returned nor its unparsed_length tested: bytes the fields do not '
                           'need are dropped without a trace' % name)
    report.floor(rule, 6, 'parsers created by the parse functions of the DNS record module')
