"""C08 -- DNSSEC and mail-related DNS record data follow the RFCs, key tag included."""
from __future__ import annotations

import ast
import json
import os

from .. import speccheck
from ..model import ClassInfo, EnumMember
from ..spec import load_spec

META = {
    'explanation': (
        'R1/R2: parser and composer layouts of DNSKEY/DS/RRSIG/MX/TXT RDATA and uncompressed names vs sa/specs/dns.json '
        '(RFC 1035 3.3, 2536, 3110, 4034 2-5, 5933, 6605, 8080) and the numeric registries. R3 key tag as a linear form: '
        'DnsRecordDnskey.key_tag must add big-endian 16 bit words (weights 256, 1), add an odd trailing byte with weight 256 '
        '(RFC 4034 App. B: key[i] << 8 for even i), fold with += (ac >> 16) & 0xffff and mask with 0xffff; algorithm 1 takes '
        'bits 8..23 of the modulus (B.1). R4 key material table: the curve and byte counts the parser uses per DNSSEC '
        'algorithm (read from the dispatch in _parse_public_key_ecdsa/_eddsa and the dependency\'s named-group table) vs the RFCs.'),
    'assumptions': ['fixed-length mpint arithmetic for all integers is not decided', 'sa/specs/dns.json transcribed by hand'],
    'trusted_base': ['sa/specs/dns.json', 'sa.interp/layout/canon/compare/spec', 'cryptodatahub named-group.json'],
    'exhaustive': True,
}
MODULES = {'cryptoparser.dnsrec.record'}
HERE = os.path.dirname(os.path.dirname(os.path.abspath(__file__)))


def check(ctx, report):
    with open(os.path.join(HERE, 'reviewed.json')) as f:
        reviewed = json.load(f).get('C08', {})
    speccheck.run(ctx, report, 'C08', 'dns.json', MODULES, reviewed)
    key_tag(ctx, report)
    key_material(ctx, report)
    report.floor('C08.R1', 12, 'layout comparisons')


def key_tag(ctx, report):
    report.rule('C08.R3', 'key tag: 16 bit big-endian word sum, trailing byte << 8, carry fold, 16 bit mask; algorithm 1 rule')
    c = ctx.model.cls('DnsRecordDnskey')
    f = c.methods.get('key_tag')
    if f is None:
        report.error('C08.R3: DnsRecordDnskey.key_tag vanished')
        return
    report.touch(f)
    cons = f.construct
    src = ast.unparse(f.node)
    report.count('C08.R3', 6)
    # parser over the composed RDATA, big-endian
    news = [n for n in ast.walk(f.node) if isinstance(n, ast.Call) and ast.unparse(n.func) == 'ParserBinary']
    if not news or 'self.compose()' not in ast.unparse(news[0]):
        report.add('C08.R3', cons + '@input', 'the key tag is not computed over the composed RDATA')
    elif 'LITTLE' in ast.unparse(news[0]) or 'NATIVE' in ast.unparse(news[0]):
        report.add('C08.R3', cons + '@byte-order', 'RDATA words must be read big-endian')
    loops = [n for n in ast.walk(f.node) if isinstance(n, ast.While)]
    word_ok = False
    for lp in loops:
        reads = [n for n in ast.walk(lp) if isinstance(n, ast.Call) and isinstance(n.func, ast.Attribute) and n.func.attr == 'parse_numeric']
        adds = [n for n in ast.walk(lp) if isinstance(n, ast.AugAssign) and isinstance(n.op, ast.Add) and ast.unparse(n.target) == 'key_tag']
        if len(reads) == 1 and len(reads[0].args) > 1 and ast.unparse(reads[0].args[1]) == '2' and len(adds) == 1 and \
                not isinstance(adds[0].value, ast.BinOp) and 'unparsed_length > 1' in ast.unparse(lp.test):
            word_ok = True
    if not word_ok:
        report.add('C08.R3', cons + '@words', 'the main loop must add each 16 bit word once while at least two bytes remain')
    # trailing byte
    tails = [n for n in f.node.body if isinstance(n, ast.If) and 'unparsed_length' in ast.unparse(n.test)]
    if not tails:
        report.add('C08.R3', cons + '@odd-byte', 'an odd trailing byte is not added at all')
    else:
        adds = [n for n in ast.walk(tails[0]) if isinstance(n, ast.AugAssign) and isinstance(n.op, ast.Add) and ast.unparse(n.target) == 'key_tag']
        ok = False
        for a in adds:
            v = a.value
            if isinstance(v, ast.BinOp) and ((isinstance(v.op, ast.LShift) and ast.unparse(v.right) == '8') or
                                             (isinstance(v.op, ast.Mult) and '256' in (ast.unparse(v.left), ast.unparse(v.right)))):
                ok = True
        if not ok:
            report.add('C08.R3', cons + '@odd-byte', 'the trailing byte of odd-length RDATA is added with weight 1; RFC 4034 App. B adds key[i] << 8 for even i '
                                                     '(71 byte RDATA: 32514 instead of 16194)')
    fold = [n for n in ast.walk(f.node) if isinstance(n, ast.AugAssign) and ast.unparse(n.target) == 'key_tag' and '>> 16' in ast.unparse(n.value)]
    if len(fold) != 1 or ast.unparse(fold[0].value).replace(' ', '') not in ('key_tag>>16&65535', '(key_tag>>16)&65535'):
        report.add('C08.R3', cons + '@fold', 'carry fold must be key_tag += (key_tag >> 16) & 0xffff')
    rets = [ast.unparse(n.value).replace(' ', '') for n in ast.walk(f.node) if isinstance(n, ast.Return)]
    if 'key_tag&65535' not in rets:
        report.add('C08.R3', cons + '@mask', 'result must be masked with 0xffff')
    if not any('modulus&16777215)>>8' in r or 'modulus>>8&65535' in r or '(self.key.params.modulus&16777215)>>8' in r for r in rets):
        report.add('C08.R3', cons + '@rsamd5', 'algorithm 1: the tag is the most significant 16 of the least significant 24 bits of the modulus (RFC 4034 B.1)')
    if 'RSAMD5' not in src:
        report.add('C08.R3', cons + '@rsamd5', 'algorithm 1 is not special cased')


def key_material(ctx, report):
    report.rule('C08.R4', 'per algorithm curve and key byte counts vs RFC 6605/5933/8080')
    spec = load_spec('dns.json')['keys']
    model, it = ctx.model, ctx.interp
    c = model.cls('DnsRecordDnskey')
    ng = model.try_cls('NamedGroup')
    fe = c.methods.get('_parse_public_key_ecdsa')
    fd = c.methods.get('_parse_public_key_eddsa')
    if fe is None or fd is None:
        report.error('C08.R4: DnsRecordDnskey key parsers vanished')
        return
    report.touch(fe)
    report.touch(fd)

    def dispatch(f, value_of):
        out = {}
        for n in ast.walk(f.node):
            if isinstance(n, ast.If) and isinstance(n.test, ast.Compare) and isinstance(n.test.comparators[0], ast.Attribute) and \
                    ast.unparse(n.test.comparators[0].value) == 'DnsSecAlgorithm':
                out[n.test.comparators[0].attr] = value_of(n.body)
        return out

    def group_of(body):
        for st in body:
            if isinstance(st, ast.Assign) and ast.unparse(st.targets[0]) in ('named_group', 'curve_type') and isinstance(st.value, ast.Attribute):
                return st.value.attr
        return None

    def raw_size(body):
        for st in ast.walk(ast.Module(body=body, type_ignores=[])):
            if isinstance(st, ast.Call) and isinstance(st.func, ast.Attribute) and st.func.attr == 'parse_raw' and len(st.args) > 1:
                fr = it.new_frame(None, c.module)
                fr.quiet = True
                return it.eval(st.args[1], fr)
        return None
    groups = dispatch(fe, group_of)
    sizes = dispatch(fd, raw_size)
    for alg, want in spec.items():
        report.count('C08.R4')
        if 'coordinate_bytes' in want:
            g = groups.get(alg)
            if g is None:
                report.add('C08.R4', fe.construct + '@algorithm[%s]' % alg, 'algorithm %s is not handled' % alg)
                continue
            size = ng.enum_members[g].get('size') if ng is not None and g in (ng.enum_members or {}) else None
            if g not in want['curves']:
                report.add('C08.R4', fe.construct + '@curve[%s]' % alg, '%s keys are parsed as curve %s; %s' % (alg, g, want['ref']))
            if size is not None and size // 8 != want['coordinate_bytes']:
                report.add('C08.R4', fe.construct + '@size[%s]' % alg, '%s coordinates are read with %d bytes; %s' % (alg, size // 8, want['ref']))
        else:
            got = sizes.get(alg)
            if got != want['key_bytes']:
                report.add('C08.R4', fd.construct + '@size[%s]' % alg, '%s public key is read with %s bytes; %s' % (alg, got, want['ref']))
        report.sample({'rule': 'C08.R4', 'algorithm': alg, 'ref': want['ref'], 'code': groups.get(alg) or sizes.get(alg)})
